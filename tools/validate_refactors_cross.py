"""Cross replay of the behaviour-preserving refactorings (manual tool): every refactoring is also shown to the checks of the
OTHER properties whose anchored files it touches (rules are shared between properties and several properties are anchored in
the same files, so a refactoring filed under C10 is a legitimate edit for the check of C05 as well). Each such check must exit
0; results are printed, nothing is written to meta.json.
usage: validate_refactors_cross.py [-j N] [name ...]"""
from __future__ import annotations

import json
import os
import shutil
import subprocess
import sys
import tempfile
from concurrent.futures import ThreadPoolExecutor
from pathlib import Path

V = Path(__file__).resolve().parent.parent
REPO = Path('/repo')
PY = '/venv/bin/python'
props = [json.loads(l) for l in (V / 'properties.jsonl').read_text().splitlines() if l.strip()]
anch = {p['id']: set(p['anchors']['files']) for p in props}


def sh(cmd, cwd=None, env=None, timeout=900):
    p = subprocess.run(cmd, cwd=cwd, env=env, capture_output=True, text=True, timeout=timeout, errors='replace')
    return p.returncode, p.stdout + p.stderr


def validate(name):
    sd = V / 'refactors' / name
    own = name.split('_')[0]
    text = (sd / 'patch.diff').read_text()
    files = {l.split(' b/', 1)[1] for l in text.splitlines() if l.startswith('diff --git ')}
    others = sorted(pid for pid, fs in anch.items() if pid != own and fs & files)
    if not others:
        return name, []
    tmp = Path(tempfile.mkdtemp(prefix=f'rfx_{name}_', dir='/tmp'))
    res = []
    try:
        shutil.copytree(REPO / 'src', tmp / 'src', ignore=shutil.ignore_patterns('__pycache__'))
        rc, txt = sh(['git', 'apply', '--whitespace=nowarn', str(sd / 'patch.diff')], cwd=tmp)
        if rc != 0:
            rc, txt = sh(['patch', '-p1', '--no-backup-if-mismatch', '-i', str(sd / 'patch.diff')], cwd=tmp)
        if rc != 0:
            return name, [('-', 'does not apply', '')]
        for pid in others:
            cenv = dict(os.environ, VERIF_REPO=str(tmp), VERIF_OUT=str(tmp / f'out_{pid}'), VERIF_SELFTEST='1')
            rc, txt = sh([PY, '-m', 'sa.check', pid, '--tier', 'quick'], cwd=V, env=cenv)
            if rc != 0:
                detail = next((l[:200] for l in txt.splitlines() if l.startswith(('ANALYSIS-ERROR', '  ['))), '')
                res.append((pid, {1: 'FALSE ALARM', 2: 'undecided'}.get(rc, f'rc {rc}'), detail))
        return name, res
    finally:
        shutil.rmtree(tmp, ignore_errors=True)


def main():
    args = [a for a in sys.argv[1:] if not a.startswith('-')]
    jobs = 8
    if '-j' in sys.argv:
        jobs = int(sys.argv[sys.argv.index('-j') + 1])
        args = [a for a in args if a != str(jobs)]
    names = args or sorted(p.name for p in (V / 'refactors').iterdir() if p.is_dir())
    bad = 0
    with ThreadPoolExecutor(jobs) as ex:
        for name, res in ex.map(validate, names):
            for pid, verdict, detail in res:
                bad += 1
                print(f'{name} under {pid}: {verdict} {detail}')
    print(f'{len(names)} refactorings replayed under the other checks that share their files: {bad} not silent')


main()
