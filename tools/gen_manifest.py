"""Regenerate MANIFEST.json from the table below (keeps it valid and in one place)."""
import json
from pathlib import Path

V = Path(__file__).resolve().parent.parent
ids = [json.loads(l)['id'] for l in open(V / 'properties.jsonl')]

CHECKS = {
 'C15': dict(
  technique='CFG-based lock-state dataflow (lockset, acquire/release pairing, counter pairing, condition '
            'wait/notify discipline, lock-order graph) over lock.py',
  text='Static analysis of every path of every lock method: release on all exits, lockset of all bookkeeping '
       'accesses, inc/dec pairing, wait-in-loop and notify completeness (the lost wake-up clause), descriptor '
       'ownership, single-yield protocol, acyclic mutex order. These are necessary conditions of the property; '
       'the full interleaving semantics is a model-checking problem outside this family.',
  note='Trusted: Python threading/fcntl semantics as modelled (Condition.wait releases and re-acquires; lock '
       'operations and Counter item access do not raise); Windows branch not analysed.',
  ref='DESIGN.md §2 C15'),
 'C16': dict(
  technique='CFG dominance / reachability rules for the PENDING marker protocol, who-may-construct and '
            'wrapper-sibling agreement, publish-after-write ordering, atomic-rewrite, lockset of shared files, '
            'taint of free text into CSV/line records',
  text='Static rules K1-K8 over the model database and the run context: every path through transaction()/'
       'snapshot() respects the marker protocol (all crash points between file operations are covered by the '
       'ordering rules because they quantify over CFG prefixes), index entries are published after the content '
       'they promise, shared files are never truncated in place and are accessed under the matching lock, free '
       'text is quoted, record selection is exact. Necessary conditions only: fidelity of the retrieved model '
       'content is not decided.',
  note='Trusted: file operations are recognised by method name (touch/mkdir/unlink/write_csv/to_json/...); '
       'os.replace is atomic; pandas CSV semantics for quoted fields.',
  ref='DESIGN.md §2 C16'),
 'C06': dict(
  technique='interprocedural may-alias/mutation dataflow over all functions (dataset ownership tags, summaries to a '
            'fixpoint), class field models for eq/hash consistency and value-class store discipline, CFG dominance '
            'of validators',
  text='M1 covers every function of the package (not only those a test calls): an in-place write that can reach the '
       'DataFrame of a model passed by an API caller is reported with its alias chain and an entry point. M2/M3 decide '
       'the eq/hash/copy clauses from the class sources; M4/M5 decide that the unique-name and bounds validators '
       'cannot be bypassed by concatenation or by a path through create(). Necessary conditions; run-time '
       'well-formedness of computed values and code generation are not decided.',
  note='Unresolved callees (external libraries, dynamic dispatch) are assumed not to mutate their arguments (documented '
       'false-negative direction); column/row views of a DataFrame are not tracked; pandas mutator table is explicit.',
  ref='DESIGN.md §2 C06, Appendix A'),
 'C12': dict(
  technique='writer/reader key-set agreement over all to_dict/from_dict pairs, field coverage versus __eq__, '
            'canonical-order and hash-seed/identity independence lints over the serialisation closure, CFG '
            'dominance of the blanking steps in ModelHash',
  text='H1-H5 are decided for all 23 serialisable classes and the whole hashing closure on every run: a key written '
       'but not read (or vice versa), a compared field not serialised or serialised through a different view than '
       '__eq__ compares, an ordered value built from a set, id()/hash() in the closure, or a path to the encoder '
       'that skips blanking name/description/path are each structural and each break the property for some model. '
       'Equality of from_dict(to_dict(x)) for arbitrary expressions is not decided.',
  note='Trusted: sympy srepr/parse_expr round trip, json.dumps determinism, pandas hashing; dict-key extraction '
       'recognises the idioms listed in DESIGN.md (literal, helper extension, delegation, cls(**d)).',
  ref='DESIGN.md §2 C12'),
 'C05': dict(
  technique='def-use / index-role analysis of the matrix construction, single-ordering-source and set-order-leak '
            'dataflow, builder relabel discipline and graph ownership (who-may-write), typestate for replaced '
            'compartments over the whole package, serialisation key/index agreement; stale-snapshot rule for named CompartmentalSystem copies of a builder (CFG reachability, mutator set derived from the builder class)',
  text='O1-O8 decide, on the current source, the structural facts that make graph, matrix, amounts, names, inputs '
       'and equations describe one system in one order: every violation has a concrete system as witness '
       '(transposed matrix, dropped output term, insertion-order enumeration, lost relabel, duplicated stale node, '
       'filtered substitution, mis-indexed edges in to_dict).',
  note='Not decided: correctness of the ordering routine itself, to_compartmental_system term matching, symbolic '
       'mass balance. Builder calls are recognised by method name.',
  ref='DESIGN.md §2 C05'),
 'C10': dict(
  technique='class field models: coverage and accessor discipline of free_symbols/rhs_symbols/subs over every '
            'expression-valued field; scan-direction / index-range lint of the backward definition searches; '
            'dependency-edge shape; index-deletion / accumulator discipline, guarded traversal, closure of keep/remove sets (transitive API in single-pass growth), finite evaluation of the user-protection filter of remove_symbol_definitions',
  text='D4-D7 decide index/accumulator discipline, guarded graph traversal, transitive closure of the protected set and that users on both sides of the edited statement protect a definition. D1-D3 are necessary for "reported dependencies always include every parameter the value can '
       'depend on" (a field that free_symbols ignores, or reports as an expression instead of symbols, hides a '
       'dependency; a scan that skips index 0 or runs forwards mis-links definitions). The results of the graph algorithms on run-time statement lists '
       '(full_expression, reassign) are not decided by this family.',
  note='Expression-valued fields are recognised from constructor annotations (Expr, Dose); exemptions are listed with '
       'reasons in rules/C10.py.',
  ref='DESIGN.md §2 C10'),
 'C18': dict(
  technique='grammar (lark rule/terminal tables) versus interpreter-class exhaustiveness, alphabet set agreement '
            'across grammar / constants / annotations / dispatch chains, equality-method shape and coverage, '
            'Wildcard typestate guard analysis on the CFG, interprocedural set-order leak dataflow in the search '
            'algorithms; depth-typed abstract evaluation of the partitions() pipeline (no re-ordering inside a part while the consumer compares tuples); def-use dependence of the stepwise peripheral decision on the steps already taken',
  text='G9-G12 decide the range abbreviation of the printer, Option construction, order preservation inside partition parts and that the stepwise peripheral rule looks at the previous steps. G1-G8 quantify over every rule of the MFL grammar, every feature class and every method of the algebra, '
       'where a test only samples a few strings: they decide that no statement kind or mode silently falls to the '
       'default lark handler, that the four spellings of each mode alphabet are the same set, that equality is a '
       'boolean symmetric relation over all attributes, that +,- and printing keep every attribute, that `*` is '
       'never iterated unguarded, and that no candidate list is paired positionally with a set.',
  note='Not decided: counts of enumerated candidates (Bell numbers, power sets), the complete set of stepwise paths, algebraic laws '
       'against expanded sets. Category table (terminal, class, field, wildcard constant) is an explicit slot table '
       'in rules/C18.py.',
  ref='DESIGN.md §2 C18'),
 'C17': dict(
  technique='structural (sequence-provenance) analysis of the dask graph construction, positional-processing and '
            'dataflow checks of the dispatch path, who-may-write and order-preservation rules for the task graph, '
            'static arity check of all Task(...) sites',
  text='W1-W5 decide that the tuple stored for each task is (function, *static, *predecessor keys) with per-task '
       'unique keys, that every rewriting step between the workflow and dask is positional, that replacement and '
       'insertion keep the declared order/edges, and that no Task passes more static inputs than its function takes '
       '(65 sites). Exactly-once execution and scheduling order are properties of dask and are not decided.',
  note='Trusted: dask graph specification (tuple = call), networkx relabel_nodes(copy=True) keeps node order.',
  ref='DESIGN.md §2 C17'),
 'C03': dict(
  technique='parser-option / grammar-file agreement, regex-AST (re._parser) first-set and capture-group analysis of '
            'ignored terminals and splitters, purity of the printing methods, identity-equality requirement of '
            'records, CFG dominance of destructive record resets, loop-carried stale-length lint',
  text='Lossless parse->print follows from S1-S5 for every accepted text (all parser classes, all grammar files, '
       'both splitters, all __str__), which no finite set of example files can show; S6 and S8 are necessary '
       'conditions of "edits touch only what changed". Frame preservation of run-time tree edits in the record '
       'updaters is not decided here (the parameter records are treated under C04).',
  note='Trusted: lark keeps every token with keep_all_tokens and reports exact positions; the re-tokeniser alphabet '
       'is read from ignored.py.',
  ref='DESIGN.md §2 C03'),
 'C20': dict(
  technique='table agreement between accessors and the documented special ITERATION codes (reference table in '
            'specs/), encoder/decoder tag and payload-key agreement, regex-AST label/group pairing of the table '
            'header, reaching-definitions check of positional column slices, last-match selection lint',
  text='Z1-Z6 decide the structural part of "numbers are taken from the rows/tables NONMEM designates for them" and '
       'of the JSON round trip: each accessor/row pairing, each header field/label pairing, each tag/payload pairing is '
       'a finite table extracted from the source and compared as a whole. Fixed-width parsing and numeric matrix '
       'relations are not decided.',
  note='Trusted: specs/ext_codes.json (NONMEM 7 guide, cross-checked with the example ext file shipped in the repo).',
  ref='DESIGN.md §2 C20'),
 'C13': dict(
  technique='composition of the embedded filter grammar (lark terminals) with the token dispatch chain into an '
            'operator table compared with the NM-TRAN table, loop-carried-state (per-iteration default) check on '
            'the CFG, integer-comparison normal form of conversion constants, must-pass-through path rule in '
            'update_source, regex-AST delimiter-capacity analysis of the separator',
  text='R1-R4 decide the rule tables of the data reader for all operators / items / separators at once, and that the '
       'writer side (write_csv, $DATA/$INPUT regeneration) agrees with the reader. What the separator regex and pandas '
       'do on concrete files (padding, surplus columns) is not decided.',
  note='Trusted: specs/filter_ops.json (NM-TRAN operator table); pandas query semantics; the comment-line regexes are '
       'deliberately not checked (docs/NONMEM.rst and NM-TRAN disagree about @).',
  ref='DESIGN.md §2 C13'),
 'C01': dict(
  technique='table extraction from the reader (if/elif chains, returned tuples, unpacking order, add_flow calls) with '
            'algebraic normalisation (sympy on the extracted constant expressions) against an independent PREDPP '
            'reference table; branch-internal index consistency; grammar-rule / interpreter-handler / NM-TRAN token '
            'table agreement; precedence and associativity derived from the LALR grammar; stale-snapshot reachability on the CFG of the $DES recovery; unit typestate (SD / variance) of the $OMEGA block matrix with CFG ordering; def-use/control dependence of the block-IF fall-through decision',
  text='A6-A8 decide three path/dependence clauses of the $DES, $OMEGA and block-IF readers (9.1 of DESIGN.md). A1-A4 compare whole tables: all (ADVAN, TRANS) cells, all expression rules and tokens, all precedence levels. '
       'A swapped micro-constant, a wrong compartment number, a mis-mapped intrinsic or a changed associativity is '
       'found for every cell, not only those a test model happens to use. Numeric equality of eval(read(C)) with '
       'NM-TRAN for arbitrary programs, $DES recovery and OMEGA scale arithmetic are not decided.',
  note='Trusted: specs/predpp.json and specs/nmtran_ops.json (independent transcriptions of the NONMEM guides); sympy '
       'for rational-function equality of extracted expressions.',
  ref='DESIGN.md §2 C01'),
 'C02': dict(
  technique='sibling-table agreement: writer PK ratios and renaming dictionaries extracted from update.py (finite '
            'evaluation of the if-chains over all (from ADVAN, ADVAN, TRANS) triples) versus the reader tables of C01 '
            '(edge unification with sympy); printer -> grammar -> interpreter composition on the operator alphabet; '
            'n-ary / parenthesisation shape of the printer; numbering-source lint; must-pass-through (CFG + callee summaries) of the state refresh on every branch of the ODE update; finite evaluation of the statement-group diff filters; sequential-substitution lint; function-alphabet round trip (grammar rule tokens -> interpreter callable -> printer method token and arity, sympy used only to classify its own callables); printer self-bypass lint; who-may-select rule for solver ADVANs; defaulted-getter versus replace_option contradiction; coverage of the K renaming over the ADVANs new_advan_trans can select',
  text='B8-B12 decide that every intrinsic the reader produces is printed back as a token of the same rule with all arguments, that the printer never formats a sub-expression outside itself, that a solver ADVAN is only written together with $DES, that TRANS is written when the record had none, and that the elimination constant is renamed for every closed-form target ADVAN. B5-B7 decide that every branch of the ODE update renumbers Sn/A(n) and stores the compartment map, that a changed statement group removes exactly the old and regenerates exactly the new statements, and that renumbering is simultaneous. B1-B4 decide that reader, writer and renamer use one PREDPP table, that the printer is a right inverse of the '
       'parser on all relational/logical operators and prints every operand, and that all numbering sites share one '
       'order. Semantic equality of generated code after arbitrary transformation sequences is not decided.',
  note='Trusted: specs/predpp.json; sympy class names of relational operators.',
  ref='DESIGN.md §2 C02'),
 'C04': dict(
  technique='sibling-method agreement inside the record classes (multiplicity handling of (value)xn in readers vs '
            'writers), idiom-shape check of FIX token synchronisation, node-versus-value comparison lint, and a '
            'lexer/parser table cross-check: token sentences enumerated from the LALR tables of the parameter-record '
            'grammars, spelled with canonical lexemes, must be accepted by lark built from the same grammar; finite evaluation of the LCS backtracking comparison (longer subsequence followed, tie emits the insertion last) and of the branch/recursion consistency; template propagation of create_theta_record over the finite bound table',
  text='P1-P3 decide necessary conditions of "edits are written back exactly" for every layout with repeats and FIX '
       'flags (each violation has a concrete record as witness); A5 quantifies over every (lexer state, token, next '
       'token) context of the grammars (about 1400 witness sentences), i.e. over all documented layouts rather than '
       'the literal records of the test files. P4-P6 decide the text form of new thetas for all bound combinations, FIX removal sites and the order contract of the LCS edit script that the record updaters consume positionally. Numeric scale conversions are not decided.',
  note='A5 runs lark (the grammar compiler) on sentences derived from its own tables; pharmpy is not executed. '
       'Trusted: lark scanner ordering as implemented in the installed version.',
  ref='DESIGN.md §2 C04, C01-A5'),
 'C19': dict(
  technique='docstring-formula versus returned-expression comparison (small formula parser, idiom table for the counts, '
            'sympy as normaliser), clone-consistency (anti-unification) of per-kind sibling definitions, guard-table '
            'evaluation of the LRT cut-off, CFG dominance of the penalty step, ordering-source agreement in the delta '
            'method',
  text='N1-N5 decide that the criteria are the documented functions of the documented counts, that the LRT is oriented '
       'and signed as defined for forward and backward steps, and that penalties/cut-offs and gradient/covariance are '
       'combined consistently. Numerics of bootstrap/cdd/shrinkage statistics and tie handling in rank_models depend on '
       'run-time values and are not decided.',
  note='Idiom table (len(get_observations(model)) = n_observations, ...) is explicit in rules/C19.py with one line of '
       'reason each.',
  ref='DESIGN.md §2 C19'),
 'C14': dict(
  technique='contradiction rule (resolved column role versus literal column name in the same function) over all '
            'pharmpy.modeling functions; ordering (CFG dominance) and idiom lints for the dose-flag, ADDL and baseline '
            'code; the in-place-mutation clause is decided by the alias analysis of C06',
  text='Narrow claim: Q1-Q4 are necessary conditions that are visible in code shape (a function that addresses the '
       'frame with a literal role name fails for every dataset that names the column differently; truncating before '
       'flagging, exploding before grouping and first-non-missing baselines each contradict the documented semantics '
       'for specific records). Agreement of dose ids, TAD, ADDL expansion and ties with a record-by-record walk depends '
       'on vectorised pandas semantics over run-time tables and is not decided by this family.',
  note='Role literals are an explicit table (id: ID, L1).',
  ref='DESIGN.md §2 C14'),
 'C07': dict(
  technique='field-coverage rules (symbol-bearing fields of Model versus the fields a model-wide substitution rewrites; '
            'function-defining fields versus the fields a format converter carries over, including keyword '
            'dictionaries built from a constant attribute tuple); search-direction and index-bound analysis of the '
            'observation-expression extractor; discarded-result lint for the immutable API over the whole package',
  text='Narrow claim: F1/F2 decide that renamings and format conversions reach every field that defines the model '
       'function; F3 that the observation expression starts from the last assignment of the DV and substitutes only '
       'earlier definitions; F4 that no result of subs/replace/reassign/update_source or of a model-returning modeling '
       'function is dropped (1282 call sites). Preservation of the model function by mu-referencing, make_declarative, '
       'cleanup, ODE solving, and agreement of the evaluators with finite differences are run-time symbolic/numeric '
       'questions and are not decided by this family.',
  note='Exception tables (DISCARD_OK) list two harmless dropped update_source() results with reasons; cli.py is '
       'reported as advisory (outside the property).',
  ref='DESIGN.md §2 C07, §9'),
 'C08': dict(
  technique='alphabet/dispatch table agreement (MFL mode -> setter, mode -> detector, export list); exhaustive '
            'truth-table evaluation of the elimination detector formulas over atoms proven identical by AST comparison; '
            'typestate of replaced compartments in all modeling functions (stale node -> silent no-op); search-loop '
            'discipline on the CFG of the compartment finders; late-binding closure lint for the feature tables',
  text='Narrow claim: T1 every absorption/elimination mode has a setter and a detector naming the same feature; T2 at '
       'most one elimination detector is true for any model; T4 no setter result is lost through a stale compartment; '
       'T5 the finders do not stop at a rejected candidate (detector independent of construction order); T6 every '
       'entry of a feature table is bound to its own arguments. That a setter produces a model its detector recognises, '
       'idempotence, reversibility and absence of internal errors depend on graph rewrites of run-time systems and are '
       'not decided by this family.',
  note='T3 (uncovered dispatch corner) is advisory: the corner needs fix_parameters, which is not a search-space step.',
  ref='DESIGN.md §2 C08, §9'),
 'C09': dict(
  technique='docstring-formula versus template-expression comparison (formula parser for the ``.. math::`` blocks, AST '
            'to sympy conversion of the Expr/BooleanExpr constructor calls, algebraic normalisation) and substitution '
            'cov = median for neutrality; parameter-forwarding rule for the requested DV over resolved callees; '
            'origin analysis (fresh / fixed / existing) of the symbols defined by inserted statements',
  text='Narrow claim: X1 the covariate effect templates are the documented functions and neutral at the reference '
       'value; X2 every error-model setter/detector asks its callees about the requested DV; X3 inserted guard '
       'statements define fresh symbols. Which statistic the data pipeline computes for the reference (pandas '
       'semantics), IIV/IOV, eta transformations, allometry, mean transit/absorption time and removal of extensions '
       'are not decided by this family.',
  note='sympy is used as a normaliser of source-level expressions, not to execute pharmpy. FIXED_OK lists the two '
       'conventional fixed names (W, IPRED).',
  ref='DESIGN.md §2 C09, §9'),
 'C11': dict(
  technique='CFG dominance / reaching-definition rule on the covariance repair path; must-pass-through of the '
            'estimate canonicalisation in Model.create/replace; index-deletion order lint; accumulator-read lint '
            '(conversion loops read their input, not the dictionary they write)',
  text='Narrow claim: V1/V3 decide "invalid values are replaced by something that passed the PSD test, valid values '
       'are never altered, and no model is constructed without the check"; V2 that index deletions in the block '
       'bookkeeping run from the end; V4 that sd/corr conversion does not convert shared symbols twice. Variance '
       'preservation under join/split, block-diagonal composition and inverse conversions are index arithmetic on '
       'run-time matrices and are not decided.',
  note='Nearness (Frobenius) of the repaired matrix is numeric and not decided.',
  ref='DESIGN.md §2 C11, §9'),
}
NA = {}

def rules_of(pid):
    """rule ids as recorded by the last evidence file (what the check actually decides today)"""
    ev = V / 'evidence' / f'{pid}.json'
    if not ev.exists():
        return ''
    r = json.loads(ev.read_text())['coverage'].get('rules', {})
    ids = sorted(r, key=lambda k: (k[0], int(''.join(ch for ch in k if ch.isdigit()) or 0)))
    return f"Rules decided on every run ({len(ids)}): {', '.join(ids)} (one line each in DESIGN.md 9.1). "


checks = []
for pid in ids:
    if pid in CHECKS:
        c = CHECKS[pid]
        checks.append({
            'property_id': pid,
            'quick_cmd': f'/venv/bin/python -m sa.check {pid} --tier quick',
            'thorough_cmd': f'/venv/bin/python -m sa.check {pid} --tier thorough',
            'evidence_file': f'/verif/evidence/{pid}.json',
            'replay_cmd_template': 'cat {path}',
            'engine': 'sa',
            'level_claimed': {'category': 'other', 'text': rules_of(pid) + c['text'], 'design_ref': c['ref']},
            'level_note': c['note'],
            'technique': 'static analysis: ' + c['technique'] + '; plus rule Y0: ten defect-shape lints (CFG/def-use based, each with a positive example) over every function of the anchored modules',
        })
na = [{'property_id': p, 'reason': NA.get(p, 'check not built yet (design in DESIGN.md)')} for p in ids if p not in CHECKS]
m = {
 'version': 1,
 'setup_cmd': 'true',
 'hooks': {'guard': 'PHARMPY_VERIF', 'enable': 'none: static analysis reads the sources, no instrumentation',
           'baseline_off_cmd': 'cd /repo && /venv/bin/python -m pytest -ra -q -p no:cacheprovider --timeout=900 --continue-on-collection-errors',
           'source_commits': [], 'add_only': True},
 'engines': [{'name': 'sa', 'path': '/verif/sa', 'serves_properties': sorted(CHECKS),
              'kind_free_text': 'repository-specific static analysis on Python ast / CFG / call graph / lark LALR tables; never imports pharmpy'}],
 'checks': checks,
 'not_applicable': na,
 'notes': 'Static analysis family. Every check decides structural necessary conditions (named clauses in DESIGN.md) on /repo\'s current source; exit 2 + ANALYSIS-ERROR means the analysis could not decide (anchor vanished).',
}
(V / 'MANIFEST.json').write_text(json.dumps(m, indent=1))
print(len(checks), 'checks;', len(na), 'not applicable')
