"""Prompt for the THIRD round of behaviour-preserving refactorings (`<pid>_c1..c4`): the functions the round-4 rules are anchored
in are named as the preferred targets (function names of the library only, nothing about the rules); summaries of rounds 1 and 2
are listed so that the agent does something else."""
import glob, json, sys
pid, wt = sys.argv[1], sys.argv[2]
FOCUS = {
 'C01': 'parse_model_record / the $MODEL compartment defaults, RandomVariables built from OMEGA blocks (rvs_from_blocks / the BLOCK fill loops in parsing.py), the NM-TRAN protected functions (PEXP, PLOG, PLOG10, PSQRT, PDZ, PZR, PNP, PHE, PNG) wherever they are translated',
 'C02': '_translate_sympy_piecewise, update_needed_pk_parameters, new_advan_trans, update_infusion, update_ode_system (the RATE / bolus handling and the dispatch at its end)',
 'C03': 'ThetaRecord.update, OmegaRecord.update, _tokenize_ignored_characters / the code that re-creates comment and whitespace tokens, Record.root <-> str round trip helpers',
 'C04': 'OmegaRecord.update, OmegaRecord.remove, update_thetas, update_random_variables / the code that matches old and new parameters (lcs / diff helpers)',
 'C05': 'Infusion.subs, Bolus.subs, CompartmentalSystem.from_dict / to_dict, Compartment.replace, CompartmentalSystem.subs, CompartmentalSystemBuilder methods',
 'C06': 'Compartment.__eq__/__hash__, Parameter.create / replace, update_initial_individual_estimates, _create_thetas and _choose_param_inits in covariate_effect.py',
 'C07': 'mu_reference_model, get_initial_conditions, replace_non_random_rvs, simplify_model / cleanup_model helpers',
 'C08': 'set_first_order_elimination, has_first_order_absorption, has_first_order_elimination, _do_michaelis_menten_elimination, set_mixed_mm_fo_elimination, add_peripheral_compartment',
 'C09': '_calculate_mean/_calculate_median/_calculate_std, remove_iiv, _update_numerators in allometry / scaling code, CovariateEffect.apply',
 'C10': 'Statements._create_dependency_graph, Statements.dependencies, Statements.remove_symbol_definitions, CompartmentalSystem.subs, Statements.direct_dependencies',
 'C11': 'RandomVariables.nearest_valid_parameters, calculate_parameters_from_ucp / calculate_ucp_scale, RandomVariables.join, RandomVariables.unjoin, RandomVariables.replace_with_sympy_rvs helpers',
 'C12': 'Parameter.create, Parameter.to_dict/from_dict, Model.to_dict / Model.from_dict, _update_hash_with_dataset / the model hash code in hashing.py',
 'C13': 'convert_fortran_number, NMTRANDataIO.__init__, read_nonmem_dataset, filter_observations / the IGNORE-ACCEPT filter code',
 'C14': 'get_observations, get_admid, get_cmt, add_time_after_dose, get_doseid, expand_additional_doses',
 'C15': 'ShareableThreadLock / ShareableProcessLock lock methods, ThreadSafeKeyedRefPool.__call__, path_lock, LocalDirectoryContext._read_lock / _write_lock',
 'C16': 'LocalDirectoryContext.store_message / store_key, LocalModelDirectoryDatabaseTransaction.store_model, LocalModelDirectoryDatabase.snapshot / transaction, retrieve_model',
 'C17': 'WorkflowBuilder.__add__ / WorkflowBuilder.insert_workflow, Workflow.as_dask_dict, insert_context, _scatter_computation, the dask graph assembly in dispatchers',
 'C18': '_is_allowed_peripheral, ModelFeatures.least_number_of_transformations, ModelFeatures._eq_transits and its sibling comparison helpers, mfl feature expansion in filter/feature code',
 'C19': 'rank_models, ArrayEvaluator and its comparison operators, calculate_bic_penalty, calculate_bic, summarize_modelfit_results helpers',
 'C20': 'parse_table_columns, Log.from_dict / Log.to_dict, _get_last_est / _parse_modelfit_results helpers in tools/external/nonmem/results.py, NONMEMTableFile._parse_table',
}
for l in open('/verif/properties.jsonl'):
    p = json.loads(l)
    if p['id'] == pid:
        break
else:
    sys.exit('no such property')
done = []
for f in sorted(glob.glob(f'/verif/refactors/{pid}_*/meta.json')):
    m = json.load(open(f))
    done.append('  - ' + ' '.join(str(m.get('summary', '')).split())[:400])
print(f"""You are helping evaluate verification tooling for the Python library pharmpy (pharmacometrics modelling library).
You work ONLY inside the scratch git worktree {wt} (a checkout of the library). Never touch /repo or /verif, and do not read anything under /verif. Never use 'git stash' (it is shared between worktrees); undo with 'git -C {wt} checkout -- src'. Never use pkill/killall (other agents run the same commands on this machine).

Property of the library that holds and must KEEP holding:
  id: {p['id']}
  title: {p['title']}
  statement: {p['statement']}
  anchored files: {', '.join(p['anchors']['files'])}
  mechanisms: {'; '.join(m['name'] + ' @ ' + m.get('where','') for m in p['anchors']['mechanism'])}

Task: produce 4 DIFFERENT behaviour-preserving refactorings of the code in the anchored files (the functions named in the mechanisms and the code they rely on). Each must keep the observable behaviour of the library exactly the same for every input (so the property still holds) and must look like something a maintainer could plausibly merge. Do NOT fix bugs and do NOT change behaviour in any edge case (same exceptions, same order of side effects that are observable).

Prefer these functions in this round (they are central to the property and have hardly been refactored so far; if one does not exist under that exact name, take the closest): {FOCUS[pid]}.

Earlier rounds already produced these refactorings for this property - do NOT repeat them, choose other functions and above all OTHER KINDS of change:
{chr(10).join(done) or '  (none)'}

Kinds of change wanted in this round (use four different ones, the more structural the better):
  a. INLINE an existing small private helper (a function whose name starts with _) into its callers and delete it, or merge two functions into one.
  b. MOVE a helper or a constant table to another module of the package (e.g. a shared utils/internals module) and import it from there; or turn a method into a module-level function (or the reverse), or a nested function into a module-level one.
  c. Change the CONTROL-FLOW form: while <-> for, loop <-> recursion or itertools (takewhile, chain, groupby, accumulate, zip_longest), explicit index loop <-> iterator, try/except/else <-> pre-check where strictly equivalent, flag variable <-> for/else, nested ifs <-> one boolean expression, `match` statement (Python 3.12 is used) for an if/elif chain, walrus operator, conditional expression <-> if statement, early `continue`/`return` <-> nesting, reorder the branches of an if/elif chain whose conditions are mutually exclusive.
  d. Change the DATA-FLOW form: introduce or remove intermediate containers (list <-> generator <-> tuple), dict/set comprehension <-> update loop, dataclass/NamedTuple for a tuple of values passed around, functools.partial / operator.itemgetter / a local lambda for a repeated expression, unpacking vs indexing, `a if c else b` folded into min/max/any/all/next(..., default) where exactly equivalent, string building with join/format/f-string/%.
  e. Rename a PRIVATE function, method, attribute-free local, parameter of a private function or a module-level private constant consistently everywhere it is used (public API names must stay).
  f. Split a class method into a @staticmethod/@classmethod plus a thin wrapper, or replace repeated sibling methods by one parametrised helper plus thin wrappers.
Each refactoring should touch roughly 10-60 lines and be applied to code that is central to the property.

How to run things (the interpreter /venv/bin/python has pharmpy's dependencies; an editable install points at /repo, so ALWAYS set PYTHONPATH):
  cd {wt} && PYTHONPATH={wt}/src /venv/bin/python your_script.py
Pinned test suite (about 60-120 s; 247 tests pass, many modules fail to collect in this sandbox, same with or without your change):
  cd {wt} && PYTHONPATH={wt}/src /venv/bin/python -m pytest -q -p no:cacheprovider --timeout=900 --continue-on-collection-errors 2>&1 | tail -5
In addition run the relevant upstream test modules with warnings ignored, and write a small differential script that exercises the changed functions on many inputs and prints results/exceptions, and compare its output with and without your change (set PYTHONHASHSEED=0; the library's output depends on the hash seed in a few places):
  cd {wt} && PYTHONPATH={wt}/src /venv/bin/python -m pytest -q -p no:cacheprovider -o filterwarnings=ignore tests/<relevant dir or file> 2>&1 | tail -3
(the failing set must be identical with and without your change).

For each refactoring k = 1..4 deliver under {wt}/refactor/{pid}_c{{k}}/ (note the letter c: {pid}_c1 ... {pid}_c4):
  - patch.diff : `git -C {wt} diff -- src` of ONLY that refactoring (make it, produce its files, then `git -C {wt} checkout -- src` and `git -C {wt} clean -fdq src` before the next one; include new files with `git -C {wt} add -N <file>` before taking the diff)
  - meta.json  : {{"property": "{pid}", "kind": "a..f", "summary": "what was refactored and why it is behaviour preserving", "files_changed": [...], "tests_checked": "which commands you ran and that results were identical"}}
Leave the worktree's src clean at the end; keep only the refactor/ directory. In your final answer list the refactorings, one short paragraph each.""")
