"""Prompt for the FIFTH round of breaking changes: earlier seeds of the property are listed so that the agent does something
different (other mechanism, other file, other kind of slip)."""
import glob, json, sys
pid, wt = sys.argv[1], sys.argv[2]
n = sys.argv[3] if len(sys.argv) > 3 else "3"
for l in open('/verif/properties.jsonl'):
    p = json.loads(l)
    if p['id'] == pid:
        break
else:
    sys.exit('no such property')
done = []
for f in sorted(glob.glob(f'/verif/seeded/{pid}_*/meta.json')):
    m = json.load(open(f))
    done.append('  - ' + ' '.join(str(m.get('summary', '')).split())[:260])
print(f"""You are helping evaluate verification tooling for the Python library pharmpy (pharmacometrics modelling library).
You work ONLY inside the scratch git worktree {wt} (a checkout of the library at the commit of interest). Never touch /repo or /verif, and do not read anything under /verif. Never use 'git stash', pkill or killall (other agents share this machine); undo with 'git -C {wt} checkout -- src'.

Property of the library that is supposed to hold:
  id: {p['id']}
  title: {p['title']}
  statement: {p['statement']}
  quantifier: {p['quantifier']['text']}
  why the existing tests cannot settle it: {p['why_tests_cant']}
  anchored files: {', '.join(p['anchors']['files'])}
  mechanisms: {'; '.join(m['name'] + ' @ ' + m.get('where','') for m in p['anchors']['mechanism'])}

Task: produce {n} DIFFERENT, independent realistic changes to the library source (under {wt}/src/pharmpy) that each BREAK this property, while the code still imports/compiles and the pinned test suite still passes. Each change should look like a plausible maintenance slip or refactoring error (a few lines), not sabotage, and should need something specific to manifest: a multi-step sequence of operations, an unusual but legal input, a particular interleaving/crash point, or two cooperating sites that each look fine alone - NOT something ordinary use or the existing tests would expose at once.

Earlier rounds already produced the following changes for this property. Do NOT repeat them or close variants of them: pick OTHER functions, OTHER clauses of the property statement and OTHER kinds of slip (for example: an off-by-one or a wrong default in a rarely taken branch, an operand or argument order swapped between two values of the same type, a condition that became too weak/too strong after a "simplification", a copy-paste sibling updated in one place only, a cache/memo that survives a change, state shared between instances, an exception swallowed, an early return that skips a needed step, a unit/scale/sign convention flipped in one of two cooperating places, an ordering assumption (dict/set/sort stability) introduced, a boundary case (empty, single element, duplicate names, zero) handled differently):
{chr(10).join(done) or '  (none)'}

How to run things (the interpreter /venv/bin/python has pharmpy's dependencies; an editable install points at /repo, so ALWAYS set PYTHONPATH so your worktree is imported):
  cd {wt} && PYTHONPATH={wt}/src /venv/bin/python your_demo.py
Pinned test suite (about 60-120 s; 247 tests pass, many test modules fail to collect in this sandbox - that is expected and the same with or without your change):
  cd {wt} && PYTHONPATH={wt}/src /venv/bin/python -m pytest -q -p no:cacheprovider --timeout=900 --continue-on-collection-errors 2>&1 | tail -5
  (On the unmodified tree this gives 247 passed, 13 failed and 106 errors; with your change the passed count must stay 247 and no previously passing test may fail.)
There is no network. Test data lives under {wt}/tests/testdata (e.g. tests/testdata/nonmem/pheno_real.mod, models under tests/testdata/nonmem/models/).

For each change k = 1..{n} deliver, under {wt}/seeded/{pid}_r5_k/ (e.g. {pid}_r5_1):
  - patch.diff   : `git -C {wt} diff -- src` of ONLY that change (apply changes one at a time: make change, produce its files, then `git -C {wt} checkout -- src` before the next one)
  - demo.py      : a small self-contained program that exits 0 / prints PASS on the unmodified tree and exits non-zero / prints FAIL with the change applied, demonstrating the property being broken through the public behaviour. It must find the library through PYTHONPATH (do not hard-code {wt}); refer to test data relative to the demo file or through the installed package, e.g. pathlib.Path(__file__).resolve().parents[2] / 'tests' / 'testdata'.
  - meta.json    : {{"property": "{pid}", "summary": "...", "needs_to_manifest": "...", "files_changed": [...], "tests_passed_with_change": <int>, "demo_result_without": "...", "demo_result_with": "..."}}
Verify yourself: demo passes without, fails with; test suite count unchanged with the change. Leave the worktree's src clean (git checkout) at the end; keep only the seeded/ directory. In your final answer list the changes, one paragraph each.""")
