"""All refactorings of one property applied together (those that still apply on top of each other), then the quick check:
composition of behaviour-preserving edits must stay silent as well. Manual tool. usage: validate_refactors_combined.py [pid ...]"""
import os, shutil, subprocess, sys, tempfile
from pathlib import Path
from concurrent.futures import ThreadPoolExecutor
V = Path(__file__).resolve().parent.parent
PY = '/venv/bin/python'


def sh(cmd, cwd=None, env=None):
    p = subprocess.run(cmd, cwd=cwd, env=env, capture_output=True, text=True, timeout=900, errors='replace')
    return p.returncode, p.stdout + p.stderr


def run(pid):
    tmp = Path(tempfile.mkdtemp(prefix=f'rfc_{pid}_', dir='/tmp'))
    try:
        shutil.copytree('/repo/src', tmp / 'src', ignore=shutil.ignore_patterns('__pycache__'))
        applied = []
        for d in sorted((V / 'refactors').glob(f'{pid}_*')):
            rc, _ = sh(['git', 'apply', '--whitespace=nowarn', str(d / 'patch.diff')], cwd=tmp)
            if rc == 0:
                applied.append(d.name)
        env = dict(os.environ, VERIF_REPO=str(tmp), VERIF_OUT=str(tmp / 'out'), VERIF_SELFTEST='1')
        rc, txt = sh([PY, '-m', 'sa.check', pid, '--tier', 'quick'], cwd=V, env=env)
        lines = [l for l in txt.splitlines() if l.startswith(('  [', 'ANALYSIS-ERROR'))][:6]
        return pid, applied, rc, lines
    finally:
        shutil.rmtree(tmp, ignore_errors=True)


pids = sys.argv[1:] or [f'C{i:02d}' for i in range(1, 21)]
with ThreadPoolExecutor(10) as ex:
    for pid, applied, rc, lines in ex.map(run, pids):
        print(pid, f'{len(applied)} patches together:', {0: 'silent', 1: 'FALSE ALARM', 2: 'undecided'}.get(rc, rc), applied)
        for l in lines:
            print('    ', l[:220])
