"""Prompt for the FOURTH round of behaviour-preserving refactorings (`<pid>_d1..d4`): the functions the round-4 rules are anchored
in are named as the preferred targets (function names of the library only, nothing about the rules); summaries of rounds 1 and 2
are listed so that the agent does something else."""
import glob, json, sys
pid, wt = sys.argv[1], sys.argv[2]
FOCUS = {
 'C01': 'advan.dosing / _dosing, advan._find_rates, parse_statements in parsing.py (the part that binds A(i) for $DES models), parse_model_record',
 'C02': 'update_needed_pk_parameters (the TRANS1 rate constant tables and add_rate_assignment_if_missing calls), _sort_eta_columns / update_initial_individual_estimates, OmegaRecord.update (BLOCK branch: SD / CORRELATION conversions), nonmem Model.update_source',
 'C03': 'update_random_variable_records (the diag_* accumulators), update_name_of_tables, OmegaRecord.update (BLOCK branch), NMTranControlStream.replace_records',
 'C04': 'ThetaRecord.update and its helper that rewrites one theta (bounds, parentheses, xN), OmegaRecord.update (both branches: the "value changed?" comparisons), update_random_variable_records',
 'C05': 'CompartmentalSystem.__init__, CompartmentalSystemBuilder.__init__ / remove_dose / set_dose, CompartmentalSystem.amounts / compartment_names / compartmental_matrix / zero_order_inputs / _order_compartments, Infusion.subs / Bolus.subs / Compartment.subs',
 'C06': 'Parameters.inits and the other Parameters accessors (names, lower, upper, fix), DataInfo.__eq__ / __hash__, Model._canonicalize_statements, Model.__hash__',
 'C07': 'nonmem Model.update_source (the renumbered flag and the internals refresh), CompartmentalSystem.zero_order_inputs / eqs, Infusion.subs, Compartment.subs / free_symbols',
 'C08': 'set_instantaneous_absorption, _find_noncov_theta and its callers (add_peripheral_compartment, remove_peripheral_compartment, add_metabolite), get_model_features in tools/mfl/parse.py, has_first_order_elimination and the other elimination detectors',
 'C09': 'add_allometry, has_combined_error_model, set_zero_order_absorption / set_first_order_absorption (the MAT re-insertion), remove_iiv, CovariateEffect.apply',
 'C10': 'Assignment.rhs_symbols / free_symbols, Compartment.free_symbols, CompartmentalSystem.free_symbols, _get_unused_parameters_and_rvs in modeling/common.py, Statements.dependencies',
 'C11': 'RandomVariables.__getitem__ (container branch), Model._canonicalize_parameter_estimates, _descale_matrix / _scale_matrix in modeling/estimation.py, RandomVariables.nearest_valid_parameters',
 'C12': 'Assignment.from_dict / to_dict / create, Compartment.from_dict / to_dict, ModelHash.__init__ and the helpers in workflows/hashing.py, Parameter.create',
 'C13': 'convert_fortran_number, _convert_data_item, create_nonmem_datainfo in parsing.py, nonmem Model.update_source (the $DATA record handling: IGNORE/ACCEPT removal)',
 'C14': 'add_time_after_dose, get_cmt / add_cmt, get_evid, get_doseid',
 'C15': 'path_lock / thread_level_lock / process_level_path_lock, ShareableProcessLock.lock, ShareableThreadLock._lock_sh / _lock_ex',
 'C16': 'LocalDirectoryContext.store_annotation / retrieve_annotation, LocalModelDirectoryDatabase.transaction / snapshot, ModelHash (workflows/hashing.py), LocalModelDirectoryDatabaseTransaction.store_model',
 'C17': 'Task.__init__ / Task.replace / Task.create, Workflow.__init__ / WorkflowBuilder.__init__, WorkflowBuilder.insert_workflow, Workflow.as_dask_dict',
 'C18': '_is_allowed in tools/modelsearch/algorithms.py, CovariateInterpreter.ref and DefinitionInterpreter in tools/mfl/statement, partitions / _partitions in internals/set/partitions.py, ModelFeatures.least_number_of_transformations',
 'C19': 'best_of_many / best_of_two in modeling/lrt.py, calculate_bic, is_strictness_fulfilled, rank_models',
 'C20': 'ResultsJSONEncoder.default / ResultsJSONDecoder.object_hook, _parse_residuals, _parse_standard_errors, parse_table_columns, _get_last_est',
}
for l in open('/verif/properties.jsonl'):
    p = json.loads(l)
    if p['id'] == pid:
        break
else:
    sys.exit('no such property')
done = []
for f in sorted(glob.glob(f'/verif/refactors/{pid}_*/meta.json')):
    m = json.load(open(f))
    done.append('  - ' + ' '.join(str(m.get('summary', '')).split())[:400])
print(f"""You are helping evaluate verification tooling for the Python library pharmpy (pharmacometrics modelling library).
You work ONLY inside the scratch git worktree {wt} (a checkout of the library). Never touch /repo or /verif, and do not read anything under /verif. Never use 'git stash' (it is shared between worktrees); undo with 'git -C {wt} checkout -- src'. Never use pkill/killall (other agents run the same commands on this machine).

Property of the library that holds and must KEEP holding:
  id: {p['id']}
  title: {p['title']}
  statement: {p['statement']}
  anchored files: {', '.join(p['anchors']['files'])}
  mechanisms: {'; '.join(m['name'] + ' @ ' + m.get('where','') for m in p['anchors']['mechanism'])}

Task: produce 4 DIFFERENT behaviour-preserving refactorings of the code in the anchored files (the functions named in the mechanisms and the code they rely on). Each must keep the observable behaviour of the library exactly the same for every input (so the property still holds) and must look like something a maintainer could plausibly merge. Do NOT fix bugs and do NOT change behaviour in any edge case (same exceptions, same order of side effects that are observable).

Prefer these functions in this round (they are central to the property and have hardly been refactored so far; if one does not exist under that exact name, take the closest): {FOCUS[pid]}.

Earlier rounds already produced these refactorings for this property - do NOT repeat them, choose other functions and above all OTHER KINDS of change:
{chr(10).join(done) or '  (none)'}

Kinds of change wanted in this round (use four different ones, the more structural the better):
  a. INLINE an existing small private helper (a function whose name starts with _) into its callers and delete it, or merge two functions into one.
  b. MOVE a helper or a constant table to another module of the package (e.g. a shared utils/internals module) and import it from there; or turn a method into a module-level function (or the reverse), or a nested function into a module-level one.
  c. Change the CONTROL-FLOW form: while <-> for, loop <-> recursion or itertools (takewhile, chain, groupby, accumulate, zip_longest), explicit index loop <-> iterator, try/except/else <-> pre-check where strictly equivalent, flag variable <-> for/else, nested ifs <-> one boolean expression, `match` statement (Python 3.12 is used) for an if/elif chain, walrus operator, conditional expression <-> if statement, early `continue`/`return` <-> nesting, reorder the branches of an if/elif chain whose conditions are mutually exclusive.
  d. Change the DATA-FLOW form: introduce or remove intermediate containers (list <-> generator <-> tuple), dict/set comprehension <-> update loop, dataclass/NamedTuple for a tuple of values passed around, functools.partial / operator.itemgetter / a local lambda for a repeated expression, unpacking vs indexing, `a if c else b` folded into min/max/any/all/next(..., default) where exactly equivalent, string building with join/format/f-string/%.
  e. Rename a PRIVATE function, method, attribute-free local, parameter of a private function or a module-level private constant consistently everywhere it is used (public API names must stay).
  f. Split a class method into a @staticmethod/@classmethod plus a thin wrapper, or replace repeated sibling methods by one parametrised helper plus thin wrappers.
Each refactoring should touch roughly 10-60 lines and be applied to code that is central to the property.

How to run things (the interpreter /venv/bin/python has pharmpy's dependencies; an editable install points at /repo, so ALWAYS set PYTHONPATH):
  cd {wt} && PYTHONPATH={wt}/src /venv/bin/python your_script.py
Pinned test suite (about 60-120 s; 247 tests pass, many modules fail to collect in this sandbox, same with or without your change):
  cd {wt} && PYTHONPATH={wt}/src /venv/bin/python -m pytest -q -p no:cacheprovider --timeout=900 --continue-on-collection-errors 2>&1 | tail -5
In addition run the relevant upstream test modules with warnings ignored, and write a small differential script that exercises the changed functions on many inputs and prints results/exceptions, and compare its output with and without your change (set PYTHONHASHSEED=0; the library's output depends on the hash seed in a few places):
  cd {wt} && PYTHONPATH={wt}/src /venv/bin/python -m pytest -q -p no:cacheprovider -o filterwarnings=ignore tests/<relevant dir or file> 2>&1 | tail -3
(the failing set must be identical with and without your change).

For each refactoring k = 1..4 deliver under {wt}/refactor/{pid}_d{{k}}/ (note the letter d: {pid}_d1 ... {pid}_d4):
  - patch.diff : `git -C {wt} diff -- src` of ONLY that refactoring (make it, produce its files, then `git -C {wt} checkout -- src` and `git -C {wt} clean -fdq src` before the next one; include new files with `git -C {wt} add -N <file>` before taking the diff)
  - meta.json  : {{"property": "{pid}", "kind": "a..f", "summary": "what was refactored and why it is behaviour preserving", "files_changed": [...], "tests_checked": "which commands you ran and that results were identical"}}
Leave the worktree's src clean at the end; keep only the refactor/ directory. In your final answer list the refactorings, one short paragraph each.""")
