"""Freeze the private helpers of today's tree (manual tool). sa/inline.py expands calls of private helpers so that an
"extract function" edit does not change what a rule sees; helpers that already exist today are part of the shape the
rules were confirmed on (several are anchors of rules) and stay as calls. The list is the reference, like the instance
floors: regenerate it only together with a full revalidation (seeds, mutants, refactorings)."""
import json
import os
import sys
from pathlib import Path

os.environ['VERIF_NO_INLINE'] = '1'
V = Path(__file__).resolve().parent.parent
sys.path.insert(0, str(V))
from sa.srcmodel import Repo  # noqa: E402

r = Repo()
names = sorted(f.fq for f in r.all_funcs() if f.name.startswith('_') and not f.name.startswith('__'))
(V / 'sa' / 'known_helpers.json').write_text(json.dumps(names, indent=0) + '\n')
print(len(names), 'private helpers frozen')
