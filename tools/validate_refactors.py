"""Run the checks on behaviour-preserving refactorings (manual tool). For every /verif/refactors/<name>/patch.diff the patch
is applied to a scratch copy of /repo/src and the property's quick check must still exit 0: exit 1 is a false alarm of the
check (to be corrected in the check), exit 2 means the analysis could not follow the new shape (reported, never a pass).
usage: validate_refactors.py [name ...] [-j N]"""
from __future__ import annotations

import json
import os
import shutil
import subprocess
import sys
import tempfile
from concurrent.futures import ThreadPoolExecutor
from pathlib import Path

V = Path(__file__).resolve().parent.parent
REPO = Path('/repo')
PY = '/venv/bin/python'


def sh(cmd, cwd=None, env=None, timeout=900):
    p = subprocess.run(cmd, cwd=cwd, env=env, capture_output=True, text=True, timeout=timeout, errors='replace')
    return p.returncode, p.stdout + p.stderr


def validate(name):
    sd = V / 'refactors' / name
    pid = name.split('_')[0]
    tmp = Path(tempfile.mkdtemp(prefix=f'rf_{name}_', dir='/tmp'))
    out = {'repo_commit': sh(['git', '-C', str(REPO), 'rev-parse', '--short', 'HEAD'])[1].strip()}
    try:
        shutil.copytree(REPO / 'src', tmp / 'src', ignore=shutil.ignore_patterns('__pycache__'))
        rc, txt = sh(['git', 'apply', '--whitespace=nowarn', str(sd / 'patch.diff')], cwd=tmp)
        if rc != 0:
            rc, txt = sh(['patch', '-p1', '--no-backup-if-mismatch', '-i', str(sd / 'patch.diff')], cwd=tmp)
        out['patch_applies'] = rc == 0
        if rc != 0:
            out['patch_error'] = txt.strip()[:300]
            return name, out
        rc, txt = sh([PY, '-c', 'import ast,sys,pathlib\nfor p in pathlib.Path("src").rglob("*.py"): ast.parse(p.read_text())'], cwd=tmp)
        out['parses'] = rc == 0
        cenv = dict(os.environ, VERIF_REPO=str(tmp), VERIF_OUT=str(tmp / 'out'), VERIF_SELFTEST='1')
        rc, txt = sh([PY, '-m', 'sa.check', pid, '--tier', 'quick'], cwd=V, env=cenv)
        rules = []
        rdir = tmp / 'out' / 'replay'
        if rdir.is_dir():
            for f in sorted(rdir.glob('*.json')):
                r = json.loads(f.read_text())
                rules.append(f"{r['rule']} {r['function']}: {r['construct'][:80]}")
        out['check'] = {'rc': rc, 'reported': rules,
                        'analysis_error': next((l[:300] for l in txt.splitlines() if l.startswith('ANALYSIS-ERROR')), None)}
        out['verdict'] = {0: 'silent (correct)', 1: 'FALSE ALARM', 2: 'undecided (analysis error)'}.get(rc, f'rc {rc}')
        return name, out
    finally:
        shutil.rmtree(tmp, ignore_errors=True)


def main():
    args = [a for a in sys.argv[1:] if not a.startswith('-')]
    jobs = 8
    if '-j' in sys.argv:
        jobs = int(sys.argv[sys.argv.index('-j') + 1])
        args = [a for a in args if a != str(jobs)]
    names = args or sorted(p.name for p in (V / 'refactors').iterdir() if p.is_dir())
    with ThreadPoolExecutor(jobs) as ex:
        for name, out in ex.map(validate, names):
            mp = V / 'refactors' / name / 'meta.json'
            meta = json.loads(mp.read_text()) if mp.exists() else {}
            if 'verif_first' not in meta:
                meta['verif_first'] = {'verdict': out.get('verdict'), 'reported': out.get('check', {}).get('reported'),
                                       'analysis_error': out.get('check', {}).get('analysis_error')}
            meta['verif'] = out
            mp.write_text(json.dumps(meta, indent=1) + '\n')
            print(f"{name}: applies={out.get('patch_applies')} {out.get('verdict')} {out.get('check', {}).get('reported') or ''} "
                  f"{out.get('check', {}).get('analysis_error') or ''}"[:260])


main()
