"""A seeded (breaking) change followed by every refactoring of the same property that still applies: the check must still
report it (the normalisation layer must not blind a rule). Manual tool. usage: validate_seed_plus_refactor.py [seed ...] [-j N]"""
import json, os, shutil, subprocess, sys, tempfile
from pathlib import Path
from concurrent.futures import ThreadPoolExecutor
V = Path(__file__).resolve().parent.parent
PY = '/venv/bin/python'


def sh(cmd, cwd=None, env=None):
    p = subprocess.run(cmd, cwd=cwd, env=env, capture_output=True, text=True, timeout=900, errors='replace')
    return p.returncode, p.stdout + p.stderr


def run(seed):
    pid = seed.split('_')[0]
    tmp = Path(tempfile.mkdtemp(prefix=f'sr_{seed}_', dir='/tmp'))
    try:
        shutil.copytree('/repo/src', tmp / 'src', ignore=shutil.ignore_patterns('__pycache__'))
        rc, _ = sh(['git', 'apply', '--whitespace=nowarn', str(V / 'seeded' / seed / 'patch.diff')], cwd=tmp)
        if rc != 0:
            rc, _ = sh(['patch', '-p1', '--no-backup-if-mismatch', '-i', str(V / 'seeded' / seed / 'patch.diff')], cwd=tmp)
        if rc != 0:
            return seed, None, [], 'seed does not apply'
        applied = []
        for d in sorted((V / 'refactors').glob(f'{pid}_*')):
            rc, _ = sh(['git', 'apply', '--whitespace=nowarn', str(d / 'patch.diff')], cwd=tmp)
            if rc == 0:
                applied.append(d.name)
        env = dict(os.environ, VERIF_REPO=str(tmp), VERIF_OUT=str(tmp / 'out'), VERIF_SELFTEST='1')
        rc, txt = sh([PY, '-m', 'sa.check', pid, '--tier', 'quick'], cwd=V, env=env)
        first = next((l.strip()[:160] for l in txt.splitlines() if l.startswith(('  [', 'ANALYSIS-ERROR'))), '')
        return seed, rc, applied, first
    finally:
        shutil.rmtree(tmp, ignore_errors=True)


args = [a for a in sys.argv[1:] if not a.startswith('-')]
jobs = 12
if '-j' in sys.argv:
    jobs = int(sys.argv[sys.argv.index('-j') + 1])
    args = [a for a in args if a != str(jobs)]
seeds = args or sorted(p.name for p in (V / 'seeded').iterdir() if p.is_dir()
                       and json.loads((p / 'meta.json').read_text()).get('verif', {}).get('verdict') == 'caught')
n = {'caught': 0, 'missed': 0, 'undecided': 0}
with ThreadPoolExecutor(jobs) as ex:
    for seed, rc, applied, first in ex.map(run, seeds):
        v = {1: 'caught', 0: 'missed', 2: 'undecided'}.get(rc, str(first))
        if v in n:
            n[v] += 1
        if v != 'caught':
            print(f'{seed}: {v} with {len(applied)} refactorings {applied} {first}')
print(n)
