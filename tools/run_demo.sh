#!/bin/bash
# usage: run_demo.sh <seed> : runs seeded/<seed>/demo.py against /repo's current tree (demos locate the repo root relative to themselves)
s=$1
t=/tmp/demo_$s
rm -rf $t; mkdir -p $t/seeded
ln -s /repo/tests $t/tests; ln -s /repo/src $t/src
cp -r /verif/seeded/$s $t/seeded/$s
cd $t && PYTHONPATH=/repo/src timeout 600 /venv/bin/python seeded/$s/demo.py 2>&1 | tail -2
rc=${PIPESTATUS[0]}
rm -rf $t
echo "demo $s rc=$rc"
