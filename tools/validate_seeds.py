"""Re-validate stored seeded changes against /repo's current tree (manual tool, not run by checks).

For every /verif/seeded/<seed>/ : on a scratch copy of /repo/src (outside /repo and /verif, removed afterwards)
  1. demo.py on the unchanged copy            -> must pass
  2. patch.diff applied (git apply)           -> must apply
  3. demo.py on the changed copy              -> must fail
  4. the property's quick check on the copy   -> records exit code and the rules that reported
and writes the outcome into seeded/<seed>/meta.json under "verif".

usage: validate_seeds.py [seed ...] [-j N]
"""
from __future__ import annotations

import json
import os
import shutil
import subprocess
import sys
import tempfile
from concurrent.futures import ThreadPoolExecutor
from pathlib import Path

V = Path(__file__).resolve().parent.parent
REPO = Path('/repo')
PY = '/venv/bin/python'


def sh(cmd, cwd=None, env=None, timeout=900):
    try:
        p = subprocess.run(cmd, cwd=cwd, env=env, capture_output=True, text=True, timeout=timeout, errors='replace')
        return p.returncode, (p.stdout + p.stderr)
    except subprocess.TimeoutExpired:
        return 124, 'timeout'


def demo_file(d: Path):
    for n in ('demo.py', 'demo.sh'):
        if (d / n).exists():
            return n
    return None


def validate(seed: str):
    sd = V / 'seeded' / seed
    pid = seed.split('_')[0]
    tmp = Path(tempfile.mkdtemp(prefix=f'sv_{seed}_', dir='/tmp'))
    out = {'repo_commit': sh(['git', '-C', str(REPO), 'rev-parse', '--short', 'HEAD'])[1].strip()}
    try:
        shutil.copytree(REPO / 'src', tmp / 'src', ignore=shutil.ignore_patterns('__pycache__'))
        os.symlink(REPO / 'tests', tmp / 'tests')
        for n in ('pyproject.toml', 'setup.py', 'setup.cfg', 'tox.ini'):
            if (REPO / n).exists():
                shutil.copy(REPO / n, tmp / n)
        (tmp / 'seeded').mkdir()
        shutil.copytree(sd, tmp / 'seeded' / seed)
        # demos written by the sub-agents may name their (now removed) worktree: point them at the scratch tree
        for df in (tmp / 'seeded' / seed).glob('demo.*'):
            txt = df.read_text()
            for pref in (f'/tmp/r8_{pid}', f'/tmp/r6_{pid}', f'/tmp/w5_{pid}', f'/tmp/w4_{pid}', f'/tmp/w3_{pid}', f'/tmp/w2_{pid}', f'/tmp/wt_{pid}'):
                txt = txt.replace(pref, str(tmp))
            df.write_text(txt)
        env = dict(os.environ, PYTHONPATH=str(tmp / 'src'), PYTHONDONTWRITEBYTECODE='1')
        dn = demo_file(sd)
        runner = [PY] if dn and dn.endswith('.py') else ['bash']
        if dn:
            rc, txt = sh(runner + [f'seeded/{seed}/{dn}'], cwd=tmp, env=env)
            out['demo_without'] = {'rc': rc, 'tail': txt.strip().splitlines()[-1][:200] if txt.strip() else ''}
        rc, txt = sh(['git', 'apply', '--whitespace=nowarn', str(sd / 'patch.diff')], cwd=tmp)
        if rc != 0:
            rc, txt = sh(['patch', '-p1', '--no-backup-if-mismatch', '-i', str(sd / 'patch.diff')], cwd=tmp)
        out['patch_applies'] = rc == 0
        if rc != 0:
            out['patch_error'] = txt.strip()[:300]
            return seed, out
        if dn:
            rc, txt = sh(runner + [f'seeded/{seed}/{dn}'], cwd=tmp, env=env)
            out['demo_with'] = {'rc': rc, 'tail': txt.strip().splitlines()[-1][:200] if txt.strip() else ''}
        cenv = dict(os.environ, VERIF_REPO=str(tmp), VERIF_OUT=str(tmp / 'out'), VERIF_SELFTEST='1')
        rc, txt = sh([PY, '-m', 'sa.check', pid, '--tier', 'quick'], cwd=V, env=cenv)
        rules = []
        rdir = tmp / 'out' / 'replay'
        if rdir.is_dir():
            for f in sorted(rdir.glob('*.json')):
                try:
                    r = json.loads(f.read_text())
                    rules.append(f"{r['rule']} {r['function']}")
                except Exception:
                    pass
        out['check'] = {'cmd': f'sa.check {pid} --tier quick', 'rc': rc, 'reported': sorted(set(rules)),
                        'analysis_error': next((l[:300] for l in txt.splitlines() if l.startswith('ANALYSIS-ERROR')), None)}
        out['verdict'] = 'caught' if rc == 1 else ('undecided (analysis error)' if rc == 2 else 'missed')
        return seed, out
    finally:
        shutil.rmtree(tmp, ignore_errors=True)


def main():
    args = [a for a in sys.argv[1:] if not a.startswith('-')]
    jobs = 8
    if '-j' in sys.argv:
        jobs = int(sys.argv[sys.argv.index('-j') + 1])
        args = [a for a in args if a != str(jobs)]
    seeds = args or sorted(p.name for p in (V / 'seeded').iterdir() if p.is_dir())
    with ThreadPoolExecutor(jobs) as ex:
        for seed, out in ex.map(validate, seeds):
            mp = V / 'seeded' / seed / 'meta.json'
            meta = json.loads(mp.read_text()) if mp.exists() else {}
            if 'verif_first' not in meta and seed.split('_')[1].startswith('r'):
                # verdict of the check as it was when the seed arrived (before any strengthening)
                meta['verif_first'] = {'verdict': out.get('verdict'), 'reported': out.get('check', {}).get('reported'),
                                       'verif_commit': sh(['git', '-C', str(V), 'rev-parse', '--short', 'HEAD'])[1].strip()}
            meta['verif'] = out
            mp.write_text(json.dumps(meta, indent=1) + '\n')
            dw, dwi = out.get('demo_without', {}).get('rc'), out.get('demo_with', {}).get('rc')
            print(f"{seed}: applies={out.get('patch_applies')} demo_without={dw} demo_with={dwi} "
                  f"check_rc={out.get('check', {}).get('rc')} {out.get('verdict')} {out.get('check', {}).get('reported')}")


main()
