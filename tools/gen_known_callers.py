"""Freeze, for every private function of today's tree, who calls it and a shape digest (manual tool). sa/renames.py uses the
table only to LOCATE a private helper that was renamed (never to judge code): a rule anchored on `_old` then follows the
rename instead of ending in ANALYSIS-ERROR. Regenerate only together with a full revalidation."""
import ast
import json
import os
import sys
from pathlib import Path

os.environ['VERIF_NO_INLINE'] = '1'
os.environ['VERIF_NO_RENAMES'] = '1'
V = Path(__file__).resolve().parent.parent
sys.path.insert(0, str(V))
from sa.srcmodel import Repo  # noqa: E402
from sa.renames import shape, called_private_names  # noqa: E402

r = Repo()
allf = sorted(f.fq for f in r.all_funcs())
priv = {f.fq: f for f in r.all_funcs() if f.name.startswith('_') and not f.name.startswith('__')}
callers = {fq: set() for fq in priv}
for f in r.all_funcs():
    for name in called_private_names(f.node):
        for fq, g in priv.items():
            if g.name == name and g.module is f.module and g is not f:
                callers[fq].add(f.fq)
out = {'all': allf,
       'private': {fq: {'callers': sorted(callers[fq]), 'shape': shape(g.node), 'nargs': len(g.node.args.args)}
                   for fq, g in sorted(priv.items())}}
(V / 'sa' / 'known_callers.json').write_text(json.dumps(out, indent=0) + '\n')
print(len(priv), 'private functions,', sum(1 for v in callers.values() if v), 'with callers in their module')
