"""Maintain known_findings.json (manual tool, never run by checks).
  kf.py add <replay.json> "<what fails / how confirmed>"
  kf.py fixed <property> <commit> "<text>"
"""
import json, sys
from pathlib import Path
V = Path(__file__).resolve().parent.parent
kf = V / 'known_findings.json'
d = json.loads(kf.read_text())
if sys.argv[1] == 'add':
    r = json.loads(Path(sys.argv[2]).read_text())
    e = {'property': r['property'], 'rule': r['rule'], 'key': r['key'], 'module': r['module'],
         'function': r['function'], 'construct': r['construct'], 'what_fails': sys.argv[3],
         'witness': r.get('witness', '')}
    if not any(x['key'] == e['key'] and x['property'] == e['property'] for x in d['findings']):
        d['findings'].append(e)
elif sys.argv[1] == 'fixed':
    d['fixed'].append(f'fixed: property={sys.argv[2]} {sys.argv[3]} {sys.argv[4]}')
kf.write_text(json.dumps(d, indent=1) + '\n')
