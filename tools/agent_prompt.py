"""Print the prompt handed to a breakage sub-agent: property text + its scratch worktree only."""
import json, sys
pid, wt = sys.argv[1], sys.argv[2]
n = sys.argv[3] if len(sys.argv) > 3 else "2"
for l in open('/verif/properties.jsonl'):
    p = json.loads(l)
    if p['id'] == pid:
        break
else:
    sys.exit('no such property')
print(f"""You are helping evaluate verification tooling for the Python library pharmpy (pharmacometrics modelling library).
You work ONLY inside the scratch git worktree {wt} (a checkout of the library at the commit of interest). Never touch /repo or /verif, and do not read anything under /verif.

Property of the library that is supposed to hold:
  id: {p['id']}
  title: {p['title']}
  statement: {p['statement']}
  quantifier: {p['quantifier']['text']}
  why the existing tests cannot settle it: {p['why_tests_cant']}
  anchored files: {', '.join(p['anchors']['files'])}
  mechanisms: {'; '.join(m['name'] + ' @ ' + m.get('where','') for m in p['anchors']['mechanism'])}

Task: produce {n} DIFFERENT, independent realistic changes to the library source (under {wt}/src/pharmpy) that each BREAK this property, while the code still imports/compiles and the pinned test suite still passes. Each change should look like a plausible maintenance slip or refactoring error (a few lines), not sabotage, and should need something specific to manifest: a multi-step sequence of operations, an unusual but legal input, a particular interleaving/crash point, or two cooperating sites that each look fine alone — NOT something ordinary use or the existing tests would expose at once. Prefer changes in different mechanisms/files of the property.

How to run things (the interpreter /venv/bin/python has pharmpy's dependencies; an editable install points at /repo, so ALWAYS set PYTHONPATH so your worktree is imported):
  cd {wt} && PYTHONPATH={wt}/src /venv/bin/python your_demo.py
Pinned test suite (about 60 s; 247 tests pass, many test modules fail to collect in this sandbox — that is expected and the same with or without your change):
  cd {wt} && PYTHONPATH={wt}/src /venv/bin/python -m pytest -q -p no:cacheprovider --timeout=900 --continue-on-collection-errors 2>&1 | tail -5
  (On the unmodified tree this gives 247 passed and about 70 failed plus collection errors; with your change the passed count must stay 247 and no previously passing test may fail.)
There is no network. Test data lives under {wt}/tests/testdata (e.g. tests/testdata/nonmem/pheno_real.mod, models under tests/testdata/nonmem/models/).

For each change k = 1..{n} deliver, under {wt}/seeded/{pid}_k/ :
  - patch.diff   : `git -C {wt} diff -- src` of ONLY that change (apply changes one at a time: make change, produce its files, then `git -C {wt} checkout -- src` before the next one)
  - demo.py      : a small self-contained program that exits 0 / prints PASS on the unmodified tree and exits non-zero / prints FAIL with the change applied, demonstrating the property being broken through the public behaviour
  - meta.json    : {{"property": "{pid}", "summary": "...", "needs_to_manifest": "...", "files_changed": [...], "tests_passed_with_change": <int>, "demo_result_without": "...", "demo_result_with": "..."}}
Verify yourself: demo passes without, fails with; test suite count unchanged with the change. Leave the worktree's src clean (git checkout) at the end; keep only the seeded/ directory. In your final answer list the changes, one paragraph each.""")
