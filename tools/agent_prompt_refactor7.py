"""Prompt for the refactoring round aimed at the rules of the sixth seeded round (`<pid>_f1..f2`): the functions those rules are
anchored in are named as targets (library function names only, nothing about the rules). Small budget: 2 patches, ~30 minutes."""
import glob, json, sys
pid, wt = sys.argv[1], sys.argv[2]
FOCUS = {
 'C01': 'ThetaRecord.bounds (theta_record.py), the $MODEL/$DES branch of _compartmental_model in advan.py (set_dose / set_bioavailability / set_lag_time sequence), _advan1_trans.._advan12_trans',
 'C02': 'update_lag_time, create_omega_block, create_omega_single, create_theta_record (all in nonmem/update.py)',
 'C03': 'create_record / split_raw_record_name (records/factory.py), ThetaRecord.update (the bound comparison part), _parse_tree in records/code_record.py (block IF handling and the index entries), NMTranControlStream.replace_all / get_records, update_abbr_record',
 'C04': 'create_omega_block, create_omega_single, create_theta_record (nonmem/update.py), ThetaRecord.update / ThetaRecord.remove / ThetaRecord.__len__',
 'C05': 'to_compartmental_system (model/statements.py): the part that recovers flows between compartments; CompartmentalSystem.eqs',
 'C06': 'pk_param_conversion (nonmem/update.py, the compartment maps), frozenmapping (internals/immutable.py), ColumnInfo.__hash__ / __eq__',
 'C07': 'rename_symbols (modeling/common.py), evaluate_individual_prediction / evaluate_population_prediction (modeling/evaluation.py)',
 'C08': 'remove_peripheral_compartment (the cleanup after removing the compartment), add_lag_time / remove_lag_time (modeling/odes.py)',
 'C09': 'add_covariate_effect (the grouping of effect statements at its end), _create_new_etas (modeling/parameter_variability.py)',
 'C10': 'Statements.remove_symbol_definitions (model/statements.py), _depends_on_any_of / depends_on (modeling/expressions.py)',
 'C11': 'JointNormalDistribution.__getitem__ (model/distributions/symbolic.py)',
 'C12': '_update_hash_with_dataset / DatasetHash / ModelHash (workflows/hashing.py), CompartmentalSystem.from_dict / to_dict',
 'C13': '_filter_ignore_accept and read_nonmem_dataset (nonmem/dataset.py: the IGNORE/ACCEPT query construction, the padding of missing columns)',
 'C14': 'get_doseid (modeling/data.py: the reset groups, the tie handling, the SS test), expand_additional_doses',
 'C15': 'ShareableThreadLock._lock_ex / _lock_sh (internals/fs/lock.py: the wait and refusal conditions, the holder table)',
 'C16': 'LocalModelDirectoryDatabaseTransaction.store_modelfit_results / store_metadata / store_local_file / store_model (the mkdir calls), LocalModelDirectoryDatabaseSnapshot.retrieve_file',
 'C17': 'WorkflowBuilder.insert_workflow / Workflow.__add__ / WorkflowBuilder.__init__ (graph merging), Task (workflows/task.py)',
 'C18': 'ModelFeatures.contain_subset / _subset_covariates / _extract_peripherals (tools/mfl/parse.py)',
 'C19': '_is_close_to_bound / check_parameters_near_bounds (modeling/results.py), create_distribution and the statistics in tools/bootstrap/results.py',
 'C20': '_parse_ofv (tools/external/nonmem/results.py), NONMEMTableFile._parse_table (nonmem/table.py)',
}
for l in open('/verif/properties.jsonl'):
    p = json.loads(l)
    if p['id'] == pid:
        break
else:
    sys.exit('no such property')
done = []
for f in sorted(glob.glob(f'/verif/refactors/{pid}_*/meta.json')):
    done.append('  - ' + ' '.join(str(json.load(open(f)).get('summary', '')).split())[:200])
print(f"""You are helping evaluate verification tooling for the Python library pharmpy (pharmacometrics modelling library).
You work ONLY inside the scratch git worktree {wt} (a checkout of the library). Never touch /repo or /verif, and do not read anything under /verif. Never use 'git stash', pkill or killall; undo with 'git -C {wt} checkout -- src && git -C {wt} clean -fdq src && git -C {wt} reset -q'.

Property of the library that holds and must KEEP holding:
  id: {p['id']}
  title: {p['title']}
  statement: {p['statement']}

Task (SMALL BUDGET: aim to be done within about 30 minutes of work, 2 deliverables): produce 2 DIFFERENT behaviour-preserving refactorings, each of ONE of these functions (take two different ones; if a name does not exist exactly, take the closest): {FOCUS[pid]}.
Each must keep the observable behaviour exactly the same for every input (same results, same exceptions, same observable order of side effects), look like something a maintainer could merge, and touch roughly 8-40 lines. Do NOT fix bugs. Use two different kinds of refactoring, e.g.: extract a private helper / inline one; rename private names and locals; loop <-> comprehension / itertools; if-chain <-> table / match statement; guard clauses / early return <-> nesting; introduce or remove intermediate variables; move a helper to another module and import it; split a function in two.
Earlier refactorings of this property (do something else):
{chr(10).join(done[-14:]) or '  (none)'}

How to run things (ALWAYS set PYTHONPATH, an editable install points elsewhere):
  cd {wt} && PYTHONPATH={wt}/src /venv/bin/python your_script.py
Verification (keep it short): write ONE small differential script that calls the changed functions on a few dozen inputs (through the public API is fine) and prints results/exceptions; run it with PYTHONHASHSEED=0 without and with each refactoring and compare the output (must be identical). Run the pinned suite ONCE with both refactorings applied together if they touch different functions (about 90 s; 247 passed, 13 failed, 106 errors is the expected result, same as without):
  cd {wt} && PYTHONPATH={wt}/src /venv/bin/python -m pytest -q -p no:cacheprovider --timeout=900 --continue-on-collection-errors 2>&1 | tail -3
Test data: {wt}/tests/testdata (e.g. tests/testdata/nonmem/pheno_real.mod, tests/testdata/nonmem/models/).

For each refactoring k = 1..2 deliver under {wt}/refactor/{pid}_f{{k}}/ (note the letter f):
  - patch.diff : `git -C {wt} diff -- src` of ONLY that refactoring (use `git -C {wt} add -N <new file>` before the diff for new files; restore src before the next one)
  - meta.json  : {{"property": "{pid}", "kind": "...", "summary": "what was refactored and why it is behaviour preserving", "files_changed": [...], "tests_checked": "..."}}
Leave src clean at the end; keep only the refactor/ directory. Final answer: two short paragraphs.""")
