#!/bin/bash
# usage: try_seed.sh <seed-dir-name> [property]  -- applies the seeded patch to /repo, runs the check, reverts
d=/verif/seeded/$1
pid=${2:-$(echo $1 | cut -d_ -f1)}
cd /repo || exit 9
if ! git diff --quiet; then echo "repo dirty"; exit 9; fi
if ! git apply --3way "$d/patch.diff" 2>/tmp/apply.err; then echo "PATCH DOES NOT APPLY: $(cat /tmp/apply.err | head -3)"; git reset -q --hard HEAD; exit 8; fi
git reset -q
cd /verif && VERIF_OUT=/tmp/seed_out /venv/bin/python -m sa.check $pid --tier quick | grep -E "^VIOLATION|^  \[|ANALYSIS|violations=" | cut -c1-220
rc=${PIPESTATUS[0]}
cd /repo && git checkout -q -- . && git status --short | head -3
rm -rf /tmp/seed_out
echo "seed $1 -> check $pid rc=$rc"
