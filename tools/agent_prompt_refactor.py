"""Prompt for a sub-agent that produces BEHAVIOUR-PRESERVING refactorings (to test that the checks do not raise false alarms)."""
import json, sys
pid, wt = sys.argv[1], sys.argv[2]
for l in open('/verif/properties.jsonl'):
    p = json.loads(l)
    if p['id'] == pid:
        break
else:
    sys.exit('no such property')
print(f"""You are helping evaluate verification tooling for the Python library pharmpy (pharmacometrics modelling library).
You work ONLY inside the scratch git worktree {wt} (a checkout of the library). Never touch /repo or /verif, and do not read anything under /verif. Never use 'git stash' (it is shared between worktrees); undo with 'git -C {wt} checkout -- src'.

Property of the library that holds and must KEEP holding:
  id: {p['id']}
  title: {p['title']}
  statement: {p['statement']}
  anchored files: {', '.join(p['anchors']['files'])}
  mechanisms: {'; '.join(m['name'] + ' @ ' + m.get('where','') for m in p['anchors']['mechanism'])}

Task: produce 4 DIFFERENT behaviour-preserving refactorings of the code in the anchored files (the functions named in the mechanisms and their helpers). Each must keep the observable behaviour of the library exactly the same for every input (so the property still holds), and must look like something a maintainer could plausibly do: e.g. rename local variables, extract or inline a helper function, replace a loop by a comprehension or the reverse, rewrite an if/elif chain as a dictionary lookup or early returns, reorder statements that are independent, replace an idiom by an equivalent one (sorted(..., reverse=True) vs reversed(sorted(...)), range(n-1,-1,-1) vs reversed(range(n)), x.copy() vs type(x)(x), f-strings vs concatenation, `not a or b` vs De Morgan equivalent), split a long function into two, move a constant to module level, add type annotations or comments. Each refactoring should touch 5-40 lines and be applied to the most central functions of the property (not to unrelated code). Do NOT fix bugs and do NOT change behaviour in any edge case.

How to run things (the interpreter /venv/bin/python has pharmpy's dependencies; an editable install points at /repo, so ALWAYS set PYTHONPATH):
  cd {wt} && PYTHONPATH={wt}/src /venv/bin/python your_script.py
Pinned test suite (about 60 s; 247 tests pass, many modules fail to collect in this sandbox, same with or without your change):
  cd {wt} && PYTHONPATH={wt}/src /venv/bin/python -m pytest -q -p no:cacheprovider --timeout=900 --continue-on-collection-errors 2>&1 | tail -5
In addition run the relevant upstream test modules with warnings ignored to convince yourself the behaviour is unchanged, e.g.
  cd {wt} && PYTHONPATH={wt}/src /venv/bin/python -m pytest -q -p no:cacheprovider -o filterwarnings=ignore tests/<relevant dir or file> 2>&1 | tail -3
(the failing set must be identical with and without your change).

For each refactoring k = 1..4 deliver under {wt}/refactor/{pid}_k/ :
  - patch.diff : `git -C {wt} diff -- src` of ONLY that refactoring (make it, produce its files, then `git -C {wt} checkout -- src` before the next one)
  - meta.json  : {{"property": "{pid}", "summary": "what was refactored and why it is behaviour preserving", "files_changed": [...], "tests_checked": "which test commands you ran and that results were identical"}}
Leave the worktree's src clean at the end; keep only the refactor/ directory. In your final answer list the refactorings, one short paragraph each.""")
