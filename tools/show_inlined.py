"""Debug aid: apply refactors/<name>/patch.diff to a scratch copy and print a function as the rules see it (helpers expanded).
usage: show_inlined.py <refactor-name|-> <fully.qualified.function>"""
import ast, os, shutil, subprocess, sys, tempfile
from pathlib import Path
V = Path(__file__).resolve().parent.parent
sys.path.insert(0, str(V))
name, fq = sys.argv[1], sys.argv[2]
tmp = Path(tempfile.mkdtemp(prefix='si_', dir='/tmp'))
try:
    shutil.copytree('/repo/src', tmp / 'src', ignore=shutil.ignore_patterns('__pycache__'))
    if name != '-':
        subprocess.run(['git', 'apply', '--whitespace=nowarn', str(V / 'refactors' / name / 'patch.diff')], cwd=tmp, check=True)
    from sa.srcmodel import Repo
    r = Repo(tmp / 'src')
    print(ast.unparse(r.func(fq).node))
    print('# inlined here:', [g for f, g in r.inlined_sites if f == fq])
finally:
    shutil.rmtree(tmp)
