"""Prompt for the SIXTH round: each agent delivers 2 breaking changes (`<pid>_r6_k`) and 2 behaviour-preserving refactorings
(`<pid>_e1..e2`) of its own choice - no function names are suggested, only what earlier rounds already did."""
import glob, json, sys
pid, wt = sys.argv[1], sys.argv[2]
for l in open('/verif/properties.jsonl'):
    p = json.loads(l)
    if p['id'] == pid:
        break
else:
    sys.exit('no such property')
seeds, refs = [], []
for f in sorted(glob.glob(f'/verif/seeded/{pid}_*/meta.json')):
    seeds.append('  - ' + ' '.join(str(json.load(open(f)).get('summary', '')).split())[:220])
for f in sorted(glob.glob(f'/verif/refactors/{pid}_*/meta.json')):
    refs.append('  - ' + ' '.join(str(json.load(open(f)).get('summary', '')).split())[:220])
print(f"""You are helping evaluate verification tooling for the Python library pharmpy (pharmacometrics modelling library).
You work ONLY inside the scratch git worktree {wt} (a checkout of the library at the commit of interest). Never touch /repo or /verif, and do not read anything under /verif. Never use 'git stash', pkill or killall (other agents share this machine); undo with 'git -C {wt} checkout -- src && git -C {wt} clean -fdq src'.

Property of the library that is supposed to hold:
  id: {p['id']}
  title: {p['title']}
  statement: {p['statement']}
  quantifier: {p['quantifier']['text']}
  why the existing tests cannot settle it: {p['why_tests_cant']}
  anchored files: {', '.join(p['anchors']['files'])}
  mechanisms: {'; '.join(m['name'] + ' @ ' + m.get('where','') for m in p['anchors']['mechanism'])}

You have TWO tasks. Do part A first, then part B.

PART A - 2 breaking changes. Produce 2 DIFFERENT, independent realistic changes to the library source (under {wt}/src/pharmpy) that each BREAK this property, while the code still imports/compiles and the pinned test suite still passes. Each should look like a plausible maintenance slip or refactoring error (a few lines), not sabotage, and should need something specific to manifest (a multi-step sequence of operations, an unusual but legal input, a particular interleaving/crash point, or two cooperating sites that each look fine alone) - NOT something ordinary use or the existing tests would expose at once. Read the code first and choose the place yourself; prefer a clause of the property statement or a function that the list below has not touched yet.
Earlier rounds already produced these changes - do NOT repeat them or close variants:
{chr(10).join(seeds) or '  (none)'}
For each change k = 1..2 deliver under {wt}/seeded/{pid}_r6_k/ :
  - patch.diff : `git -C {wt} diff -- src` of ONLY that change (one at a time; restore src before the next one)
  - demo.py    : a small self-contained program that exits 0 / prints PASS on the unmodified tree and exits non-zero / prints FAIL with the change applied, demonstrating the property being broken through the public behaviour. It must find the library through PYTHONPATH (do not hard-code {wt}); refer to test data relative to the demo file, e.g. pathlib.Path(__file__).resolve().parents[2] / 'tests' / 'testdata'.
  - meta.json  : {{"property": "{pid}", "summary": "...", "needs_to_manifest": "...", "files_changed": [...], "tests_passed_with_change": <int>, "demo_result_without": "...", "demo_result_with": "..."}}
Verify yourself: demo passes without, fails with; test-suite passed count unchanged (247) with the change.

PART B - 2 behaviour-preserving refactorings. Produce 2 DIFFERENT refactorings of code that is central to the property (in the anchored files or the code they rely on), each keeping the observable behaviour exactly the same for every input (same results, same exceptions, same observable order of side effects), each something a maintainer could plausibly merge, each touching roughly 10-60 lines. Do NOT fix bugs. Choose the functions and the kind of refactoring yourself (extract / inline / move / rename private names / change loop or branching form / change container or data-flow form / split or merge functions / table-driven instead of chain or the reverse / modernise syntax ...). Use two different kinds, and do something the list below has not done:
{chr(10).join(refs) or '  (none)'}
For each refactoring k = 1..2 deliver under {wt}/refactor/{pid}_e{{k}}/ (note the letter e: {pid}_e1, {pid}_e2):
  - patch.diff : `git -C {wt} diff -- src` of ONLY that refactoring (include new files with `git -C {wt} add -N <file>` before taking the diff; restore src afterwards, also `git -C {wt} reset -q`)
  - meta.json  : {{"property": "{pid}", "kind": "...", "summary": "what was refactored and why it is behaviour preserving", "files_changed": [...], "tests_checked": "which commands you ran and that results were identical"}}
For part B also write a small differential script that exercises the changed functions on many inputs and prints results/exceptions, and compare its output with and without the refactoring (set PYTHONHASHSEED=0), and run the relevant upstream test modules with and without (the failing set must be identical).

How to run things (the interpreter /venv/bin/python has pharmpy's dependencies; an editable install points at /repo, so ALWAYS set PYTHONPATH so your worktree is imported):
  cd {wt} && PYTHONPATH={wt}/src /venv/bin/python your_script.py
Pinned test suite (about 60-120 s; on the unmodified tree 247 passed, 13 failed and 106 errors - many test modules fail to collect in this sandbox, the same with or without your change):
  cd {wt} && PYTHONPATH={wt}/src /venv/bin/python -m pytest -q -p no:cacheprovider --timeout=900 --continue-on-collection-errors 2>&1 | tail -5
Relevant upstream test modules with warnings ignored:
  cd {wt} && PYTHONPATH={wt}/src /venv/bin/python -m pytest -q -p no:cacheprovider -o filterwarnings=ignore tests/<relevant dir or file> 2>&1 | tail -3
There is no network. Test data lives under {wt}/tests/testdata (e.g. tests/testdata/nonmem/pheno_real.mod, models under tests/testdata/nonmem/models/).
Leave the worktree's src clean at the end; keep only the seeded/ and refactor/ directories. In your final answer list the four deliverables, one short paragraph each.""")
