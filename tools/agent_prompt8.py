"""Prompt for the EIGHTH round: each agent delivers 1 breaking change (`<pid>_r8_1`) of its own choice within ~15 minutes;
no function names are suggested, only what earlier rounds already did."""
import glob, json, sys
pid, wt = sys.argv[1], sys.argv[2]
for l in open('/verif/properties.jsonl'):
    p = json.loads(l)
    if p['id'] == pid:
        break
else:
    sys.exit('no such property')
seeds, refs = [], []
for f in sorted(glob.glob(f'/verif/seeded/{pid}_*/meta.json')):
    seeds.append('  - ' + ' '.join(str(json.load(open(f)).get('summary', '')).split())[:220])
for f in sorted(glob.glob(f'/verif/refactors/{pid}_*/meta.json')):
    refs.append('  - ' + ' '.join(str(json.load(open(f)).get('summary', '')).split())[:220])
print(f"""You are helping evaluate verification tooling for the Python library pharmpy (pharmacometrics modelling library).
You work ONLY inside the scratch git worktree {wt} (a checkout of the library at the commit of interest). Never touch /repo or /verif, and do not read anything under /verif. Never use 'git stash', pkill or killall (other agents share this machine); undo with 'git -C {wt} checkout -- src && git -C {wt} clean -fdq src'.

Property of the library that is supposed to hold:
  id: {p['id']}
  title: {p['title']}
  statement: {p['statement']}
  quantifier: {p['quantifier']['text']}
  why the existing tests cannot settle it: {p['why_tests_cant']}
  anchored files: {', '.join(p['anchors']['files'])}
  mechanisms: {'; '.join(m['name'] + ' @ ' + m.get('where','') for m in p['anchors']['mechanism'])}

YOUR TASK - 1 breaking change. Produce ONE realistic change to the library source (under {wt}/src/pharmpy) that BREAKS this property, while the code still imports/compiles and the pinned test suite still passes. It should look like a plausible maintenance slip or refactoring error (a few lines), not sabotage, and should need something specific to manifest (a multi-step sequence of operations, an unusual but legal input, a particular interleaving/crash point, or two cooperating sites that each look fine alone) - NOT something ordinary use or the existing tests would expose at once. Read the code first and choose the place yourself; prefer a clause of the property statement or a function that the list below has not touched yet.
Earlier rounds already produced these changes - do NOT repeat them or close variants:
{chr(10).join(seeds) or '  (none)'}
Deliver under {wt}/seeded/{pid}_r8_1/ :
  - patch.diff : `git -C {wt} diff -- src` of the change
  - demo.py    : a small self-contained program that exits 0 / prints PASS on the unmodified tree and exits non-zero / prints FAIL with the change applied, demonstrating the property being broken through the public behaviour. It must find the library through PYTHONPATH (do not hard-code {wt}); refer to test data relative to the demo file, e.g. pathlib.Path(__file__).resolve().parents[2] / 'tests' / 'testdata'.
  - meta.json  : {{"property": "{pid}", "summary": "...", "needs_to_manifest": "...", "files_changed": [...], "tests_passed_with_change": <int>, "demo_result_without": "...", "demo_result_with": "..."}}
Verify yourself: demo passes without, fails with; test-suite passed count unchanged (247) with the change.

You have a budget of about 15 minutes in total: pick the place within the first few minutes, keep the change small, run the pinned suite once.

How to run things (the interpreter /venv/bin/python has pharmpy's dependencies; an editable install points at /repo, so ALWAYS set PYTHONPATH so your worktree is imported):
  cd {wt} && PYTHONPATH={wt}/src /venv/bin/python your_script.py
Pinned test suite (about 60-120 s; on the unmodified tree 247 passed, 13 failed and 106 errors - many test modules fail to collect in this sandbox, the same with or without your change):
  cd {wt} && PYTHONPATH={wt}/src /venv/bin/python -m pytest -q -p no:cacheprovider --timeout=900 --continue-on-collection-errors 2>&1 | tail -5
Relevant upstream test modules with warnings ignored:
  cd {wt} && PYTHONPATH={wt}/src /venv/bin/python -m pytest -q -p no:cacheprovider -o filterwarnings=ignore tests/<relevant dir or file> 2>&1 | tail -3
There is no network. Test data lives under {wt}/tests/testdata (e.g. tests/testdata/nonmem/pheno_real.mod, models under tests/testdata/nonmem/models/).
Leave the worktree's src clean at the end; keep only the seeded/ directory. In your final answer describe the deliverable in one short paragraph.""")
