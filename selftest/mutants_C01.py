from .harness import Mutant, edit_node, stmt_containing, compound_containing, to_pass, sub, is_call
import ast
A = 'src/pharmpy/model/external/nonmem/advan.py'
C = 'src/pharmpy/model/external/nonmem/records/code_record.py'
G_ = 'src/pharmpy/model/external/nonmem/records/grammars/code_record.lark'
def text_edit(old, new):
    def edit(src):
        return src.replace(old, new, 1) if old in src else None
    return edit
O_ = 'src/pharmpy/model/external/nonmem/records/omega_record.py'
MUTANTS = [
    Mutant('dose_comp_not_int', A, edit_node('_dosing', stmt_containing('dose_comp = int(dose_comp)'), to_pass), 'A14', 'float compartment number in Rn/Dn (the defect repaired by 5fb3336)'),
    Mutant('if_skipped_demorgan', C, text_edit("logic = sympy.And(logic, *(sympy.Not(cond) for cond in skipped))", "logic = sympy.And(logic, sympy.Not(sympy.And(*skipped)))"), 'A8', 'NOT(AND) instead of AND(NOT)'),
    Mutant('thetas_fix_per_record', 'src/pharmpy/model/external/nonmem/parsing.py', text_edit("        fixs.extend(theta_record.fixs)\n        names.extend(theta_record.comment_names)\n    fixs = _fix_thetas_with_same_bounds(bounds, inits, fixs)", "        fixs.extend(_fix_thetas_with_same_bounds(bounds, inits, theta_record.fixs))\n        names.extend(theta_record.comment_names)"), 'A10', 'accumulated and per-record lists zipped'),
    Mutant('omega_single_form', O_, text_edit("                                    if sd:\n                                        A[i, j] = A[i, i] * A[j, j] * A[i, j]\n                                    else:\n                                        A[i, j] = math.sqrt(A[i, i]) * math.sqrt(A[j, j]) * A[i, j]", "                                    A[i, j] = math.sqrt(A[i, i]) * math.sqrt(A[j, j]) * A[i, j]"), 'A7', 'SD case dropped'),
    Mutant('flink_wrong_scale', A, text_edit("                    expr = func / Expr.symbol(s)", "                    expr = func / Expr.symbol(scaling)"), 'A9', 'guard and use disagree'),
    Mutant('des_snapshot_hoisted', 'src/pharmpy/model/statements.py', text_edit("            for term in terms:\n                assert isinstance(term, sympy.Expr)\n                from_comp = None", "            cs = CompartmentalSystem(cb)\n            for term in terms:\n                assert isinstance(term, sympy.Expr)\n                from_comp = None").__call__ and (lambda src: (lambda a: a.replace("                    cs = CompartmentalSystem(cb)\n                    current_flow", "                    current_flow", 1) if a else None)(text_edit("            for term in terms:\n                assert isinstance(term, sympy.Expr)\n                from_comp = None", "            cs = CompartmentalSystem(cb)\n            for term in terms:\n                assert isinstance(term, sympy.Expr)\n                from_comp = None")(src))), 'A6', 'snapshot taken once per compartment'),
    Mutant('omega_sd_branches_swapped', O_, text_edit("                                    if sd:\n                                        A[i, j] = A[i, i] * A[j, j] * A[i, j]", "                                    if not sd:\n                                        A[i, j] = A[i, i] * A[j, j] * A[i, j]"), 'A7', 'SD and VARIANCE forms swapped'),
    Mutant('omega_square_first', O_, text_edit("                    A = flattened_to_symmetric(inits)\n", "                    A = flattened_to_symmetric(inits)\n                    if sd:\n                        np.fill_diagonal(A, A.diagonal() ** 2)\n"), 'A7', 'diagonal squared before correlations are converted'),
    Mutant('omega_chol_transposed', O_, text_edit("A = L @ L.T", "A = L.T @ L"), 'A7', 'L^T L'),
    Mutant('omega_diag_sd_not_squared', O_, text_edit("                if sd:\n                    init = init**2\n", ""), 'A7', 'SD on diagonal item kept as is'),
    Mutant('if_fallthrough_per_block', C, text_edit("                    if pairs[-1][1] is not True:", "                    if blocks[-1][0] is not True:"), 'A8', 'fall-through decided per block'),
    Mutant('if_skipped_branches_ignored', C, text_edit("                            skipped.append(logic)", "                            pass"), 'A8', 'non-assigning branches ignored'),
    Mutant('swap_k12_k21', A, edit_node('_compartmental_model', lambda n, seg: isinstance(n, ast.Tuple) and seg == 'k, k12, k21', lambda seg: 'k, k21, k12'), 'A1', 'unpacking order swapped'),
    Mutant('trans4_v1_for_v2', A, edit_node('_advan3_trans', lambda n, seg: isinstance(n, ast.Constant) and seg == "'V2'", lambda seg: "'V1'"), 'A1', 'K21 = Q/V1'),
    Mutant('advan4_flow_dir', A, text_edit('cb.add_flow(central, peripheral, k23)\n        cb.add_flow(peripheral, central, k32)', 'cb.add_flow(peripheral, central, k23)\n        cb.add_flow(central, peripheral, k32)'), 'A1', 'flow directions swapped'),
    Mutant('trans3_vss', A, edit_node('_advan4_trans', lambda n, seg: isinstance(n, ast.BinOp) and seg == "Expr.symbol('VSS') - Expr.symbol('V')", lambda seg: "Expr.symbol('VSS')"), 'A1', 'K32 = Q/VSS'),
    Mutant('advan2_alag_number', A, text_edit("doses=find_dose(doses, comp_number=2),\n            lag_time=_get_alag(control_stream, 2),", "doses=find_dose(doses, comp_number=2),\n            lag_time=_get_alag(control_stream, 1),"), 'A2', 'ALAG index copy-paste'),
    Mutant('advan12_link_number', A, text_edit("comp_map = {'DEPOT': 1, 'CENTRAL': 2, 'PERIPHERAL1': 3, 'PERIPHERAL2': 4, 'OUTPUT': 5}\n        ass = _f_link_assignment(control_stream, di, dataset, comp_map, central, 2)", "comp_map = {'DEPOT': 1, 'CENTRAL': 2, 'PERIPHERAL1': 3, 'PERIPHERAL2': 4, 'OUTPUT': 5}\n        ass = _f_link_assignment(control_stream, di, dataset, comp_map, central, 1)"), 'A2', 'S1 instead of S2'),
    Mutant('sub_is_add', C, edit_node('ExpressionInterpreter.sub_op', lambda n, seg: isinstance(n, ast.Return), lambda seg: 'return sympy.Add'), 'A3', 'minus read as plus'),
    Mutant('ge_is_gt', C, edit_node('ExpressionInterpreter.ge', lambda n, seg: isinstance(n, ast.Return), lambda seg: 'return sympy.Gt'), 'A3', '.GE. read as .GT.'),
    Mutant('log10_is_log', C, edit_node('ExpressionInterpreter.log10', lambda n, seg: isinstance(n, ast.Return), lambda seg: 'return sympy.log'), 'A3', 'LOG10 read as LOG'),
    Mutant('missing_handler', C, edit_node('ExpressionInterpreter', lambda n, seg: isinstance(n, ast.FunctionDef) and n.name == 'psqrt', lambda seg: seg.replace('def psqrt', 'def psqrt_', 1)), 'A3', 'rule without handler'),
    Mutant('infix_swapped', C, edit_node('ExpressionInterpreter.instruction_infix', lambda n, seg: isinstance(n, ast.Return), lambda seg: 'return op(b, a)'), 'A3', 'operands swapped'),
    Mutant('pow_left_assoc', G_, text_edit('| atom pow_op sign_expr      -> instruction_infix', '| pow_expr pow_op atom      -> instruction_infix'), 'A4', '** left associative'),
    Mutant('mul_below_add', G_, text_edit('| add_expr _add_op mul_expr  -> instruction_infix', '| add_expr _mul_op mul_expr  -> instruction_infix').__call__ and text_edit('?add_expr: mul_expr\n         | add_expr _add_op mul_expr', '?add_expr: mul_expr\n         | add_expr _mul_op mul_expr'), 'A4', 'operators at the wrong level'),
]
