from .harness import Mutant, edit_node, stmt_containing, compound_containing, to_pass, sub, is_call
import ast
F = 'src/pharmpy/model/statements.py'
def text_edit(old, new):
    def edit(src):
        return src.replace(old, new, 1) if old in src else None
    return edit
MUTANTS = [
    Mutant('deps_early_break', 'src/pharmpy/model/statements.py', text_edit("        for j in range(i - 1, -1, -1):\n            statement = self[j]\n            if isinstance(statement, Assignment):\n                if statement.symbol in symbs:", "        assigned = {s.symbol for s in self[:i] if isinstance(s, Assignment)}\n        for j in range(i - 1, -1, -1):\n            if symbs.isdisjoint(assigned):\n                break\n            statement = self[j]\n            if isinstance(statement, Assignment):\n                if statement.symbol in symbs:"), 'D9', 'scan stops before the ODE system'),
    Mutant('depgraph_selfref_only', 'src/pharmpy/modeling/expressions.py', text_edit("        if previous_def is not None:\n", "        if previous_def is not None and symbol in fs:\n"), 'D10', 'redefinition only handled for self references'),
    Mutant('deps_unconditional', 'src/pharmpy/model/statements.py', text_edit("                if statement.symbol in symbs:\n                    symbs = (symbs - {statement.symbol}) | statement.rhs_symbols", "                if True:\n                    symbs = (symbs - {statement.symbol}) | statement.rhs_symbols"), 'D9', 'definitions applied although not wanted'),
    Mutant('deps_gen_before_kill', 'src/pharmpy/model/statements.py', text_edit("symbs = (symbs - {statement.symbol}) | statement.rhs_symbols", "symbs = (symbs | statement.rhs_symbols) - {statement.symbol}"), 'D8', 'self-referencing statement loses its symbol'),
    Mutant('additional_not_closed', 'src/pharmpy/model/statements.py', text_edit("            additional |= set(nx.dfs_preorder_nodes(graph, add))", "            additional |= set(graph.successors(add))"), 'D6', 'one level only'),
    Mutant('users_after_only', 'src/pharmpy/model/statements.py', text_edit("if up != removed_ind and up not in candidates and down in candidates", "if up > removed_ind and down in candidates"), 'D7', 'users before the edited statement ignored'),
    Mutant('bolus_raw_amount', F, edit_node('Bolus.free_symbols', lambda n, seg: isinstance(n, ast.Return), lambda seg: 'return {self._amount}'), 'D1', 'expression instead of its symbols'),
    Mutant('infusion_forgets_amount', F, edit_node('Infusion.free_symbols', lambda n, seg: isinstance(n, ast.Return), lambda seg: 'return symbs'), 'D1', 'amount not consulted'),
    Mutant('compartment_subs_forgets_lag', F, edit_node('Compartment.subs', lambda n, seg: isinstance(n, ast.keyword) and n.arg == 'lag_time', lambda seg: 'lag_time=self._lag_time'), 'D1', 'lag time not substituted'),
    Mutant('compartment_free_forgets_bio', F, edit_node('Compartment.free_symbols', stmt_containing('self.bioavailability.free_symbols'), to_pass), 'D1', 'bioavailability ignored'),
    Mutant('graph_scan_skips_first', F, edit_node('Statements._create_dependency_graph', lambda n, seg: isinstance(n, ast.Call) and seg == 'range(i - 1, -1, -1)', lambda seg: 'range(i - 1, 0, -1)'), 'D2', 'index 0 skipped'),
    Mutant('dependencies_forward', F, edit_node('Statements.dependencies', lambda n, seg: isinstance(n, ast.Call) and seg == 'range(len(self) - 1, -1, -1)', lambda seg: 'range(len(self))'), 'D2', 'first definition instead of latest'),
    Mutant('full_expression_forward', F, edit_node('Statements.full_expression', lambda n, seg: isinstance(n, ast.Call) and seg == 'reversed(self)', lambda seg: 'self'), 'D2', 'forward substitution'),
    Mutant('no_ode_edges', F, edit_node('Statements._create_dependency_graph', compound_containing('if not rhs.isdisjoint(amts)', ast.If), lambda seg: 'pass'), 'D3', 'ODE system never linked'),
]
MUTANTS += [
    Mutant('reassign_forward_delete', F, edit_node('Statements.reassign', lambda n, seg: isinstance(n, ast.Call) and seg.startswith('zip(range(len(new) - 1'), lambda seg: 'enumerate(list(new))'), 'D4', 'forward deletion by index'),
    Mutant('unguarded_traversal', F, edit_node('Statements.direct_dependencies', lambda n, seg: isinstance(n, ast.Compare) and seg == 'index in g', lambda seg: 'len(g) > 0'), 'D5', 'traversal from a missing node'),
    Mutant('accumulator_rebound', 'src/pharmpy/modeling/common.py', edit_node('_get_unused_parameters_and_rvs', stmt_containing('to_unjoin.append(name)'), lambda seg: 'to_unjoin = [name]'), 'D4', 'accumulator overwritten per iteration'),
]
