from .harness import Mutant, edit_node, stmt_containing, compound_containing, to_pass, sub, is_call
import ast
D = 'src/pharmpy/modeling/data.py'
def text_edit(old, new):
    def edit(src):
        return src.replace(old, new, 1) if old in src else None
    return edit
MUTANTS = [
    Mutant('tad_workaround_removed', 'src/pharmpy/modeling/data.py', text_edit("        di = update_datainfo(temp.datainfo, df)\n        new_idvcol = di.idv_column.replace(type='unknown')\n        new_timecol = di['_NEWTIME'].replace(type='idv')\n        di = di.set_column(new_idvcol).set_column(new_timecol)\n        temp = temp.replace(datainfo=di, dataset=df)", "        temp = temp.replace(dataset=df)"), 'Q8', 'idv column not redirected'),
    Mutant('reset_only_evid3', 'src/pharmpy/modeling/data.py', text_edit("        df['_FLAG'] = df[eventcol] >= 3", "        df['_FLAG'] = df[eventcol] == 3"), 'Q5', 'EVID 4 does not reset'),
    Mutant('sort_unstable', 'src/pharmpy/modeling/data.py', text_edit("x.sort_values(by='_TIMES', kind='stable')", "x.sort_values(by='_TIMES')"), 'Q6', 'unstable sort'),
    Mutant('typeix_keeps_dropped', 'src/pharmpy/model/datainfo.py', text_edit("cols = [col for col in self._obj if col.type == i and not col.drop]", "cols = [col for col in self._obj if col.type == i]"), 'Q7', 'dropped columns returned'),
    Mutant('literal_id_groupby', D, text_edit("df['DOSEID'] = df.groupby(idcol)['DOSEID'].cumsum()", "df['DOSEID'] = df.groupby('ID')['DOSEID'].cumsum()"), 'Q1', 'literal ID next to the resolved name'),
    Mutant('literal_id_frame_key', D, text_edit("{idcol: df[idcol], 'consec'", "{'ID': df[idcol], 'consec'"), 'Q1', 'frame built with key ID, grouped by resolved name'),
    Mutant('baseline_first', D, text_edit("baselines = model.dataset.groupby(idlab).nth(0).set_index(idlab)", "baselines = model.dataset.groupby(idlab).first()"), 'Q2', 'first non-missing instead of first record'),
    Mutant('cast_before_threshold', D, text_edit("    df['DOSEID'] = df[dose]\n    df.loc[df['DOSEID'] > 0, 'DOSEID'] = 1\n    df['DOSEID'] = df['DOSEID'].astype(int)", "    df['DOSEID'] = df[dose].astype(int)\n    df.loc[df['DOSEID'] > 0, 'DOSEID'] = 1"), 'Q3', 'truncation before flagging'),
]
