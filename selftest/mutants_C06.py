from .harness import Mutant, edit_node, stmt_containing, compound_containing, to_pass, sub, is_call
import ast
D = 'src/pharmpy/modeling/data.py'
def text_edit(old, new):
    def edit(src):
        return src.replace(old, new, 1) if old in src else None
    return edit
MUTANTS = [
    Mutant('frozenmapping_shared_dict', 'src/pharmpy/internals/immutable.py', text_edit("        new = dict(self._mapping)\n        new[key] = value\n        return frozenmapping(new)", "        new = frozenmapping(self)\n        new._mapping[key] = value\n        return new"), 'M2', 'write through the shared dict'),
    Mutant('add_iiv_raw_parameters', 'src/pharmpy/modeling/parameter_variability.py', text_edit("parameters=Parameters.create(pset)", "parameters=Parameters(tuple(pset))"), 'M6', 'new name without validation'),
    Mutant('add_cmt_no_copy', D, edit_node('add_cmt', lambda n, seg: isinstance(n, ast.Call) and seg == 'model.dataset.copy()', lambda seg: 'model.dataset'), 'M1', 'copy dropped'),
    Mutant('helper_mutates_param', D, edit_node('translate_nmtran_time', lambda n, seg: isinstance(n, ast.Call) and seg == 'model.dataset.copy()', lambda seg: 'model.dataset'), 'M1',
           'helper mutates the frame it is handed'),
    Mutant('inplace_drop', D, edit_node('drop_columns', lambda n, seg: isinstance(n, ast.Assign) and 'df.drop(' in seg,
           lambda seg: "model.dataset.drop(to_drop, axis=1, inplace=True)"), 'M1', 'inplace=True on the model frame'),
    Mutant('nonmem_update_no_copy', 'src/pharmpy/model/external/nonmem/update.py', edit_node('_add_cmt', lambda n, seg: isinstance(n, ast.Call) and seg == 'model.dataset.copy()', lambda seg: 'model.dataset'), 'M1', 'copy dropped in update'),
    Mutant('self_store_outside_init', 'src/pharmpy/model/parameters.py', edit_node('Parameter.replace', stmt_containing('new = Parameter.create'),
           lambda seg: seg + "\n        self._init = init"), 'M2', 'field rebound outside constructor'),
    Mutant('hash_extra_field', 'src/pharmpy/model/datainfo.py', edit_node('DataInfo.__hash__', lambda n, seg: isinstance(n, ast.Call) and seg == 'hash(self._columns)',
           lambda seg: 'hash((self._columns, self._path))'), 'M3', 'hash uses a field eq ignores'),
    Mutant('model_hash_with_dataset', 'src/pharmpy/model/model.py', edit_node('Model.__hash__', lambda n, seg: isinstance(n, ast.Attribute) and seg == 'self._value_type', lambda seg: 'hash_df_runtime(self._dataset) if self._dataset is not None else None, self._value_type'), 'M3', 'dataset hashed although __eq__ ignores it (the defect repaired by 4b81d1b)'),
    Mutant('hash_graph_identity', 'src/pharmpy/model/statements.py', edit_node('CompartmentalSystem.__hash__', lambda n, seg: isinstance(n, ast.Return), lambda seg: 'return hash((self._t, self._g))'), 'M3', 'identity hash'),
    Mutant('raw_ctor_add', 'src/pharmpy/model/parameters.py', edit_node('Parameters.__add__', lambda n, seg: isinstance(n, ast.Attribute) and seg == 'Parameters.create', lambda seg: 'Parameters'), 'M4', 'validation bypass'),
    Mutant('bounds_only_if_not_fix', 'src/pharmpy/model/parameters.py', edit_node('Parameter.create', compound_containing('if init < lower', ast.If),
           lambda seg: seg.replace('if init < lower', 'if not fix and init < lower', 1)), 'M5', 'bounds check skipped for fixed parameters'),
    Mutant('uniq_skip', 'src/pharmpy/model/parameters.py', edit_node('Parameters.create', compound_containing('if p.name in names', ast.If),
           lambda seg: 'if p.fix:\n                continue\n            ' + seg), 'M5', 'uniqueness skipped for some elements'),
    Mutant('frozenmapping_ordered_hash', 'src/pharmpy/internals/immutable.py', edit_node('frozenmapping.__hash__', lambda n, seg: isinstance(n, ast.Call) and seg.startswith('hash(frozenset('), lambda seg: 'hash(tuple((k, v) for k, v in self._mapping.items()))', 0), 'M11', 'entries hashed in insertion order (regression of cd551a5)'),
]
