from .harness import Mutant, edit_node, stmt_containing, compound_containing, to_pass, sub, is_call
import ast
C = 'src/pharmpy/modeling/covariate_effect.py'
def text_edit(old, new):
    def edit(src):
        return src.replace(old, new, 1) if old in src else None
    return edit
MUTANTS = [
    Mutant('remove_iiv_reassign', 'src/pharmpy/modeling/parameter_variability.py', text_edit("                    new_ass = Assignment.create(s.symbol, Expr(expr_subs))\n                    sset = sset[:ind] + new_ass + sset[ind + 1 :]", "                    sset = sset.reassign(s.symbol, Expr(expr_subs))"), 'X8', 'reassign deletes the other assignments (the defect repaired by 196f062)'),
    Mutant('add_iiv_cached_index', 'src/pharmpy/modeling/parameter_variability.py', (lambda src: src.replace("    for i in range(len(list_of_parameters)):\n        omega = Expr.symbol(f'IIV_{list_of_parameters[i]}')", "    indices = []\n    for name in list_of_parameters:\n        indices.append(sset.find_assignment_index(name))\n\n    for i in range(len(list_of_parameters)):\n        omega = Expr.symbol(f'IIV_{list_of_parameters[i]}')", 1).replace("        index = sset.find_assignment_index(list_of_parameters[i])\n", "        index = indices[i]\n", 1) if "        index = sset.find_assignment_index(list_of_parameters[i])\n" in src else None), 'X4', 'positions cached before statements are inserted'),
    Mutant('additive_guard_first_dv', 'src/pharmpy/modeling/error.py', text_edit("    if has_additive_error_model(model, dv):", "    if has_additive_error_model(model):"), 'X2', 'guard ignores the requested dv'),
    Mutant('power_guard_first_dv', 'src/pharmpy/modeling/error.py', text_edit("has_proportional_error_model(model, dv=dv_symb)", "has_proportional_error_model(model)"), 'X2', 'detector asked about the first dv'),
    Mutant('ipredadj_fixed', 'src/pharmpy/modeling/error.py', text_edit("ipred = create_symbol(model, 'IPREDADJ') if zero_protection else f", "ipred = Expr.symbol('IPREDADJ') if zero_protection else f"), 'X3', 'fixed guard symbol'),
    Mutant('linear_mean', C, text_edit("expression = 1 + Expr.symbol('theta') * (Expr.symbol('cov') - Expr.symbol('median'))\n        template", "expression = 1 + Expr.symbol('theta') * (Expr.symbol('cov') - Expr.symbol('mean'))\n        template"), 'X1', 'centred on the mean'),
    Mutant('exp_plus', C, text_edit("Expr.exp(Expr.symbol('theta') * (Expr.symbol('cov') - Expr.symbol('median')))", "Expr.exp(Expr.symbol('theta') * (Expr.symbol('cov') + Expr.symbol('median')))"), 'X1', 'cov + median'),
    Mutant('power_inverted', C, text_edit("(Expr.symbol('cov') / Expr.symbol('median')) ** Expr.symbol('theta')", "(Expr.symbol('median') / Expr.symbol('cov')) ** Expr.symbol('theta')"), 'X1', 'ratio inverted'),
    Mutant('piecewise_swapped', C, text_edit("BooleanExpr.le(Expr.symbol('cov'), Expr.symbol('median')),\n            BooleanExpr.gt(", "BooleanExpr.gt(Expr.symbol('cov'), Expr.symbol('median')),\n            BooleanExpr.le("), 'X1', 'slopes on the wrong sides'),
    Mutant('cat_without_one', C, text_edit("values += [1 + Expr.symbol('theta')]", "values += [Expr.symbol('theta')]"), 'X1', 'cat parameterised like cat2'),
]
