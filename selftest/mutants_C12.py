from .harness import Mutant, edit_node, stmt_containing, compound_containing, to_pass, sub, is_call
import ast
def text_edit(old, new):
    def edit(src):
        return src.replace(old, new, 1) if old in src else None
    return edit
MUTANTS = [
    Mutant('atol_from_rtol', 'src/pharmpy/model/execution_steps.py', text_edit("d['solver_atol'] = self._solver_atol", "d['solver_atol'] = self._solver_rtol"), 'H7', 'key written from another field'),
    Mutant('ie_orient_list', 'src/pharmpy/model/model.py', text_edit("ie = self._initial_individual_estimates.to_dict()", "ie = self._initial_individual_estimates.to_dict(orient='list')"), 'H6', 'index dropped'),
    Mutant('to_dict_set_order', 'src/pharmpy/model/statements.py', text_edit("        comps = [comp for comp in self._g.nodes]", "        comps = [output, *_comps(self._g)]"), 'H4', 'set order in serialisation'),
    Mutant('key_rename_writer', 'src/pharmpy/model/parameters.py', edit_node('Parameters.to_dict', lambda n, seg: isinstance(n, ast.Constant) and seg == "'parameters'", lambda seg: "'params'"), 'H1', 'writer key renamed'),
    Mutant('column_record_key', 'src/pharmpy/model/datainfo.py', edit_node('DataInfo._to_dict', lambda n, seg: isinstance(n, ast.Constant) and seg == '"descriptor"', lambda seg: '"description"'), 'H1', 'inline column record differs'),
    Mutant('drop_field_from_dict', 'src/pharmpy/model/statements.py', edit_node('Compartment.to_dict', lambda n, seg: isinstance(n, ast.Attribute) and seg == 'self._lag_time', lambda seg: 'self._input'), 'H2', 'compared field not serialised'),
    Mutant('todict_sorted_view', 'src/pharmpy/model/statements.py', edit_node('Compartment.to_dict', lambda n, seg: isinstance(n, ast.Attribute) and seg == 'self._doses', lambda seg: 'self.doses'), 'H2', 'computed view serialised'),
    Mutant('set_order_in_create', 'src/pharmpy/model/execution_steps.py', edit_node('EstimationStep.create', lambda n, seg: isinstance(n, ast.Call) and seg.startswith('tuple(sorted(') , lambda seg: 'tuple(set(' + seg[len('tuple(sorted('):], 0), 'H4', 'set order'),
    Mutant('id_memo', 'src/pharmpy/workflows/hashing.py', edit_node('_update_hash_with_dataset', stmt_containing('h.update(columns)'), lambda seg: seg + "\n    h.update(str(id(df)).encode())"), 'H4', 'identity in hash'),
    Mutant('description_not_blanked', 'src/pharmpy/workflows/hashing.py', edit_node('ModelHash.__init__', lambda n, seg: isinstance(n, ast.keyword) and n.arg == 'description', lambda seg: "description=model.description"), 'H5', 'description hashed'),
    Mutant('path_not_blanked', 'src/pharmpy/workflows/hashing.py', edit_node('ModelHash.__init__', stmt_containing('di = di.replace(path=None)'), to_pass), 'H5', 'path hashed'),
]
