"""Checker self-test: AST-located mutants of /repo's current source, applied to scratch copies outside
/repo and /verif; each must make the named rule of the property's check report a VIOLATION.

A mutant whose anchor is not found on the current tree is skipped (reported), not failed.
"""
from __future__ import annotations

import ast
import json
import os
import shutil
import subprocess
import sys
import tempfile
from concurrent.futures import ThreadPoolExecutor
from dataclasses import dataclass
from pathlib import Path

VERIF = Path(__file__).resolve().parent.parent
REPO = Path(os.environ.get('VERIF_REPO', '/repo'))


@dataclass
class Mutant:
    name: str
    rel: str                 # file relative to repo root
    edit: object             # callable(source) -> new source | None
    expect: str              # rule id expected in a VIOLATION
    desc: str = ''
    alts: tuple = ()         # other rule ids that count as reporting the same change


# ------------------------------------------------------------------ AST-located edits
def _segment_replace(src: str, node, new_text: str) -> str:
    lines = src.split('\n')
    sl, sc, el, ec = node.lineno - 1, node.col_offset, node.end_lineno - 1, node.end_col_offset
    # col offsets are utf8 byte offsets
    pre = lines[sl].encode()[:sc].decode()
    post = lines[el].encode()[ec:].decode()
    return '\n'.join(lines[:sl] + [pre + new_text + post] + lines[el + 1:])


def find_func(tree, qualname):
    parts = qualname.split('.')
    body = tree.body
    node = None
    for p in parts:
        node = None
        stack = list(body)
        while stack:
            n = stack.pop(0)
            if isinstance(n, (ast.FunctionDef, ast.ClassDef, ast.AsyncFunctionDef)) and n.name == p:
                node = n
                break
            if isinstance(n, (ast.If, ast.Try)):
                for sub in (getattr(n, 'body', []), getattr(n, 'orelse', []), getattr(n, 'finalbody', [])):
                    stack.extend(sub)
        if node is None:
            return None
        body = node.body
    return node


def edit_node(qualname, pred, repl, nth=0):
    """edit(source): inside function/class `qualname` replace the nth node satisfying pred(node, text)
    by repl(text) (text = source segment of the node)."""
    def edit(src):
        tree = ast.parse(src)
        scope = find_func(tree, qualname) if qualname else tree
        if scope is None:
            return None
        hits = []
        for n in ast.walk(scope):
            if not hasattr(n, 'lineno') or not hasattr(n, 'end_lineno'):
                continue
            seg = ast.get_source_segment(src, n)
            if seg is None:
                continue
            try:
                if pred(n, seg):
                    hits.append((n.lineno, n.col_offset, n, seg))
            except Exception:
                continue
        hits.sort(key=lambda h: (h[0], h[1]))
        if len(hits) <= nth:
            return None
        _, _, node, seg = hits[nth]
        new = repl(seg)
        if new == seg:
            return None
        out = _segment_replace(src, node, new)
        try:
            ast.parse(out)
        except SyntaxError:
            return None
        return out
    return edit


def is_call(name):
    return lambda n, seg: isinstance(n, ast.Call) and ast.unparse(n.func).split('.')[-1] == name


def stmt_containing(text, types=(ast.stmt,)):
    return lambda n, seg: isinstance(n, types) and text in seg and not isinstance(
        n, (ast.FunctionDef, ast.ClassDef, ast.If, ast.For, ast.While, ast.With, ast.Try))


def compound_containing(text, typ):
    return lambda n, seg: isinstance(n, typ) and text in seg.split('\n')[0]


def to_pass(seg):
    return 'pass'


def sub(old, new):
    return lambda seg: seg.replace(old, new, 1)


# ------------------------------------------------------------------ runner
def run_mutant(pid: str, m: Mutant, keep=False):
    src_file = REPO / m.rel
    if not src_file.exists():
        return m, 'skipped', 'file missing'
    src = src_file.read_text()
    new = m.edit(src)
    if new is None:
        return m, 'skipped', 'anchor not found on this tree'
    tmp = Path(tempfile.mkdtemp(prefix=f'sa_selftest_{pid}_'))
    try:
        shutil.copytree(REPO / 'src', tmp / 'src', ignore=shutil.ignore_patterns('__pycache__', '*.pyc'))
        if (REPO / 'docs').is_dir():
            shutil.copytree(REPO / 'docs', tmp / 'docs', ignore=shutil.ignore_patterns('_build'))
        (tmp / m.rel).write_text(new)
        env = dict(os.environ, VERIF_REPO=str(tmp), VERIF_OUT=str(tmp / 'out'), VERIF_SELFTEST='1')
        p = subprocess.run([sys.executable, '-m', 'sa.check', pid, '--tier', 'quick'], cwd=VERIF, env=env,
                           capture_output=True, text=True, timeout=600)
        rules = set()
        for line in p.stdout.splitlines():
            if line.startswith('VIOLATION'):
                rp = line.split('replay=')[1].strip()
                try:
                    rules.add(json.loads(Path(rp).read_text())['rule'])
                except Exception:
                    pass
        if p.returncode == 1 and ({m.expect, *m.alts} & rules):
            return m, 'killed', ','.join(sorted(rules))
        if p.returncode == 2:
            return m, 'analysis-error', p.stdout.strip().splitlines()[-1][:200] if p.stdout.strip() else ''
        return m, 'survived', f'rc={p.returncode} rules={sorted(rules)}'
    finally:
        if not keep:
            shutil.rmtree(tmp, ignore_errors=True)


def run_all(pid: str, mutants, jobs=16):
    with ThreadPoolExecutor(max_workers=jobs) as ex:
        return list(ex.map(lambda m: run_mutant(pid, m), mutants))


def patch_edit(patch_text: str):
    """edit(source) from a one-file unified diff: every hunk is located by its text (removed lines plus as much of the
    context as is still there: 3, 2, 1, 0 lines) in the current source, wherever it has moved to (of several copies of the
    same text the one nearest to the hunk's line); None (-> skipped) when a hunk's text is no longer there."""
    hunks, cur = [], None
    for line in patch_text.split('\n'):
        if line.startswith('@@'):
            try:
                at = int(line.split('-')[1].split(',')[0].split()[0])
            except (IndexError, ValueError):
                at = 0
            cur = [('@', at)]
            hunks.append(cur)
        elif cur is None or line.startswith('\\') or line.startswith('diff --git'):
            if line.startswith('diff --git'):
                cur = None
            continue
        elif line[:1] in '+- ':
            cur.append((line[:1] or ' ', line[1:]))
        elif line == '':
            cur.append((' ', ''))

    def edit(src):
        for h in hunks:
            at, h = h[0][1], h[1:]
            while h and h[-1] == (' ', ''):
                h = h[:-1]
            ch = [i for i, (t, _) in enumerate(h) if t != ' ']
            if not ch:
                continue
            done = False
            for k in (3, 2, 1, 0):
                part = h[max(0, ch[0] - k): ch[-1] + 1 + k]
                o = '\n'.join(x for t, x in part if t != '+')
                n = '\n'.join(x for t, x in part if t != '-')
                if o.strip() and src.count(o) >= 1:
                    # several copies of the same text (sibling functions): the one nearest to where the hunk was written
                    pos, occ = -1, []
                    while (pos := src.find(o, pos + 1)) >= 0:
                        occ.append(pos)
                    pos = min(occ, key=lambda q: abs(src.count('\n', 0, q) + 1 - (at + max(0, ch[0] - k))))
                    src = src[:pos] + n + src[pos + len(o):]
                    done = True
                    break
            if not done:
                return None
        try:
            ast.parse(src)
        except SyntaxError:
            return None
        return src
    return edit


def seed_mutants(pid: str):
    """The seeded changes of /verif/seeded that the check of `pid` reports (meta.json: verdict caught), as mutants: each must
    still be reported by (one of) the rule(s) that reported it when it was validated."""
    out = []
    for d in sorted((VERIF / 'seeded').glob(f'{pid}_*')):
        mp, pp = d / 'meta.json', d / 'patch.diff'
        if not (mp.exists() and pp.exists()):
            continue
        meta = json.loads(mp.read_text())
        v = meta.get('verif', {})
        if v.get('verdict') != 'caught' or meta.get('property', pid) != pid:
            continue
        text = pp.read_text()
        files = [l.split(' b/', 1)[1] for l in text.split('\n') if l.startswith('diff --git ')]
        rules = [r.split()[0] for r in v.get('check', {}).get('reported', []) if r.split()]
        if len(files) != 1 or not rules:
            continue
        out.append(Mutant(f'seed:{d.name}', files[0], patch_edit(text), rules[0], 'seeded change', tuple(rules[1:])))
    return out


def mutants_for(pid: str, seeds=True):
    import importlib
    try:
        mod = importlib.import_module(f'selftest.mutants_{pid}')
        ms = list(mod.MUTANTS)
    except ModuleNotFoundError:
        ms = []
    return ms + (seed_mutants(pid) if seeds else [])


if __name__ == '__main__':
    pid = sys.argv[1]
    res = run_all(pid, mutants_for(pid))
    bad = 0
    for m, status, info in res:
        print(f'{status:15s} {pid} {m.name:40s} expect={m.expect:5s} {info}')
        if status in ('survived', 'analysis-error'):
            bad += 1
    sys.exit(1 if bad else 0)
