from .harness import Mutant, edit_node, stmt_containing, compound_containing, to_pass, sub, is_call
import ast
M = 'src/pharmpy/tools/mfl/'
def text_edit(old, new):
    def edit(src):
        return src.replace(old, new, 1) if old in src else None
    return edit
MUTANTS = [
    Mutant('add_helper_wrong_keys', 'src/pharmpy/tools/mfl/parse.py', text_edit("        k: tuple(set(s2_join_name_dict[k]) - set(s1_join_name_dict[k]))\n        for k in s2_join_name_dict.keys()", "        k: tuple(set(s2_join_name_dict[k]) - set(s1_join_name_dict[k]))\n        for k in s1_join_name_dict.keys()"), 'G13', 'keys of the subtrahend'),
    Mutant('partitions_sorted_input', 'src/pharmpy/internals/set/partitions.py', text_edit("    _elements = tuple(elements)", "    _elements = tuple(sorted(elements))"), 'G11', 'input re-ordered'),
    Mutant('partitions_sort_parts', 'src/pharmpy/internals/set/partitions.py', text_edit("    return sorted(iterable, key=_shortlexkey)", "    return sorted(map(tuple, map(sorted, iterable)), key=_shortlexkey)"), 'G11', 'elements inside parts sorted'),
    Mutant('partitions_prepend', 'src/pharmpy/internals/set/partitions.py', text_edit("(part + suffix,)", "(suffix + part,)"), 'G11', 'parts in reverse order'),
    Mutant('peripheral_prev_ignored', 'src/pharmpy/tools/modelsearch/algorithms.py', text_edit(" and n_all[n_index - 1] == max(n_prev)", ""), 'G12', 'previous steps ignored'),
    Mutant('missing_top_handler', M + 'interpreter.py', edit_node('MFLInterpreter', lambda n, seg: isinstance(n, ast.FunctionDef) and n.name == 'lagtime', lambda seg: seg.replace('def lagtime', 'def lagtime_', 1)), 'G1', 'no handler for lagtime'),
    Mutant('missing_mode_handler', M + 'statement/feature/transits.py', edit_node('TransitsInterpreter', lambda n, seg: isinstance(n, ast.FunctionDef) and n.name == 'depot_modes', lambda seg: seg.replace('def depot_modes', 'def depot_mode', 1)), 'G1', 'depot_modes falls to the default handler'),
    Mutant('wildcard_const_short', M + 'statement/feature/absorption.py', edit_node('', lambda n, seg: isinstance(n, ast.Tuple) and seg == "('FO', 'ZO', 'SEQ-ZO-FO', 'INST')", lambda seg: "('FO', 'ZO', 'SEQ-ZO-FO')"), 'G2', 'wildcard misses a mode'),
    Mutant('dispatch_missing_mode', M + 'feature/elimination.py', edit_node('features', lambda n, seg: isinstance(n, ast.Constant) and seg == "'MIX-FO-MM'", lambda seg: "'MIX'"), 'G2', 'dispatch chain misses a mode'),
    Mutant('eq_tuple', M + 'statement/feature/peripherals.py', edit_node('Peripherals.__eq__', lambda n, seg: isinstance(n, ast.BoolOp), lambda seg: '(' + seg.replace(' and ', ', ', 1) + ')'), 'G3', 'tuple instead of and'),
    Mutant('eq_forgets_lagtime', M + 'parse.py', edit_node('ModelFeatures.__eq__', lambda n, seg: isinstance(n, ast.Compare) and seg == 'self.lagtime == other.lagtime', lambda seg: 'True'), 'G3', 'lagtime not compared'),
    Mutant('eq_cov_one_sided', M + 'parse.py', edit_node('ModelFeatures._eq_covariate', lambda n, seg: isinstance(n, ast.BoolOp), lambda seg: 'all(c in rhs for c in lhs)'), 'G3', 'one sided inclusion'),
    Mutant('add_drops_metabolite', M + 'parse.py', edit_node('ModelFeatures.__add__', lambda n, seg: isinstance(n, ast.keyword) and n.arg == 'metabolite', lambda seg: 'lagtime=None', 0), 'G4', 'metabolite dropped by +'),
    Mutant('unguarded_wildcard', M + 'statement/feature/absorption.py', edit_node('Absorption.__eq__', lambda n, seg: isinstance(n, ast.Attribute) and seg == 'self.eval.modes', lambda seg: 'self.modes'), 'G5', 'wildcard iterated'),
    Mutant('set_zip', 'src/pharmpy/tools/modelsearch/algorithms.py', edit_node('exhaustive', lambda n, seg: isinstance(n, ast.ListComp) and seg.startswith('[mfl_funcs[feat]'), lambda seg: 'set(' + seg[1:-1] + ')'), 'G6', 'set zipped with keys'),
    Mutant('scalar_name', M + 'statement/feature/lagtime.py', edit_node('LagTime.__sub__', lambda n, seg: isinstance(n, ast.Tuple) and seg == "(Name('OFF'),)", lambda seg: "(Name('OFF'))", 0), 'G7', 'not a tuple'),
    Mutant('foreign_mode', M + 'statement/feature/elimination.py', edit_node('Elimination.__sub__', lambda n, seg: isinstance(n, ast.Constant) and seg == "'FO'", lambda seg: "'INST'", 0), 'G7', 'mode of another alphabet'),
    Mutant('optional_child_indexed', M + 'statement/feature/allometry.py', edit_node('AllometryInterpreter.interpret', lambda n, seg: isinstance(n, ast.Return), lambda seg: 'return Allometry(covariate=children[0], reference=children[1])'), 'G8', 'optional child indexed'),
    Mutant('subset_covariate_typo', 'src/pharmpy/tools/mfl/parse.py', text_edit("self._subset_covariates(mfl, model)", "self._subset_covariate(mfl, model)"), 'Y0', 'method that does not exist (regression of 5add02f)'),
    Mutant('contain_subset_falls_off', 'src/pharmpy/tools/mfl/parse.py', edit_node('ModelFeatures.contain_subset', lambda n, seg: isinstance(n, ast.Return) and seg == 'return True', lambda seg: 'pass', -1), 'G21', 'no answer on the path without covariates (regression of 5add02f)'),
    Mutant('product_appended', 'src/pharmpy/tools/mfl/parse.py', text_edit("lhs[(effect, op)].extend(product(", "lhs[(effect, op)].append(product("), 'Y0', 'iterator objects searched by identity (regression of 5add02f)'),
]
