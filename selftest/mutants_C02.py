from .harness import Mutant, edit_node, stmt_containing, compound_containing, to_pass, sub, is_call
import ast
U = 'src/pharmpy/model/external/nonmem/update.py'
C = 'src/pharmpy/model/external/nonmem/records/code_record.py'
def text_edit(old, new):
    def edit(src):
        return src.replace(old, new, 1) if old in src else None
    return edit
MUTANTS = [
    Mutant('trans3_kept_for_advan11', 'src/pharmpy/model/external/nonmem/update.py', text_edit("        if advan in ['ADVAN3', 'ADVAN4']:\n            trans = oldtrans\n        elif advan in ['ADVAN11', 'ADVAN12']:\n            trans = 'TRANS4'", "        if advan in ['ADVAN3', 'ADVAN4', 'ADVAN11', 'ADVAN12']:\n            trans = oldtrans\n        elif False:\n            trans = 'TRANS4'"), 'B16', 'TRANS3 with ADVAN11'),
    Mutant('print_add_drops_multi_rv', 'src/pharmpy/model/external/nonmem/records/code_record.py', text_edit("                            terms_ruv.append(arg)\n                            continue\n                    terms_iiv_iov.append(arg)", "                            terms_ruv.append(arg)\n                        else:\n                            terms_iiv_iov.append(arg)"), 'B14', 'multi-rv term in no list'),
    Mutant('mod_one_arg', C, text_edit("        return f'MOD({self.doprint(expr.args[0])},{self.doprint(expr.args[1])})'", "        return f'MOD({self.doprint(expr.args[0])})'"), 'B8', 'second argument of MOD dropped'),
    Mutant('gamln_as_loggamma', C, text_edit("        return f'GAMLN({self.doprint(expr.args[0])})'", "        return f'LOGGAMMA({self.doprint(expr.args[0])})'"), 'B8', 'not an NM-TRAN function'),
    Mutant('reciprocal_str', C, text_edit('            base = self.parenthesize(expr.base, sympy_printing.str.precedence(expr))\n            return f"1/{base}"', '            return f"1/({expr.base})"'), 'B9', 'base formatted by the default printer'),
    Mutant('des_branch_without_map', 'src/pharmpy/model/external/nonmem/update.py', text_edit("        newmap = new_compartmental_map(new)\n        model = model.replace(internals=model.internals.replace(compartment_map=newmap))\n", ""), 'B5', '$DES branch keeps the stale map'),
    Mutant('model_record_early_return', 'src/pharmpy/model/external/nonmem/update.py', text_edit("    replace_dict: dict[str, Any] = {'compartment_map': newmap}\n", "    replace_dict: dict[str, Any] = {'compartment_map': newmap}\n    if oldmap == newmap and not model.internals.control_stream.get_records('MODEL'):\n        return model\n"), 'B5', 'early return after computing the map'),
    Mutant('group_regenerates_only_kept', 'src/pharmpy/model/external/nonmem/records/code_record.py', text_edit("new_statements = [s for s, op in zip(statements, operations) if op != -1]", "new_statements = [s for s, op in zip(statements, operations) if op == 0]"), 'B6', 'replacement statement dropped'),
    Mutant('group_removes_inserted', 'src/pharmpy/model/external/nonmem/records/code_record.py', text_edit("yield -1, [s for s, op in zip(statements, operations) if op != 1], ni, nj", "yield -1, [s for s, op in zip(statements, operations) if op != 0], ni, nj"), 'B6', 'removal set wrong'),
    Mutant('cmt_sequential', 'src/pharmpy/model/external/nonmem/update.py', text_edit('            dataset = dataset.replace({"CMT": remap})\n', '            for old_number, new_number in remap.items():\n                dataset.loc[dataset["CMT"] == old_number, "CMT"] = new_number\n'), 'B7', 'entry-by-entry CMT renumbering'),
    Mutant('writer_v2_for_v1', U, text_edit("add_parameters_ratio(model, 'Q', 'V1', central, peripheral)", "add_parameters_ratio(model, 'Q', 'V2', central, peripheral)"), 'B1', 'K12 defined as Q/V2'),
    Mutant('writer_swapped_edge', U, text_edit("add_parameters_ratio(model, 'Q3', 'V3', peripheral1, central)", "add_parameters_ratio(model, 'Q3', 'V3', central, peripheral1)"), 'B1', 'ratio attached to the opposite flow'),
    Mutant('renamer_dropped', U, text_edit("                d[Expr.symbol('V1')] = Expr.symbol('V2')\n                d[Expr.symbol('V2')] = Expr.symbol('V3')", "                d[Expr.symbol('V1')] = Expr.symbol('V2')"), 'B2', 'V2->V3 dropped'),
    Mutant('renamer_swapped', U, text_edit("                        Expr.symbol('K23'): Expr.symbol('K12'),\n                        Expr.symbol('K32'): Expr.symbol('K21'),\n                    }\n                )\n        elif advan == 'ADVAN12':", "                        Expr.symbol('K23'): Expr.symbol('K21'),\n                        Expr.symbol('K32'): Expr.symbol('K12'),\n                    }\n                )\n        elif advan == 'ADVAN12':"), 'B2', 'K23/K32 swapped'),
    Mutant('le_lt_swapped', C, edit_node('NMTranPrinter._print_LessThan', lambda n, seg: isinstance(n, ast.Constant) and seg == '".LE."', lambda seg: '".LT."'), 'B3', '<= printed as .LT.'),
    Mutant('binary_infix', C, edit_node('NMTranPrinter._do_infix', lambda n, seg: isinstance(n, ast.Return), lambda seg: 'return super()._print(expr.args[0]) + op + super()._print(expr.args[1])'), 'B3', 'only two operands printed'),
    Mutant('map_from_graph', U, edit_node('new_compartmental_map', lambda n, seg: isinstance(n, ast.Attribute) and seg == 'cs.compartment_names', lambda seg: '[c.name for c in cs._g.nodes if hasattr(c, "name")]'), 'B4', 'numbering from insertion order'),
    Mutant('trans1_micro_only_advan3', U, text_edit("    elif advan in ('ADVAN3', 'ADVAN11', 'ADVAN12') and trans == 'TRANS1':", "    elif advan in ('ADVAN3',) and trans == 'TRANS1':"), 'B17', 'K13/K31 and K23..K42 not defined for ADVAN11/12 TRANS1'),
    Mutant('trans1_micro_table_short', U, text_edit("            'ADVAN11': [('K12', 'K21'), ('K13', 'K31')],", "            'ADVAN11': [('K12', 'K21')],"), 'B17', 'second peripheral of ADVAN11 gets no constants'),
]
