from .harness import Mutant, edit_node, stmt_containing, compound_containing, to_pass, sub, is_call
import ast
M = 'src/pharmpy/internals/math.py'
def text_edit(old, new):
    def edit(src):
        return src.replace(old, new, 1) if old in src else None
    return edit
MUTANTS = [
    Mutant('unjoin_counts_request', 'src/pharmpy/model/random_variables.py', text_edit("if len(dist) - len(remove) == 1:", "if len(dist) - len(inds) == 1:"), 'V6', 'whole request counted'),
    Mutant('unjoin_first_hoisted', 'src/pharmpy/model/random_variables.py', text_edit("        for dist in self._dists:\n            first = True\n            keep = None", "        first = True\n        for dist in self._dists:\n            keep = None"), 'V5', 'flag spans all distributions'),
    Mutant('unjoin_ascending', 'src/pharmpy/model/random_variables.py', text_edit("for i in reversed(remove):", "for i in remove:"), 'V2', 'ascending index deletion'),
    Mutant('replace_skips_canonicalize', 'src/pharmpy/model/model.py', text_edit("        parameters = Model._canonicalize_parameter_estimates(parameters, random_variables)\n\n        if 'dataset' in kwargs:", "        if 'parameters' in kwargs or False:\n            parameters = Model._canonicalize_parameter_estimates(parameters, random_variables)\n\n        if 'dataset' in kwargs:"), 'V3', 'estimates only checked when parameters are given'),
    Mutant('sdcorr_reads_output', 'src/pharmpy/model/random_variables.py', text_edit("sigma = sigma_sym.subs(values).to_numpy()", "sigma = sigma_sym.subs(newdict).to_numpy()"), 'V4', 'conversion reads the dictionary it writes'),
    Mutant('return_a2', M, text_edit("    if is_positive_semidefinite(A3):\n        return A3", "    if is_positive_semidefinite(A3):\n        return A2"), 'V1', 'returns another matrix than the tested one'),
    Mutant('drop_loop', M, edit_node('nearest_positive_semidefinite', compound_containing('while not is_positive_semidefinite(A3)', ast.While), lambda seg: 'pass'), 'V1', 'final return not established PSD'),
    Mutant('first_return_copy', M, text_edit("    if is_positive_semidefinite(A):\n        return A\n", "    if is_positive_semidefinite(A):\n        return A.copy()\n"), 'V1', 'valid matrix returned as a new object'),
    Mutant('overwrite_unconditional', 'src/pharmpy/model/random_variables.py', edit_node('RandomVariables.nearest_valid_parameters', compound_containing('if B is not A', ast.If), lambda seg: seg.replace('if B is not A', 'if True', 1)), 'V1', 'values overwritten although valid'),
    Mutant('always_repair', 'src/pharmpy/model/model.py', edit_node('Model._canonicalize_parameter_estimates', compound_containing('if not rvs.validate_parameters(inits)', ast.If), lambda seg: seg.replace('if not rvs.validate_parameters(inits)', 'if True', 1)), 'V1', 'repair although valid'),
]
