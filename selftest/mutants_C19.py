from .harness import Mutant, edit_node, stmt_containing, compound_containing, to_pass, sub, is_call
import ast
R = 'src/pharmpy/modeling/results.py'
L = 'src/pharmpy/modeling/lrt.py'
T = 'src/pharmpy/tools/run.py'
def text_edit(old, new):
    def edit(src):
        return src.replace(old, new, 1) if old in src else None
    return edit
MUTANTS = [
    Mutant('bootstrap_vstack', 'src/pharmpy/tools/bootstrap/results.py', text_edit("    df = pd.DataFrame()\n    for res in results:\n        df = pd.concat([df, res.parameter_estimates], axis=1, ignore_index=True, sort=False)\n    df = df.T\n    df = df.reindex(results[0].parameter_estimates.index, axis=1)", "    columns = results[0].parameter_estimates.index\n    df = pd.DataFrame(np.vstack([res.parameter_estimates for res in results]), columns=columns)"), 'N8', 'replicates combined by position'),
    Mutant('lrt_cutoff_from_base', 'src/pharmpy/tools/run.py', text_edit("co = 0.05 if lrt_df(parent_model, model) >= 0 else 0.01", "co = 0.05 if lrt_df(base_model, model) >= 0 else 0.01"), 'N6', 'direction taken from another pair'),
    Mutant('bic_sigma_uncounted', 'src/pharmpy/modeling/results.py', text_edit("            fixedpars -= cursymbols\n            randpars |= cursymbols", "            fixedpars -= cursymbols\n            randpars |= param_symbols"), 'N7', 'sigma in neither group'),
    Mutant('aic_factor', R, edit_node('calculate_aic', lambda n, seg: isinstance(n, ast.Return), lambda seg: 'return likelihood + len(parameters)'), 'N1', 'factor 2 dropped'),
    Mutant('bic_swapped_counts', R, text_edit('penalty = len(theta_r) * math.log(nsubs) + len(theta_f) * math.log(nobs)', 'penalty = len(theta_r) * math.log(nobs) + len(theta_f) * math.log(nsubs)'), 'N1', 'nsubs/nobs swapped'),
    Mutant('bic_fixed_uses_ids', R, text_edit("penalty = len(parameters) * math.log(len(get_observations(model)))", "penalty = len(parameters) * math.log(len(get_ids(model)))"), 'N1', 'fixed BIC with individuals'),
    Mutant('categorize_order', R, edit_node('_categorize_parameters', lambda n, seg: isinstance(n, ast.Return), lambda seg: 'return randpars, fixedpars'), 'N1', 'tuple order swapped'),
    Mutant('rse_sigma_uses_omegas', T, text_edit('rse_sigma = ArrayEvaluator(rse[rse.index.isin(get_sigmas(model).names)])', 'rse_sigma = ArrayEvaluator(rse[rse.index.isin(get_omegas(model).names)])'), 'N2', 'clone hole with wrong kind'),
    Mutant('dofv_swapped', L, edit_node('test', lambda n, seg: isinstance(n, ast.BinOp) and seg == 'parent_ofv - child_ofv', lambda seg: 'child_ofv - parent_ofv'), 'N3', 'orientation swapped'),
    Mutant('df_swapped', L, edit_node('degrees_of_freedom', lambda n, seg: isinstance(n, ast.Return), lambda seg: 'return len(parent_parameters) - len(child_parameters)'), 'N3', 'df sign'),
    Mutant('cutoff_abs', L, edit_node('cutoff', lambda n, seg: isinstance(n, ast.UnaryOp) and seg.startswith('-float'), lambda seg: seg[1:]), 'N3', 'backward cut-off not negated'),
    Mutant('penalty_after_cutoff', T, edit_node('rank_models', compound_containing('if penalties:', ast.If), lambda seg: 'pass', 1), 'N4', 'penalty not applied before the comparison'),
    Mutant('cov_by_mask', 'src/pharmpy/internals/math.py', edit_node('se_delta_method', stmt_containing('cov = cov[names].loc[names]'), lambda seg: 'cov = cov.loc[cov.index.isin(names), cov.columns.isin(names)]'), 'N5', 'covariance in its own order'),
]
