from .harness import Mutant, edit_node, stmt_containing, compound_containing, to_pass, sub, is_call
import ast
T = 'src/pharmpy/model/external/nonmem/records/theta_record.py'
O = 'src/pharmpy/model/external/nonmem/records/omega_record.py'
GT = 'src/pharmpy/model/external/nonmem/records/grammars/theta_record.lark'
GO = 'src/pharmpy/model/external/nonmem/records/grammars/omega_record.lark'
def text_edit(old, new):
    def edit(src):
        return src.replace(old, new, 1) if old in src else None
    return edit
MUTANTS = [
    Mutant('block_comment_uppercased', 'src/pharmpy/model/external/nonmem/update.py', text_edit("                code += f'{omega.init}'.upper()\n\n                if not re.match(f'{record_type}_{row + eta_number}_{col + eta_number}', omega.name):\n                    code += f'\\t; {omega.name}'\n\n                code += '\\n'", "                line = f'{omega.init}'\n\n                if not re.match(f'{record_type}_{row + eta_number}_{col + eta_number}', omega.name):\n                    line += f'\\t; {omega.name}'\n\n                code += f'{line.upper()}\\n'"), 'P10', 'name comment upper-cased'),
    Mutant('omega_equal_ignores_fix', 'src/pharmpy/model/external/nonmem/records/omega_record.py', text_edit("                    if n == 1 or (\n                        new_inits.count(new_init) == len(new_inits)\n                        and new_fix.count(new_fix[0]) == len(new_fix)\n                    ):  # All equal?", "                    if n == 1 or len(set(new_inits)) == 1:  # All equal?"), 'P11', 'fix flags not compared'),
    Mutant('omega_remove_drops_newline', 'src/pharmpy/model/external/nonmem/records/omega_record.py', text_edit("                if in_keep or node.rule == 'NEWLINE':", "                if in_keep:"), 'P9', 'line break dropped with the item'),
    Mutant('omega_split_no_reset', 'src/pharmpy/model/external/nonmem/records/omega_record.py', text_edit("                            node = base_node\n", "").__call__ and (lambda src: src.replace("                        base_node = node.remove('n')", "                        node = node.remove('n')", 1).replace("                            node = base_node\n", "", 1) if "node = base_node" in src else None), 'P7', 'FIX edit carried to next repeat'),
    Mutant('eta_number_hoisted', 'src/pharmpy/model/external/nonmem/update.py', (lambda src: src.replace("                kept.append(newrec)\n            eta_number += len(rvs)\n        elif op == -1:", "                kept.append(newrec)\n        elif op == -1:", 1).replace("                recindex += 1\n            eta_number += len(rvs)\n        if recindex < len(records) and diag_index", "                recindex += 1\n        eta_number += len(rvs)\n        if recindex < len(records) and diag_index", 1) if "            eta_number += len(rvs)\n        elif op == -1:" in src else None), 'P8', 'counter advances for removed distributions'),
    Mutant('lcs_tie_delete_last', 'src/pharmpy/internals/sequence/lcs.py', text_edit("    elif c[i + 1][j] >= c[i][j + 1]:", "    elif c[i + 1][j] > c[i][j + 1]:"), 'P6', 'tie emits the deletion last'),
    Mutant('lcs_wrong_branch', 'src/pharmpy/internals/sequence/lcs.py', text_edit("    elif c[i + 1][j] >= c[i][j + 1]:", "    elif c[i + 1][j] <= c[i][j + 1]:"), 'P6', 'shorter subsequence followed'),
    Mutant('theta_upper_only_list', 'src/pharmpy/model/external/nonmem/update.py', text_edit("            code += f'(-INF,{init},{upper})'", "            code += f'({init},{upper})'"), 'P4', 'upper-only bound written as two values'),
    Mutant('theta_fix_dropped', 'src/pharmpy/model/external/nonmem/update.py', text_edit("    if param.fix:\n        code += ' FIX'\n\n    code += f' ; {param.name}\\n'", "    code += f' ; {param.name}\\n'"), 'P4', 'FIX not written'),
    Mutant('theta_update_index_by_one', T, edit_node('ThetaRecord.update', stmt_containing('i += n'), lambda seg: 'i += 1'), 'P1', 'index ignores xn'),
    Mutant('len_ignores_xn', T, edit_node('ThetaRecord.__len__', stmt_containing('tot += self._multiple(theta)'), lambda seg: 'tot += 1'), 'P1', 'length counts nodes'),
    Mutant('omega_update_index_by_one', O, text_edit('                            if j != len(new_inits) - 1:  # Not the last\n                                new_nodes.append(AttrTree.create(\'ws\', {\'WS\': \' \'}))\n                    i += n', '                            if j != len(new_inits) - 1:  # Not the last\n                                new_nodes.append(AttrTree.create(\'ws\', {\'WS\': \' \'}))\n                    i += 1'), 'P1', 'diag index ignores xn'),
    Mutant('fix_always_removed', T, edit_node('ThetaRecord.update', compound_containing('if param.fix:', ast.If), lambda seg: seg.replace('if param.fix:', 'if fix:', 1)), 'P2', 'direction from the old flag'),
    Mutant('split_fix_sync', O, text_edit('                            if new_fix[j] != fix:\n                                if new_fix[j]:\n', '                            if new_fix[j] == fix:\n                                if new_fix[j]:\n'), 'P2', 'FIX edited under equality'),
    Mutant('node_vs_bound', T, edit_node('ThetaRecord.update', lambda n, seg: isinstance(n, ast.Compare) and seg == 'cur_upper != param.upper', lambda seg: 'up != param.upper'), 'P3', 'node compared with number'),
    Mutant('value_steals_rpar', GT, text_edit(r'VALUE : /(?!(,|[0-9]|\(|\)|FIX))[^\s=;]+/', r'VALUE : /(?!(,|[0-9]|\(|FIX))[^\s=;]+/'), 'A5', 'look-ahead removed'),
    Mutant('same_priority_dropped', GO, text_edit('SAME.1      : "SAME"', 'SAME        : "SAME"'), 'A5', 'keyword priority removed'),
]
