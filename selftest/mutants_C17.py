from .harness import Mutant, edit_node, stmt_containing, compound_containing, to_pass, sub, is_call
import ast
W = 'src/pharmpy/workflows/workflow.py'
def text_edit(old, new):
    def edit(src):
        return src.replace(old, new, 1) if old in src else None
    return edit
MUTANTS = [
    Mutant('dask_keys_by_index', 'src/pharmpy/workflows/workflow.py', text_edit("        for task in self._g.nodes():\n            assert isinstance(task, Task)\n            ids[task] = f'{task.name}-{uuid.uuid4()}'", "        for i, task in enumerate(self._g.nodes()):\n            assert isinstance(task, Task)\n            ids[task] = f'{task.name}-{i}'"), 'W8', 'keys unique per workflow only'),
    Mutant('rename_after_optimise', 'src/pharmpy/workflows/dispatchers/local_dask/call.py', text_edit("    dsk[unique_name] = dsk.pop('results')\n    dsk_optimized = optimize_task_graph_for_dask_distributed(client, dsk)\n", "    dsk_optimized = optimize_task_graph_for_dask_distributed(client, dsk)\n    dsk_optimized[unique_name] = dsk_optimized.pop('results')\n"), 'W6', 'sink renamed after fusion'),
    Mutant('add_task_conditional_node', 'src/pharmpy/workflows/workflow.py', text_edit("        self._g.add_node(task)\n        if predecessors is not None:", "        if predecessors is None:\n            self._g.add_node(task)\n        if predecessors is not None:"), 'W7', 'node only added without predecessors'),
    Mutant('task_replace_or_default', 'src/pharmpy/workflows/task.py', text_edit('task_input = kwargs.get("task_input", self._task_input)', 'task_input = kwargs.get("task_input") or self._task_input'), 'Y0', 'empty replacement ignored'),
    Mutant('preds_before_static', W, edit_node('Workflow.as_dask_dict', stmt_containing('input_list = list(task.task_input)'),
           lambda seg: 'input_list = [ids[t] for t in self._g.predecessors(task)]\n            input_list.extend(task.task_input)\n            continue_marker = None') , 'W1', 'predecessor keys before static inputs'),
    Mutant('successors_instead', W, edit_node('Workflow.as_dask_dict', lambda n, seg: isinstance(n, ast.Call) and seg == 'self._g.predecessors(task)', lambda seg: 'self._g.successors(task)'), 'W1', 'wrong neighbours'),
    Mutant('hoisted_uuid', W, edit_node('Workflow.as_dask_dict', stmt_containing("ids[task] = f'{task.name}-{uuid.uuid4()}'"), lambda seg: "ids[task] = f'{task.name}-{suffix}'"), 'W1', 'key not unique per task'),
    Mutant('multi_sink_ok', W, edit_node('Workflow.as_dask_dict', compound_containing('if len(self.output_tasks) == 1', ast.If), lambda seg: "ids[self.output_tasks[0]] = 'results'"), 'W1', 'several sinks accepted'),
    Mutant('context_appended', W, edit_node('insert_context', lambda n, seg: isinstance(n, ast.Tuple) and seg == '(context, *task.task_input)', lambda seg: '(*task.task_input, context)'), 'W2', 'context appended'),
    Mutant('drop_non_model_inputs', 'src/pharmpy/workflows/execute.py', edit_node('execute_workflow', compound_containing('else:', ast.If) if False else (lambda n, seg: isinstance(n, ast.Expr) and seg == 'new_inp.append(inp)'), to_pass, 1), 'W2', 'non-model inputs dropped'),
    Mutant('scatter_all', 'src/pharmpy/workflows/dispatchers/local_dask/optimize.py', edit_node('_scatter_computation', lambda n, seg: isinstance(n, ast.Subscript) and seg == 'computation[1:]', lambda seg: 'reversed(computation[1:])'), 'W2', 'arguments reversed'),
    Mutant('inplace_relabel', W, edit_node('WorkflowBuilder.replace_task', lambda n, seg: isinstance(n, ast.keyword) and n.arg == 'copy', lambda seg: 'copy=False'), 'W4', 'in place relabel'),
    Mutant('sorted_predecessors', W, edit_node('WorkflowBuilder.insert_workflow', stmt_containing('output_tasks = predecessors'), lambda seg: 'output_tasks = sorted(predecessors, key=lambda t: t.name)'), 'W4', 'predecessors re-sorted'),
    Mutant('too_many_static', 'src/pharmpy/tools/modelsearch/algorithms.py', edit_node('exhaustive', lambda n, seg: isinstance(n, ast.Name) and seg == 'allometry' and isinstance(n.ctx, ast.Load), lambda seg: 'allometry, None, None', 0), 'W5', 'more static inputs than parameters'),
]
