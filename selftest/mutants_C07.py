from .harness import Mutant, edit_node, stmt_containing, compound_containing, to_pass, sub, is_call
import ast
def text_edit(old, new):
    def edit(src):
        return src.replace(old, new, 1) if old in src else None
    return edit
MUTANTS = [
    Mutant('declarative_ode_unsubstituted', 'src/pharmpy/modeling/expressions.py', text_edit("            s = s.subs(current)\n            newstats.append(s)", "            newstats.append(s)"), 'F8', 'ODE system emitted without pending substitutions'),
    Mutant('pop_pred_iiv_only', 'src/pharmpy/modeling/expressions.py', text_edit("{Expr.symbol(eta): 0 for eta in model.random_variables.etas.names}", "{Expr.symbol(eta): 0 for eta in model.random_variables.iiv.names}"), 'F9', 'IOV etas left in the population prediction'),
    Mutant('eta_gradient_prefers_stored', 'src/pharmpy/modeling/evaluation.py', text_edit("    if etas is not None:\n        _etas = etas\n    elif model.initial_individual_estimates is not None:\n        _etas = model.initial_individual_estimates\n    else:", "    _etas = model.initial_individual_estimates\n    if _etas is None:\n        _etas = etas\n    if _etas is None:"), 'F5', 'stored estimates win over the argument'),
    Mutant('assumptions_swapped', 'src/pharmpy/modeling/expressions.py', text_edit("            s = sympy.Symbol(p.name, real=True, nonnegative=True)", "            s = sympy.Symbol(p.name, real=True, positive=True)"), 'F6', 'lower >= 0 treated as positive'),
    Mutant('kept_symbols_not_defined', 'src/pharmpy/model/external/nonmem/records/code_record.py', text_edit("                for s in statements:\n                    if isinstance(s, Assignment):\n                        defined_symbols.add(s.symbol)\n", ""), 'F7', 'kept statements not recorded'),
    Mutant('obs_first_assignment', 'src/pharmpy/modeling/expressions.py', text_edit("    for i in range(len(stats) - 1, -1, -1):\n        s = stats[i]\n        if isinstance(s, Assignment) and s.symbol == dv:", "    for i in range(len(stats)):\n        s = stats[i]\n        if isinstance(s, Assignment) and s.symbol == dv:"), 'F3', 'first assignment of the DV'),
    Mutant('obs_full_expression', 'src/pharmpy/modeling/expressions.py', text_edit("    for j in range(i - 1, -1, -1):\n        y = y.subs({stats[j].symbol: stats[j].expression})\n\n    return y", "    return stats.full_expression(y)"), 'F3', 'later definitions substituted'),
    Mutant('declarative_drops_subs', 'src/pharmpy/modeling/expressions.py', text_edit("            s = s.subs(current)\n            newstats.append(s)", "            s.subs(current)\n            newstats.append(s)"), 'F4', 'result of subs dropped'),
    Mutant('generic_drops_obs_trans', 'src/pharmpy/model/external/generic/generic.py', text_edit("        observation_transformation=model.observation_transformation,\n", ""), 'F2', 'field not carried over'),
    Mutant('rename_forgets_parameters', 'src/pharmpy/modeling/common.py', text_edit("        parameters=Parameters.create(new),\n        statements=model.statements.subs(d),", "        statements=model.statements.subs(d),"), 'F1', 'parameters not renamed'),
]
