from .harness import Mutant, edit_node, stmt_containing, compound_containing, to_pass, sub, is_call
import ast
def text_edit(old, new):
    def edit(src):
        return src.replace(old, new, 1) if old in src else None
    return edit
MUTANTS = [
    Mutant('rename_forgets_parameters', 'src/pharmpy/modeling/common.py', text_edit("        parameters=Parameters.create(new),\n        statements=model.statements.subs(d),", "        statements=model.statements.subs(d),"), 'F1', 'parameters not renamed'),
]
