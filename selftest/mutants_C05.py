from .harness import Mutant, edit_node, stmt_containing, compound_containing, to_pass, sub, is_call
import ast
F = 'src/pharmpy/model/statements.py'
O = 'src/pharmpy/modeling/odes.py'
def text_edit(old, new):
    def edit(src):
        return src.replace(old, new, 1) if old in src else None
    return edit
MUTANTS = [
    Mutant('order_extend_all', 'src/pharmpy/model/statements.py', text_edit("            for c in connected:\n                if c not in nodes:\n                    nodes.append(c)\n                    if c != comp:\n                        remaining.remove(c)", "            new = [c for c in connected if c not in nodes]\n            nodes.extend(connected)\n            remaining = [c for c in remaining if c not in new]"), 'O9', 'duplicates in the ordering'),
    Mutant('to_dict_canonical_order', 'src/pharmpy/model/statements.py', text_edit("        comps = [comp for comp in self._g.nodes]", "        comps = [output] + self._order_compartments()"), 'O10', 'serialised order differs from insertion order'),
    Mutant('amounts_insertion_order', F, edit_node('CompartmentalSystem.amounts', lambda n, seg: isinstance(n, ast.Call) and seg == 'self._order_compartments()',
           lambda seg: 'list(_comps(self._g))'), 'O1', 'amounts enumerates the node set'),
    Mutant('eqs_minus_inputs', F, edit_node('CompartmentalSystem.eqs', lambda n, seg: isinstance(n, ast.BinOp) and seg == 'self.compartmental_matrix @ amount_funcs + inputs',
           lambda seg: 'self.compartmental_matrix @ amount_funcs - inputs'), 'O1', 'inputs subtracted'),
    Mutant('matrix_transposed', F, edit_node('CompartmentalSystem.compartmental_matrix', stmt_containing('f[j, i] = rate'), sub('f[j, i]', 'f[i, j]')), 'O2', 'transposed store'),
    Mutant('diag_plus', F, edit_node('CompartmentalSystem.compartmental_matrix', stmt_containing('diagsum -= rate'), sub('-=', '+=')), 'O2', 'sign of outflows'),
    Mutant('diag_no_output', F, edit_node('CompartmentalSystem.compartmental_matrix', stmt_containing('f[i, i] = diagsum - outrate'), sub(' - outrate', '')), 'O2', 'output flow dropped'),
    Mutant('relabel_copy', F, edit_node('CompartmentalSystemBuilder.set_lag_time', lambda n, seg: isinstance(n, ast.keyword) and n.arg == 'copy', lambda seg: 'copy=True'), 'O3', 'relabel result discarded'),
    Mutant('no_freeze', F, edit_node('CompartmentalSystem.__init__', lambda n, seg: isinstance(n, ast.Call) and seg.startswith('nx.freeze('), lambda seg: 'builder._g'), 'O3', 'shares the builder graph'),
    Mutant('todict_key', F, edit_node('CompartmentalSystem.to_dict', lambda n, seg: isinstance(n, ast.Constant) and seg == "'rates'", lambda seg: "'flows'"), 'O4', 'key renamed on the writer side only'),
    Mutant('order_from_set', F, edit_node('CompartmentalSystem._order_compartments', lambda n, seg: isinstance(n, ast.Call) and seg.startswith('sorted(remaining_with_input'),
           lambda seg: 'list(remaining_with_input)'), 'O5', 'sorted dropped'),
    Mutant('subs_filter', F, edit_node('CompartmentalSystem.subs', lambda n, seg: isinstance(n, ast.DictComp),
           lambda seg: seg[:-1] + ' if comp.free_symbols & set(substitutions)}'), 'O6', 'subs skips compartments'),
    Mutant('stale_in_add_flow', F, edit_node('to_compartmental_system', stmt_containing('cb.add_flow(from_comp, output'),
           lambda seg: 'cb.set_input(from_comp, i)\n                ' + seg), 'O7', 'stale compartment used in add_flow'),
]
