from .harness import Mutant, edit_node, stmt_containing, compound_containing, to_pass, sub, is_call
import ast
T = 'src/pharmpy/model/external/nonmem/table.py'
R = 'src/pharmpy/tools/external/nonmem/results.py'
W = 'src/pharmpy/workflows/results.py'
def text_edit(old, new):
    def edit(src):
        return src.replace(old, new, 1) if old in src else None
    return edit
MUTANTS = [
    Mutant('cov_fix_isclose', 'src/pharmpy/model/external/nonmem/table.py', text_edit("        df = df.loc[(df != 0).any(axis=1), (df != 0).any(axis=0)]  # Remove FIX", "        nonzero = ~np.isclose(df.to_numpy(dtype=float), 0.0)\n        df = df.loc[nonzero.any(axis=1), nonzero.any(axis=0)]  # Remove FIX"), 'Z10', 'tolerance drops small parameters'),
    Mutant('etc_triu_fill', 'src/pharmpy/model/external/nonmem/table.py', text_edit("        matrix_array = [flattened_to_symmetric(x) for x in vals]", "        n_ = len(eta_col_names)\n        cols_, rows_ = np.triu_indices(n_)\n        matrix_array = []\n        for x in vals:\n            m_ = np.zeros((n_, n_))\n            m_[rows_, cols_] = x\n            m_[cols_, rows_] = x\n            matrix_array.append(m_)"), 'Z11', 'column-major fill'),
    Mutant('table_block_cleared', 'src/pharmpy/tools/external/nonmem/results_file.py', text_edit("                if bool(block):\n                    yield (table_number, block)\n                block = {}", "                if bool(block):\n                    yield (table_number, block)\n                    block.clear()"), 'Y0', 'yielded dict reused'),
    Mutant('mu_inits_override', 'src/pharmpy/tools/external/nonmem/results.py', text_edit("value = expr.subs(dict(pe)).subs(model.parameters.inits)", "value = expr.subs({**dict(pe), **model.parameters.inits})"), 'Z8', 'inits override final estimates'),
    Mutant('phi_etas_own_filter', 'src/pharmpy/model/external/nonmem/table.py', text_edit("        df = self._df\n        df = df.loc[df.iloc[:, 2:].any(axis=1)]\n        eta_col_names = [col for col in df if col.startswith('ETA') or col.startswith('PHI')]\n        etas = df[eta_col_names]", "        df = self._df\n        eta_col_names = [col for col in df if col.startswith('ETA') or col.startswith('PHI')]\n        df = df.loc[df[eta_col_names].any(axis=1)]\n        etas = df[eta_col_names]"), 'Z9', 'view with another row filter'),
    Mutant('se_wrong_code', T, edit_node('ExtTable.standard_errors', lambda n, seg: isinstance(n, ast.UnaryOp) and seg == '-1000000001', lambda seg: '-1000000002'), 'Z1', 'eigenvalue row as SE'),
    Mutant('fixed_wrong_code', T, edit_node('ExtTable.fixed', lambda n, seg: isinstance(n, ast.UnaryOp) and seg == '-1000000006', lambda seg: '-1000000005'), 'Z1', 'wrong row for fixed flags'),
    Mutant('final_from_last_iteration', T, edit_node('ExtTable.final_ofv', lambda n, seg: isinstance(n, ast.Try), lambda seg: 'ser = self._get_ofv(max(self.iterations))'), 'Z1', 'last printed iteration reported as final'),
    Mutant('path_whole_dict', W, edit_node('ResultsJSONDecoder.object_hook', lambda n, seg: isinstance(n, ast.Call) and seg == "Path(obj['path'])", lambda seg: 'Path(obj)'), 'Z2', 'payload key not read'),
    Mutant('encoder_key_renamed', W, edit_node('ResultsJSONEncoder.default', lambda n, seg: isinstance(n, ast.Constant) and seg == "'dtype'", lambda seg: "'type'"), 'Z2', 'payload key renamed on one side'),
    Mutant('no_log_branch', W, edit_node('ResultsJSONDecoder.object_hook', compound_containing("if cls == 'Log'", ast.If), lambda seg: 'pass'), 'Z2', 'Log not decoded'),
    Mutant('index_not_renamed', T, edit_node('NONMEMTable.rename_index', lambda n, seg: isinstance(n, ast.Constant) and seg == "r'THETA(\\1)'", lambda seg: "r'THETA\\1'", 1), 'Z3', 'index keeps old labels'),
    Mutant('header_groups_swapped', T, edit_node('NONMEMTableFile._parse_table', lambda n, seg: isinstance(n, ast.Constant) and seg == '7', lambda seg: '8'), 'Z4', 'counter from the wrong group'),
    Mutant('slice_after_drop', R, edit_node('_parse_parameter_estimates', lambda n, seg: isinstance(n, ast.Call) and seg == '_get_iter_df(table.data_frame)', lambda seg: "_get_iter_df(table.data_frame).drop(columns=['OBJ'])"), 'Z5', 'layout changed before positional slice'),
    Mutant('first_phi_table', R, edit_node('_parse_phi', lambda n, seg: isinstance(n, ast.Call) and seg == 'reversed(phi_tables.tables)', lambda seg: 'phi_tables.tables'), 'Z6', 'first step instead of last'),
]
