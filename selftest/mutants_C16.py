from .harness import Mutant, edit_node, stmt_containing, compound_containing, to_pass, sub, is_call
import ast
D = 'src/pharmpy/workflows/model_database/local_directory.py'
B = 'src/pharmpy/workflows/model_database/baseclass.py'
C = 'src/pharmpy/workflows/contexts/local_directory.py'
def text_edit(old, new):
    def edit(src):
        return src.replace(old, new, 1) if old in src else None
    return edit
MUTANTS = [
    Mutant('next_without_default', 'src/pharmpy/workflows/model_database/local_directory.py', text_edit("hpath = next(h_dir.iterdir(), None) if h_dir.is_dir() else None", "hpath = next(h_dir.iterdir()) if h_dir.is_dir() else None"), 'K3', 'empty index directory crashes later stores'),
    Mutant('annotations_shared_file', 'src/pharmpy/workflows/contexts/local_directory.py', text_edit("        return self.path / 'annotations'", "        return self._top_path / 'annotations'"), 'K9', 'annotations shared by all contexts'),
    Mutant('commit_in_finally', D, edit_node('LocalModelDirectoryDatabase.transaction', stmt_containing('yield LocalModelDirectoryDatabaseTransaction'),
           lambda seg: 'try:\n                ' + seg + '\n            finally:\n                path.unlink()'), 'K1', 'marker removed although body raised'),
    Mutant('no_commit', D, edit_node('LocalModelDirectoryDatabase.transaction', stmt_containing('path.unlink()'), to_pass), 'K1', 'marker never removed'),
    Mutant('marker_after_yield', D, edit_node('LocalModelDirectoryDatabase.transaction', stmt_containing('path.touch(exist_ok=False)'), to_pass), 'K1', 'marker not created'),
    Mutant('snapshot_ignores_marker', D, edit_node('LocalModelDirectoryDatabase.snapshot', compound_containing('if path.exists()', ast.If),
           lambda seg: seg.replace('path.exists()', 'False', 1)), 'K1', 'snapshot does not test the marker'),
    Mutant('write_lock_shared', D, edit_node('LocalModelDirectoryDatabase._write_lock', lambda n, seg: isinstance(n, ast.keyword) and n.arg == 'shared',
           lambda seg: 'shared=True'), 'K1', 'transactions under a shared lock'),
    Mutant('txn_outside', B, edit_node('TransactionalModelDatabase.store_metadata', lambda n, seg: isinstance(n, ast.Attribute) and seg == 'txn.store_metadata',
           lambda seg: 'txn.store_model_entry'), 'K2', 'wrapper calls a different method'),
    Mutant('index_first', D, edit_node('LocalModelDirectoryDatabaseTransaction.store_model', stmt_containing('datasets_path.mkdir(parents=True, exist_ok=True)'),
           lambda seg: seg + '\n            h_dir.mkdir(parents=True, exist_ok=True)'), 'K3', 'index directory created before the content'),
    Mutant('model_before_data', D, edit_node('LocalModelDirectoryDatabaseTransaction.store_model', compound_containing('if hpath is not None', ast.If),
           lambda seg: "model_path.mkdir(exist_ok=True)\n        write_model(model, model_path / ('model' + model.filename_extension), force=True)\n        " + seg), 'K3',
           'model file (short-circuit marker) written before the dataset'),
    Mutant('truncate_annotations', C, edit_node('LocalDirectoryContext.store_annotation', lambda n, seg: isinstance(n, ast.Name) and seg == 'tmp_path' and isinstance(n.ctx, ast.Load),
           lambda seg: 'path', 0), 'K4', 'rewrite in place again'),
    Mutant('unlocked_log_write', C, edit_node('LocalDirectoryContext.store_message', compound_containing('with self._write_lock(log_path)', ast.With),
           lambda seg: seg.replace('with self._write_lock(log_path)', 'if True', 1)), 'K5', 'log append without lock'),
    Mutant('read_lock_for_write', C, edit_node('LocalDirectoryContext.store_message', lambda n, seg: isinstance(n, ast.Attribute) and seg == 'self._write_lock',
           lambda seg: 'self._read_lock'), 'K5', 'append under shared lock'),
    Mutant('unquoted_message', C, edit_node('LocalDirectoryContext.store_message', lambda n, seg: isinstance(n, ast.Call) and seg == 'mangle_message(message)',
           lambda seg: 'message'), 'K6', 'message unquoted'),
    Mutant('prefix_match', C, edit_node('LocalDirectoryContext.retrieve_annotation', lambda n, seg: isinstance(n, ast.Compare) and seg == 'a[0] == name',
           lambda seg: 'line.startswith(name)'), 'K7', 'prefix match of the record key'),
    Mutant('sorted_log_keys', 'src/pharmpy/workflows/log.py', edit_node('Log.from_dict', lambda n, seg: isinstance(n, ast.Call) and seg == 'd.values()',
           lambda seg: '[d[k] for k in sorted(d)]'), 'K8', 'lexicographic key order'),
    Mutant('snapshot_self_name', 'src/pharmpy/workflows/model_database/local_directory.py', edit_node('LocalModelDirectoryDatabaseSnapshot.retrieve_file', lambda n, seg: isinstance(n, ast.Attribute) and seg == 'self.key', lambda seg: 'self.name', -1), 'Y0', 'attribute a snapshot does not have (regression of ffb73dc)'),
]
