from .harness import Mutant, edit_node, stmt_containing, sub
import ast
O = 'src/pharmpy/modeling/odes.py'
E = 'src/pharmpy/tools/mfl/feature/elimination.py'
A = 'src/pharmpy/tools/mfl/feature/absorption.py'
P = 'src/pharmpy/tools/mfl/parse.py'
def text_edit(old, new):
    def edit(src):
        return src.replace(old, new, 1) if old in src else None
    return edit
MUTANTS = [
    Mutant('transit_bio_after_reset', O, text_edit("        comp = cb.set_bioavailability(comp, dosing_comp.bioavailability)\n        dosing_comp = cb.set_bioavailability(dosing_comp, Expr.integer(1))", "        dosing_comp = cb.set_bioavailability(dosing_comp, Expr.integer(1))\n        comp = cb.set_bioavailability(comp, dosing_comp.bioavailability)"), 'T8', 'copy after reset'),
    Mutant('additional_closure_removed', 'src/pharmpy/model/statements.py', text_edit("        for add in additional.copy():\n            additional |= set(nx.dfs_preorder_nodes(graph, add))\n", ""), 'T9', 'protecting set not closed'),
    Mutant('inst_stale_system', O, text_edit("            # NOTE: The model could have been changed above\n            statements = model.statements\n            cs = get_and_check_odes(model)\n", ""), 'T7', 'system read before the model was re-bound'),
    Mutant('zo_abs_lagtime_unbound', O, text_edit("            to_comp = cb.set_lag_time(to_comp, depot.lag_time)\n            cb.set_bioavailability(to_comp, depot.bioavailability)", "            cb.set_lag_time(to_comp, depot.lag_time)\n            cb.set_bioavailability(to_comp, depot.bioavailability)"), 'T4', 'returned compartment dropped'),
    Mutant('find_depot_break', 'src/pharmpy/model/statements.py', text_edit("                if metabolite is None or not self.get_flow(to_central, metabolite):\n                    continue", "                if metabolite is None or not self.get_flow(to_central, metabolite):\n                    break"), 'T5', 'search stops at a rejected candidate'),
    Mutant('peripheral_lambda_late', 'src/pharmpy/tools/mfl/feature/peripherals.py', text_edit("partial(set_peripheral_compartments, n=count)", "lambda model: set_peripheral_compartments(model, n=count)"), 'T6', 'late-binding lambda'),
    Mutant('elim_setters_swapped', E, text_edit("yield ('ELIMINATION', mode.name), set_zero_order_elimination", "yield ('ELIMINATION', mode.name), set_michaelis_menten_elimination"), 'T1', 'ZO dispatches to the MM setter'),
    Mutant('abs_setters_swapped', A, text_edit("yield ('ABSORPTION', mode.name), set_first_order_absorption", "yield ('ABSORPTION', mode.name), set_instantaneous_absorption"), 'T1', 'FO dispatches to INST'),
    Mutant('detector_strings_swapped', P, text_edit('elif has_zero_order_elimination(model):\n        elimination = "ZO"', 'elif has_zero_order_elimination(model):\n        elimination = "MM"'), 'T1', 'zero order reported as MM'),
    Mutant('mm_overlaps_mix', O, edit_node('has_michaelis_menten_elimination', stmt_containing('return is_nonlinear and not is_zero_order'), sub(' and not could_be_mixed', '')), 'T2', 'MM true for mixed models as well'),
    Mutant('zo_atom_differs', O, edit_node('has_zero_order_elimination', stmt_containing("is_zero_order = 'POP_KM' in"), sub(" and model.parameters['POP_KM'].fix", '')), 'T2', 'zero order no longer requires KM fixed'),
    Mutant('fo_always', O, edit_node('has_first_order_elimination', stmt_containing('return not is_nonlinear'), sub('return not is_nonlinear', 'return not is_nonlinear or could_be_mixed')), 'T2', 'FO overlaps MIX'),
    Mutant('mm_setter_asserts_odes', 'src/pharmpy/modeling/odes.py', text_edit("    sset = model.statements\n    odes = get_and_check_odes(model)\n    central = odes.central_compartment\n    old_rate", "    sset = model.statements\n    odes = sset.ode_system\n    assert isinstance(odes, CompartmentalSystem)\n    central = odes.central_compartment\n    old_rate"), 'T10', 'assert instead of the documented refusal'),
]
