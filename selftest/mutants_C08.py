from .harness import Mutant, edit_node, stmt_containing, sub
import ast
O = 'src/pharmpy/modeling/odes.py'
E = 'src/pharmpy/tools/mfl/feature/elimination.py'
A = 'src/pharmpy/tools/mfl/feature/absorption.py'
P = 'src/pharmpy/tools/mfl/parse.py'
def text_edit(old, new):
    def edit(src):
        return src.replace(old, new, 1) if old in src else None
    return edit
MUTANTS = [
    Mutant('elim_setters_swapped', E, text_edit("yield ('ELIMINATION', mode.name), set_zero_order_elimination", "yield ('ELIMINATION', mode.name), set_michaelis_menten_elimination"), 'T1', 'ZO dispatches to the MM setter'),
    Mutant('abs_setters_swapped', A, text_edit("yield ('ABSORPTION', mode.name), set_first_order_absorption", "yield ('ABSORPTION', mode.name), set_instantaneous_absorption"), 'T1', 'FO dispatches to INST'),
    Mutant('detector_strings_swapped', P, text_edit('elif has_zero_order_elimination(model):\n        elimination = "ZO"', 'elif has_zero_order_elimination(model):\n        elimination = "MM"'), 'T1', 'zero order reported as MM'),
    Mutant('mm_overlaps_mix', O, edit_node('has_michaelis_menten_elimination', stmt_containing('return is_nonlinear and not is_zero_order'), sub(' and not could_be_mixed', '')), 'T2', 'MM true for mixed models as well'),
    Mutant('zo_atom_differs', O, edit_node('has_zero_order_elimination', stmt_containing("is_zero_order = 'POP_KM' in"), sub(" and model.parameters['POP_KM'].fix", '')), 'T2', 'zero order no longer requires KM fixed'),
    Mutant('fo_always', O, edit_node('has_first_order_elimination', stmt_containing('return not is_nonlinear'), sub('return not is_nonlinear', 'return not is_nonlinear or could_be_mixed')), 'T2', 'FO overlaps MIX'),
]
