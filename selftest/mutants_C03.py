from .harness import Mutant, edit_node, stmt_containing, compound_containing, to_pass, sub, is_call
import ast
R = 'src/pharmpy/model/external/nonmem/records/'
def text_edit(old, new):
    def edit(src):
        return src.replace(old, new, 1) if old in src else None
    return edit
MUTANTS = [
    Mutant('insert_pos_before_interleaved', 'src/pharmpy/model/external/nonmem/records/code_record.py', (lambda src: src.replace("            # NOTE: We copy interleaved non-statement nodes\n            new_children.extend(self.root.children[last_node_index:ni])", "            # NOTE: We copy interleaved non-statement nodes\n            insert_pos = len(new_children)\n            new_children.extend(self.root.children[last_node_index:ni])", 1).replace("                # NOTE: We keep the nodes but insert them at an updated position\n                insert_pos = len(new_children)\n", "                # NOTE: We keep the nodes but insert them at an updated position\n", 1) if "                # NOTE: We keep the nodes but insert them at an updated position\n                insert_pos = len(new_children)\n" in src else None), 'S9', 'position taken before the interleaved nodes'),
    Mutant('create_record_cached', 'src/pharmpy/model/external/nonmem/records/factory.py', text_edit("def create_record(chunk: str):", "from functools import lru_cache\n\n\n@lru_cache(maxsize=1024)\ndef create_record(chunk: str):"), 'S10', 'memoised record factory'),
    Mutant('drop_keep_all_tokens', 'src/pharmpy/internals/parse/generic.py', edit_node('GenericParser', lambda n, seg: isinstance(n, ast.keyword) and n.arg == 'keep_all_tokens', lambda seg: 'keep_all_tokens=False'), 'S1', 'tokens filtered'),
    Mutant('class_overrides_placeholders', R + 'parsers.py', edit_node('OptionRecordParser', lambda n, seg: isinstance(n, ast.keyword) and n.arg == 'propagate_positions', lambda seg: seg + ', maybe_placeholders=True'), 'S1', 'placeholders on'),
    Mutant('no_with_ignored', R + 'parsers.py', edit_node('DataRecordParser', lambda n, seg: isinstance(n, ast.Assign) and seg.startswith('post_process'), lambda seg: 'post_process = ()'), 'S2', 'ignored tokens not re-inserted'),
    Mutant('ignore_in_problem_grammar', R + 'grammars/problem_record.lark', text_edit('\n', '\n%ignore /[ ]+/\n'), 'S2', '%ignore without re-insertion'),
    Mutant('ignore_unknown_char', R + 'grammars/option_record.lark', text_edit('%ignore WS', '%ignore WS\n%ignore /#[^\\n]*/'), 'S3', 'ignored text the re-tokeniser does not know'),
    Mutant('split_not_captured', 'src/pharmpy/model/external/nonmem/nmtran_parser.py', edit_node('NMTranParser.parse', lambda n, seg: isinstance(n, ast.Constant) and '$' in seg and '(' in seg, lambda seg: "r'^[ \\t]*(\\$)'"), 'S4', 'indentation before $ dropped'),
    Mutant('preamble_stripped', 'src/pharmpy/model/external/nonmem/nmtran_parser.py', edit_node('NMTranParser.parse', compound_containing('if first:', ast.If), lambda seg: seg.replace('if first:', 'if first.strip():', 1)), 'S4', 'blank preamble dropped'),
    Mutant('name_split_first_line', R + 'factory.py', edit_node('split_raw_record_name', lambda n, seg: isinstance(n, ast.keyword) and n.arg == 'flags', lambda seg: 'flags=re.MULTILINE'), 'S4', 'content after first line lost'),
    Mutant('str_strips', R + 'record.py', edit_node('Record.__str__', lambda n, seg: isinstance(n, ast.Return), lambda seg: 'return self.raw_name + str(self.root).rstrip() + "\\n"'), 'S5', 'normalising __str__'),
    Mutant('record_value_eq', R + 'raw_record.py', edit_node('RawRecord', lambda n, seg: isinstance(n, ast.FunctionDef) and n.name == '__str__', lambda seg: seg + '\n\n    def __eq__(self, other):\n        return str(self) == str(other)'), 'S5', 'value equality on records'),
    Mutant('data_reset_unconditional', 'src/pharmpy/model/external/nonmem/model.py', edit_node('Model.update_source', lambda n, seg: isinstance(n, ast.BoolOp) and seg.startswith('updated_dataset') and 'old_datainfo' in seg, lambda seg: 'True'), 'S6', '$DATA reset although nothing changed'),
    Mutant('hoisted_insert_pos', R + 'code_record.py', edit_node('CodeRecord.update_statements', stmt_containing('insert_pos = len(new_children)'), to_pass, 0), 'S8', 'position computed once'),
    Mutant('empty_index_entry', R + 'code_record.py', edit_node('_parse_tree', lambda n, seg: isinstance(n, ast.If) and seg.startswith('if symbols:') and 'curind' in seg, lambda seg: 'if True:' + seg[len('if symbols:'):], 0), 'S16', 'index entry for a block without statements (regression of a99e6a5)'),
    Mutant('replace_all_every_problem', 'src/pharmpy/model/external/nonmem/nmtran_parser.py', edit_node('NMTranControlStream.replace_all', lambda n, seg: isinstance(n, ast.If) and seg.startswith("if rec.name == 'PROBLEM'"), to_pass, 0), 'S18', 'problem boundaries ignored (regression of 6502ecb)'),
]
