from .harness import Mutant, edit_node, stmt_containing, compound_containing, to_pass, sub, is_call
import ast
F = 'src/pharmpy/internals/fs/lock.py'
def text_edit(old, new):
    def edit(src):
        return src.replace(old, new, 1) if old in src else None
    return edit
MUTANTS = [
    Mutant('relock_on_mode_difference', 'src/pharmpy/internals/fs/lock.py', text_edit("(is_held_shared and not shared and not is_windows)", "(is_held_shared != shared and not is_windows)"), 'L12', 'downgrade while exclusively held'),
    Mutant('downgrade_with_acquire_args', 'src/pharmpy/internals/fs/lock.py', text_edit("_process_level_lock(self._fd, shared=True, blocking=True)", "_process_level_lock(self._fd, shared, blocking)"), 'L10', 'downgrade re-locks exclusively'),
    Mutant('caller_opens_lock_file', 'src/pharmpy/workflows/model_database/local_directory.py', text_edit("        path = self.path / FILE_LOCK\n        path.touch(exist_ok=True)\n        return path_lock(str(path), shared=True)", "        path = self.path / FILE_LOCK\n        with open(path, 'a'):\n            pass\n        return path_lock(str(path), shared=True)"), 'L11', 'second descriptor on the lock file'),
    Mutant('drop_release_sh_entry', F, edit_node('ShareableThreadLock._lock_sh', stmt_containing('self._condition.release()'), to_pass, 0),
           'L1', 'release of the condition after the entry bookkeeping deleted'),
    Mutant('drop_notify', F, edit_node('ShareableThreadLock._lock_sh', stmt_containing('notify_all'), to_pass), 'L5b',
           'notify_all removed: lost wake-up'),
    Mutant('conditional_notify', F, edit_node('ShareableThreadLock._lock_sh', stmt_containing('notify_all'),
           lambda seg: 'if not self._acquired_by:\n                        ' + seg), 'L5b', 'notify only when table empty (the original defect)'),
    Mutant('while_to_if_wait', F, edit_node('ShareableThreadLock._lock_ex', compound_containing('while self._acquired_by', ast.While),
           lambda seg: seg.replace('while', 'if', 1)), 'L5a', 'wait() no longer in a loop'),
    Mutant('drop_acquired_guard', F, edit_node('ShareableThreadLock._lock_ex', compound_containing('if acquired', ast.If),
           lambda seg: seg.replace('if acquired', 'if True', 1)), 'L3', 'decrement without the acquired flag'),
    Mutant('unlocked_counter_update', F, edit_node('ShareableProcessLock.lock', compound_containing('with self._lock', ast.With),
           lambda seg: seg.replace('with self._lock', 'if True', 1)), 'L2', 'exit bookkeeping outside the lock'),
    Mutant('dec_wrong_table', F, edit_node('ShareableProcessLock.lock', stmt_containing('self._shared_by[thread_id] -= 1'),
           sub('_shared_by', '_exclusively_held_by')), 'L3', 'decrement the other table'),
    Mutant('no_gc_of_zero', F, edit_node('ShareableThreadLock._lock_sh', stmt_containing('del self._acquired_by[thread_id]'), to_pass), 'L3',
           'zero entries not deleted'),
    Mutant('close_outside_pool', F, edit_node('process_level_path_lock', stmt_containing('yield fd'),
           lambda seg: seg + '\n            os.close(fd)'), 'L6', 'raw close outside the pool'),
    Mutant('refcount_zero', F, edit_node('ThreadSafeKeyedRefPool.__call__', lambda n, seg: isinstance(n, ast.Compare) and seg == 'refcount == 1',
           lambda seg: 'refcount == 0'), 'L6', 'destructor guard off by one'),
    Mutant('double_yield', F, edit_node('thread_level_lock', stmt_containing('yield'), lambda seg: seg + '\n            yield'), 'L7', 'second yield'),
    Mutant('class_level_counter', F, edit_node('ShareableProcessLock', lambda n, seg: isinstance(n, ast.FunctionDef) and n.name == '__init__',
           lambda seg: '_shared_by = Counter()\n\n    ' + seg.replace('self._shared_by: Counter[int] = Counter()', 'pass')), 'L8', 'shared class-level counter'),
    Mutant('unlock_before_upgrade', F, edit_node('ShareableProcessLock.lock', stmt_containing('_process_level_lock(self._fd, shared, blocking)'),
           lambda seg: 'if is_held: _process_level_unlock(self._fd)\n                    ' + seg), 'L9', 'unlock before re-lock on upgrade'),
]
