from .harness import Mutant, edit_node, stmt_containing, compound_containing, to_pass, sub, is_call
import ast
D = 'src/pharmpy/model/external/nonmem/dataset.py'
def text_edit(old, new):
    def edit(src):
        return src.replace(old, new, 1) if old in src else None
    return edit
MUTANTS = [
    Mutant('write_csv_rounded', 'src/pharmpy/modeling/write_csv.py', text_edit("na_rep=model.datainfo.missing_data_token, index=False)", "na_rep=model.datainfo.missing_data_token, index=False, float_format='%.15g')"), 'R8', 'rounded output'),
    Mutant('filters_removed_unconditionally', 'src/pharmpy/model/external/nonmem/model.py', text_edit("            if rewritten or model.datainfo.path != model.internals.old_datainfo.path:\n", "            if True or rewritten:\n"), 'R7', 'filters removed although the file reference stays'),
    Mutant('write_csv_global_token', 'src/pharmpy/modeling/write_csv.py', text_edit("na_rep=model.datainfo.missing_data_token", "na_rep=conf.missing_data_token"), 'R5', 'global token'),
    Mutant('obs_lookup_order', 'src/pharmpy/model/external/nonmem/parsing.py', text_edit("        label = di.typeix['mdv'][0].name\n    except IndexError:\n        try:\n            label = di.typeix['event'][0].name", "        label = di.typeix['event'][0].name\n    except IndexError:\n        try:\n            label = di.typeix['mdv'][0].name"), 'R6', 'EVID before MDV'),
    Mutant('ne_numeric', D, text_edit('OP_STR_NE: ".NE." | "/="', 'OP_STR_NE: "/="').__call__ and text_edit('OP_NE    : ".NEN."\n        OP_STR_NE: ".NE." | "/="', 'OP_NE    : ".NEN." | ".NE."\n        OP_STR_NE: "/="'), 'R1', '.NE. compared numerically'),
    Mutant('le_is_lt', D, edit_node('_filter_ignore_accept', lambda n, seg: isinstance(n, ast.Constant) and seg == "'<='", lambda seg: "'<'"), 'R1', '.LE. filters as .LT.'),
    Mutant('missing_branch', D, edit_node('_filter_ignore_accept', lambda n, seg: isinstance(n, ast.Constant) and seg == "'OP_GT_EQ'", lambda seg: "'OP_GE'"), 'R1', 'token type without branch'),
    Mutant('defaults_hoisted', D, edit_node('_filter_ignore_accept', stmt_containing("operator = '=='"), to_pass, 0), 'R1', 'operator default not reset per filter'),
    Mutant('limit_25', D, edit_node('_convert_data_item', lambda n, seg: isinstance(n, ast.Compare) and seg == 'len(x) > 24', lambda seg: 'len(x) > 25'), 'R2', 'length limit off by one'),
    Mutant('dot_not_null', D, edit_node('_convert_data_item', lambda n, seg: isinstance(n, ast.Constant) and seg == "'.'", lambda seg: "'..'"), 'R2', 'dot is not NULL'),
    Mutant('fortran_prefix_match', D, edit_node('convert_fortran_number', lambda n, seg: isinstance(n, ast.Attribute) and seg == 're.fullmatch', lambda seg: 're.match'), 'R10', 'a+b pattern matched on a prefix (the defect repaired by 51731a2)'),
    Mutant('only_upper_D', D, edit_node('convert_fortran_number', lambda n, seg: isinstance(n, ast.Call) and seg.endswith('.replace("d", "e")'), lambda seg: seg[:-len('.replace("d", "e")')]), 'R2', 'lower case d exponent'),
    Mutant('no_update_input', 'src/pharmpy/model/external/nonmem/model.py', edit_node('Model.update_source', stmt_containing('cs = update_input(cs, model)'), to_pass), 'R3', '$INPUT not regenerated'),
    Mutant('csv_with_index', 'src/pharmpy/modeling/write_csv.py', edit_node('write_csv', lambda n, seg: isinstance(n, ast.keyword) and n.arg == 'index', lambda seg: 'index=True'), 'R3', 'index column written'),
    Mutant('sep_whitespace_class', D, edit_node('read_nonmem_dataset', lambda n, seg: isinstance(n, ast.Constant) and ', *' in seg, lambda seg: "r'\\s*,\\s*|\\t\\s*|\\s+'"), 'R4', 'separator swallows two delimiters'),
]
