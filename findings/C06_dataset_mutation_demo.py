"""Demonstration: M1 - public functions that wrote into the DataFrame of the model they were given."""
import sys, warnings
warnings.simplefilter('ignore')
from pharmpy.modeling import read_model, add_admid, add_cmt, convert_model, set_dataset
model = read_model('/repo/tests/testdata/nonmem/pheno_real.mod')
bad = []
for name, fn in (('add_admid', add_admid), ('add_cmt', add_cmt)):
    cols = list(model.dataset.columns)
    fn(model)
    if list(model.dataset.columns) != cols:
        bad.append(f'{name} changed the columns of its argument\'s dataset: {sorted(set(model.dataset.columns) - set(cols))}')
        model = read_model('/repo/tests/testdata/nonmem/pheno_real.mod')
# nonmem update._add_cmt via model.update_source (adding a second dose compartment needs a CMT column)
from pharmpy.modeling import add_peripheral_compartment, set_first_order_absorption, set_zero_order_absorption
from pharmpy.model.external.nonmem.update import _add_cmt
cols = list(model.dataset.columns)
_add_cmt(model)
if list(model.dataset.columns) != cols:
    bad.append('nonmem.update._add_cmt (reached from update_source) changed its argument\'s dataset')
    model = read_model('/repo/tests/testdata/nonmem/pheno_real.mod')
from pharmpy.model.external.nlmixr.model import add_evid
from pharmpy.model.external.nlmixr.sanity_checks import add_time
cols = list(model.dataset.columns)
add_evid(model)
if list(model.dataset.columns) != cols:
    bad.append('nlmixr add_evid changed its argument\'s dataset')
    model = read_model('/repo/tests/testdata/nonmem/pheno_real.mod')
before = model.dataset['TIME'].copy()
add_time(model)
if not model.dataset['TIME'].equals(before):
    bad.append('nlmixr add_time overwrote TIME in its argument\'s dataset')
print('PASS' if not bad else 'FAIL:\n  ' + '\n  '.join(bad))
sys.exit(1 if bad else 0)
