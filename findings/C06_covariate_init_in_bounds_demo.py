"""C06: objects returned by the API are well formed (initial value within bounds). Before the fix a linear covariate effect
on a covariate with a wide range was returned with init 0.001 > upper bound. Exit 0 = within bounds."""
import sys
import warnings
warnings.filterwarnings('ignore')
from pharmpy.modeling import add_covariate_effect, load_example_model

m = load_example_model('pheno')
df = m.dataset.copy()
df['APGR'] = df['APGR'] * 3000.0
m = m.replace(dataset=df)
bad = 0
for eff in ('lin', 'exp', 'pow', 'piece_lin'):
    m2 = add_covariate_effect(m, 'CL', 'APGR', eff)
    for p in m2.parameters:
        if p.name not in m.parameters.names:
            ok = p.lower <= p.init <= p.upper
            print(eff, repr(p), ok)
            bad += not ok
sys.exit(1 if bad else 0)
