"""Demonstration: K4 - annotations rewritten in place (truncate then write)."""
import sys, tempfile, shutil, builtins
from pathlib import Path
from unittest import mock
from pharmpy.workflows import LocalDirectoryContext
tmp = Path(tempfile.mkdtemp())
try:
    ctx = LocalDirectoryContext('ctx', tmp)
    ctx.store_annotation('run1', 'first model')
    class Crash(BaseException): pass
    real_open = builtins.open
    class TornFile:
        def __init__(self, fh): self.fh = fh
        def __enter__(self): return self
        def __exit__(self, *a): self.fh.close()
        def writelines(self, lines): raise Crash()      # process dies after the truncating open
        def write(self, s): raise Crash()
    def fake_open(p, mode='r', *a, **k):
        fh = real_open(p, mode, *a, **k)
        return TornFile(fh) if mode == 'w' and Path(p).name.startswith('annotations') else fh
    with mock.patch('builtins.open', fake_open):
        try:
            ctx.store_annotation('run2', 'second model')
        except Crash:
            pass
    try:
        ok = ctx.retrieve_annotation('run1') == 'first model'
        print('PASS' if ok else 'FAIL'); rc = 0 if ok else 1
    except KeyError as e:
        print('FAIL: committed annotation lost:', e); rc = 1
finally:
    shutil.rmtree(tmp)
sys.exit(rc)
