"""C02: going back to a bolus dose must drop the RATE column also when the model is written with $DES; before the fix the
data kept RATE=-2 although no D1 was defined any more. Exit 0 = RATE gone in both forms."""
import sys
import warnings
warnings.filterwarnings('ignore')
from pharmpy.modeling import (load_example_model, set_instantaneous_absorption, set_michaelis_menten_elimination,
                              set_zero_order_absorption)

bad = 0
for des in (False, True):
    m = load_example_model('pheno')
    if des:
        m = set_michaelis_menten_elimination(m)
    m = set_zero_order_absorption(m).update_source()
    assert 'RATE' in m.dataset.columns
    m2 = set_instantaneous_absorption(m).update_source()
    inp = [l for l in m2.code.splitlines() if l.startswith('$INPUT')][0]
    has_d1 = any(l.startswith('D1') for l in m2.code.splitlines())
    print('$DES' if des else 'ADVAN', '| RATE in data:', 'RATE' in m2.dataset.columns, '|', inp, '| D1 defined:', has_d1)
    bad += 'RATE' in m2.dataset.columns and not has_d1
sys.exit(1 if bad else 0)
