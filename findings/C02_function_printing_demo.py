"""C02 B8 findings: functions the NONMEM reader produces that the printer cannot write back.
Run: /venv/bin/python findings/C02_function_printing_demo.py   (prints what is generated / raised)"""
import warnings
warnings.filterwarnings('ignore')
from pharmpy.model import Assignment
from pharmpy.modeling import read_model_from_string

TEMPLATE = """$PROBLEM
$INPUT ID TIME DV X
$DATA file.csv IGNORE=@
$PRED
A = {expr}
Y = THETA(1) + A + ETA(1) + EPS(1)
$THETA 1
$OMEGA 0.1
$SIGMA 0.1
$ESTIMATION METHOD=1
"""
for expr in ['INT(X)', '2*PEXP(X)', '2*PLOG(X)', '2*PLOG10(X)', '2*PSQRT(X)', '2*PDZ(X)', '2*PZR(X)', '2*PNP(X)', '2*PHE(X)',
             '2*PNG(X)']:
    m = read_model_from_string(TEMPLATE.format(expr=expr))
    st = m.statements
    new = [s if s.symbol.name != 'A' else Assignment.create(s.symbol, s.expression + 1) for s in st]
    try:
        m2 = m.replace(statements=type(st)(new)).update_source()
        line = [l for l in m2.code.splitlines() if l.startswith('A ') or l.startswith('A=')]
        print(f'{expr:14s} -> {line}')
    except Exception as e:
        print(f'{expr:14s} -> {type(e).__name__}: {str(e).splitlines()[0][:80]}')
