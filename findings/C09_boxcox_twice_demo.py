import warnings; warnings.filterwarnings('ignore')
from pharmpy.modeling import load_example_model, transform_etas_boxcox
m = load_example_model('pheno')
m1 = transform_etas_boxcox(m, ['ETA_CL'])
m2 = transform_etas_boxcox(m1, ['ETA_VC'])
for s in m2.statements.before_odes:
    if 'ETAB' in str(s) or s.symbol.name in ('CL', 'VC', 'V'):
        print(s.symbol, '=', s.expression)
