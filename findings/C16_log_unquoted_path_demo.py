"""Demonstration: K6 - context path written unquoted into the CSV log."""
import sys, tempfile, shutil
from pathlib import Path
from pharmpy.modeling import read_model, set_name
from pharmpy.workflows import LocalDirectoryContext
tmp = Path(tempfile.mkdtemp())
try:
    ctx = LocalDirectoryContext('ctx', tmp)
    ctx.log_info('first message')
    model = set_name(read_model('/repo/tests/testdata/nonmem/pheno_real.mod'), 'run,1')
    ctx.store_model_entry(model)
    ctx.log_info('second, message', model=model)
    try:
        df = ctx.retrieve_log()
        ok = list(df['message']) == ['first message', 'second, message'] and df['path'][1].endswith('run,1')
        print('PASS' if ok else f'FAIL: log not verbatim: {df}')
        rc = 0 if ok else 1
    except Exception as e:
        print('FAIL: retrieve_log raises', type(e).__name__, str(e)[:100]); rc = 1
finally:
    shutil.rmtree(tmp)
sys.exit(rc)
