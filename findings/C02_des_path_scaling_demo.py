import warnings; warnings.filterwarnings('ignore')
from pharmpy.modeling import *
m = load_example_model('pheno')
m = set_michaelis_menten_elimination(m)
m = set_first_order_absorption(m)
code = m.code
import re
print([l for l in code.splitlines() if re.match(r'\s*(S\d|\$MODEL|\$SUB|DADT|F =|F=|IPRED|Y )', l) or 'COMP' in l])
print(m.internals.compartment_map)
