"""C06 M11: frozenmapping compares like a Mapping (the order of the entries does not matter) but hashed the entries in
insertion order, so equal values had different hashes - and with them equal Models whose dependent variables were given
in another order.
exit 0 = correct behaviour, exit 1 = defect present."""
import sys
from pathlib import Path

from pharmpy.basic import Expr
from pharmpy.internals.immutable import frozenmapping
from pharmpy.modeling import read_model

bad = []
a, b = frozenmapping({'a': 1, 'b': 2}), frozenmapping({'b': 2, 'a': 1})
print('frozenmapping: equal', a == b, 'same hash', hash(a) == hash(b), 'set size', len({a, b}))
if a == b and (hash(a) != hash(b) or len({a, b}) != 1):
    bad.append('equal frozenmappings hash differently')
td = Path(__file__).resolve().parent
src = next(p for p in (Path('/repo/tests/testdata/nonmem/pheno_real.mod'), td.parents[1] / 'tests/testdata/nonmem/pheno_real.mod')
           if p.exists())
m = read_model(src)
y, z = Expr.symbol('Y'), Expr.symbol('CL')
m1 = m.replace(dependent_variables={y: 1, z: 2})
m2 = m.replace(dependent_variables={z: 2, y: 1})
print('models: equal', m1 == m2, 'same hash', hash(m1) == hash(m2), 'dict lookup', {m1: 'x'}.get(m2))
if m1 == m2 and hash(m1) != hash(m2):
    bad.append('equal models hash differently')
print('FAIL: ' + '; '.join(bad) if bad else 'PASS')
sys.exit(1 if bad else 0)
