import warnings; warnings.filterwarnings('ignore')
from pharmpy.modeling import read_model_from_string, make_declarative
code = """$PROBLEM
$INPUT ID TIME DV
$DATA file.csv IGNORE=@
$PRED
X = 1
Z = X
X = X + 1
Z = Z + X
Y = THETA(1) + Z + ETA(1) + EPS(1)
$THETA 1
$OMEGA 0.1
$SIGMA 0.1
$ESTIMATION METHOD=1
"""
m = read_model_from_string(code)
print('original  Z =', m.statements.full_expression('Z'))
m2 = make_declarative(m)
print(m2.statements)
print('declarative Z =', m2.statements.full_expression('Z'))
