"""C05: substitution in a compartmental system does not change what the system is a function of: before the fix subs()
returned a system whose independent variable was reset to the default `t`. Exit 0 = kept."""
import sys
import warnings
warnings.filterwarnings('ignore')
from pharmpy.basic import Expr
from pharmpy.model import Bolus, Compartment, CompartmentalSystem, CompartmentalSystemBuilder, output

cb = CompartmentalSystemBuilder()
c = Compartment.create('CENTRAL', amount=Expr.function('A_CENTRAL', 'TIME'), doses=(Bolus.create('AMT'),))
cb.add_compartment(c)
cb.add_flow(c, output, Expr.symbol('K'))
cs = CompartmentalSystem(cb, t=Expr.symbol('TIME'))
cs2 = cs.subs({Expr.symbol('K'): Expr.symbol('KE')})
print('before', cs.t, cs.eqs, '| after', cs2.t, cs2.eqs)
sys.exit(0 if cs2.t == cs.t else 1)
