"""Demonstration: MFL search-space algebra defects (C18 G3/G5/G7/G8)."""
import sys, warnings
warnings.simplefilter('ignore')
from pharmpy.tools.mfl.parse import parse
P = lambda s: parse(s, True)
bad = []
def expect(label, f, want):
    try:
        got = f()
    except Exception as e:
        got = f'{type(e).__name__}: {e}'
    if got != want:
        bad.append(f'{label}: got {got!r}, want {want!r}')
expect('G3 Transits.__eq__ is a boolean', lambda: P('TRANSITS(1)').transits[0] == P('TRANSITS(2)').transits[0], False)
expect('G3 spaces differing in METABOLITE are unequal', lambda: P('ABSORPTION(FO);METABOLITE(PSC)') == P('ABSORPTION(FO);METABOLITE(BASIC)'), False)
expect('G3 covariate equality is symmetric', lambda: (P('COVARIATE(CL,WT,EXP)') == P('COVARIATE([CL,V],WT,EXP)'), P('COVARIATE([CL,V],WT,EXP)') == P('COVARIATE(CL,WT,EXP)')), (False, False))
expect('G5 wildcard equality', lambda: P('ABSORPTION(*)') == P('ABSORPTION(FO)'), False)
expect('G5 wildcard equality refl', lambda: P('ABSORPTION(*)') == P('ABSORPTION(*)'), True)
expect('G5 PERIPHERALS(1,*) + PERIPHERALS(2)', lambda: sorted((P('PERIPHERALS(1,*)') + P('PERIPHERALS(2)'))._extract_peripherals()['DRUG']), [1, 2])
expect('G7 ELIMINATION(FO) - ELIMINATION(*)', lambda: repr((P('ELIMINATION(FO)') - P('ELIMINATION(*)')).elimination), "Elimination(modes=(Name(name='FO'),))")
expect('G7 ABSORPTION(FO) - ABSORPTION(*)', lambda: repr((P('ABSORPTION([FO,ZO])') - P('ABSORPTION(*)')).absorption), "Absorption(modes=(Name(name='INST'),))")
expect('G8 ALLOMETRY(WT) parses', lambda: repr(parse('ALLOMETRY(WT)')), "[Allometry(covariate='WT', reference=70.0)]")
print('PASS' if not bad else 'FAIL:\n  ' + '\n  '.join(bad))
sys.exit(1 if bad else 0)
