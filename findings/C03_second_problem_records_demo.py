"""C03 S18: a control stream with two $PROBLEMs; update_source() of the unmodified model must reproduce it.
replace_all('THETA' / 'OMEGA' / 'SIGMA', <records of the first problem>) removed the records of that kind in EVERY problem.
exit 0 = correct behaviour, exit 1 = defect present."""
import sys

from pharmpy.modeling import read_model_from_string, set_initial_estimates

CODE = """$PROBLEM first
$INPUT ID TIME DV AMT
$DATA file.csv IGNORE=@
$PRED
CL = THETA(1)*EXP(ETA(1))
Y = CL + EPS(1)
$THETA 1
$OMEGA 0.1
$SIGMA 0.1
$ESTIMATION METHOD=1
$PROBLEM second
$INPUT ID TIME DV AMT
$DATA file.csv IGNORE=@ REWIND
$PRED
CL = THETA(1)*EXP(ETA(1))
Y = CL + EPS(1)
$THETA 2
$OMEGA 0.2
$SIGMA 0.2
$SIMULATION (1234)
"""
m = read_model_from_string(CODE)
bad = []
out = m.update_source().code
if out != CODE:
    bad.append('a no-op update changed the control stream')
out2 = set_initial_estimates(m, {'THETA_1': 3}).code
second = out2.split('$PROBLEM second')[1] if '$PROBLEM second' in out2 else ''
for rec in ('$THETA 2', '$OMEGA 0.2', '$SIGMA 0.2'):
    if rec not in second:
        bad.append(f'{rec} of the second problem is gone after an edit of the first')
print(out)
print('FAIL: ' + '; '.join(bad) if bad else 'PASS')
sys.exit(1 if bad else 0)
