import warnings; warnings.filterwarnings('ignore')
from pharmpy.modeling import read_model_from_string, remove_unused_parameters_and_rvs
code = """$PROBLEM
$INPUT ID TIME DV
$DATA file.csv IGNORE=@
$PRED
Y = THETA(1) + THETA(3)*TIME + ETA(1) + EPS(1)
$THETA 1
$THETA 2
$THETA 3
$OMEGA 0.1
$SIGMA 0.1
$ESTIMATION METHOD=1
"""
m = read_model_from_string(code)
m2 = remove_unused_parameters_and_rvs(m)
print(m2.parameters.names)
print(m2.code)
