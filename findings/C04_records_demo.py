"""Demonstration: parameter record write-back defects (C04 P2, P3)."""
import sys, warnings
warnings.simplefilter('ignore')
from pharmpy.modeling import read_model_from_string, set_initial_estimates
base = '''$PROBLEM t
$INPUT ID TIME AMT DV
$DATA x.csv IGNORE=@
$PRED
Y=THETA(1)+THETA(2)+ETA(1)+ETA(2)+EPS(1)
%s
$SIGMA 0.1
$ESTIMATION METHOD=1
'''
bad = []
# P2: split of (v FIX)xn keeps FIX
m = read_model_from_string(base % '$THETA (0,1,10.0) (0,2)\n$OMEGA (0.1 FIX)x2')
m2 = set_initial_estimates(m, {m.random_variables.etas.variance_parameters[1]: 0.2})
code = m2.code
r = read_model_from_string(code)
if [p.fix for p in r.parameters if p.name.startswith('OMEGA')] != [True, True]:
    bad.append('P2: FIX lost when splitting (0.1 FIX)x2: ' + [l for l in code.split('\n') if l.startswith('$OMEGA')][0])
# P3: unchanged bound keeps its spelling when another theta of the record changes
m = read_model_from_string(base % '$THETA (0,1,10.0) (0,2)\n$OMEGA 0.1 0.1')
m2 = set_initial_estimates(m, {'THETA_2': 3})
line = [l for l in m2.code.split('\n') if l.startswith('$THETA')][0]
if '10.0' not in line:
    bad.append('P3: unchanged upper bound re-spelled: ' + line)
print('PASS' if not bad else 'FAIL:\n  ' + '\n  '.join(bad))
sys.exit(1 if bad else 0)
