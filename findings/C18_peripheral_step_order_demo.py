import warnings; warnings.filterwarnings('ignore')
from pharmpy.tools.mfl.parse import parse, ModelFeatures
from pharmpy.tools.modelsearch.algorithms import _is_allowed
from pharmpy.modeling import load_example_model
m = load_example_model('pheno')
mf = ModelFeatures.create_from_mfl_string('PERIPHERALS([1,2,3])')
funcs = mf.convert_to_funcs(model=m)
print(list(funcs))
p1, p2, p3 = ('PERIPHERALS', 1), ('PERIPHERALS', 2), ('PERIPHERALS', 3)
print('3 after [1]   :', _is_allowed(p3, funcs[p3], [p1], funcs))
print('2 after [1,3] :', _is_allowed(p2, funcs[p2], [p1, p3], funcs))
print('1 after [2]   :', _is_allowed(p1, funcs[p1], [p2], funcs))
from pharmpy.tools.modelsearch.algorithms import exhaustive_stepwise
mf = ModelFeatures.create_from_mfl_string('PERIPHERALS([1,2,3])')
base = ModelFeatures.create_from_mfl_string('ABSORPTION(INST);ELIMINATION(FO);PERIPHERALS(0)')
funcs = {k: v for k, v in mf.convert_to_funcs(model=m).items() if k[0] == 'PERIPHERALS'}
wf, tasks = exhaustive_stepwise(funcs, 'no_add')
paths = []
from pharmpy.workflows import Workflow
for t in wf.tasks:
    if t.name.startswith('PERIPHERALS'):
        # path = names of PERIPHERALS ancestors
        path = [t.name]
        cur = t
        while True:
            preds = [p for p in wf.get_predecessors(cur)]
            cand = None
            for p in preds:
                # skip fit tasks
                q = p
                while q is not None and not q.name.startswith('PERIPHERALS'):
                    pp = wf.get_predecessors(q)
                    q = pp[0] if pp else None
                cand = q
            if cand is None: break
            path.append(cand.name); cur = cand
        paths.append(' <- '.join(path))
for p in sorted(paths): print(p)
