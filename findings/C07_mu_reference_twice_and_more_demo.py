import warnings; warnings.filterwarnings('ignore')
from pharmpy.modeling import *
def model(pred, extra_theta='', omega='$OMEGA 0.1\n'):
    return read_model_from_string(f"""$PROBLEM
$INPUT ID TIME DV WGT
$DATA file.csv IGNORE=@
$PRED
{pred}
$THETA 1
$THETA 2
{extra_theta}{omega}$SIGMA 0.1
$ESTIMATION METHOD=1
""")
# 1 replace_fixed_thetas with fixed omega
try:
    m = model("Y = THETA(1) + THETA(2) + ETA(1) + EPS(1)", omega='$OMEGA 0.1 FIX\n')
    m2 = replace_fixed_thetas(m); print('1 ok', m2.parameters.names)
except Exception as e: print('1 ERR', type(e).__name__, str(e)[:100])
# 2 cleanup_model alias chain
try:
    m = model("A = WGT\nC = A\nY = THETA(1)*C + THETA(2) + ETA(1) + EPS(1)")
    m2 = cleanup_model(m); print('2 ok'); print(m2.statements)
except Exception as e: print('2 ERR', type(e).__name__, str(e)[:100])
# 3 mu_reference twice
try:
    m = model("CL = THETA(1)*EXP(ETA(1))\nY = CL + THETA(2) + EPS(1)")
    m1 = mu_reference_model(m); m2 = mu_reference_model(m1)
    print('3 once :', [str(s) for s in m1.statements][:3]); print('3 twice:', [str(s) for s in m2.statements][:4])
except Exception as e: print('3 ERR', type(e).__name__, str(e)[:100])
# 4 cleanup removes Y = IPRED
try:
    m = model("IPRED = THETA(1) + THETA(2) + ETA(1)\nY = IPRED\nY = Y + EPS(1)")
    m2 = cleanup_model(m); print('4 ok'); print(m2.statements)
except Exception as e: print('4 ERR', type(e).__name__, str(e)[:100])
