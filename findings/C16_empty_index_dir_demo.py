import warnings; warnings.filterwarnings('ignore')
import tempfile
from pathlib import Path
from pharmpy.modeling import load_example_model
from pharmpy.workflows import LocalModelDirectoryDatabase, ModelEntry
from pharmpy.workflows.hashing import ModelHash
d = Path(tempfile.mkdtemp())
db = LocalModelDirectoryDatabase(d)
m = load_example_model('pheno')
key = ModelHash(m)
# state left by a store that died between h_dir.mkdir() and index_path.touch()
(d / '.datasets' / '.hash' / str(key.dataset_hash)).mkdir(parents=True)
try:
    db.store_model_entry(ModelEntry.create(m))
    print('store after the interrupted one: ok')
except Exception as e:
    print('store after the interrupted one FAILED:', type(e).__name__, e)
