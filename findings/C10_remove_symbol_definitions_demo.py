from pharmpy.model import Assignment, Statements
from pharmpy.basic import Expr
S = Expr.symbol
a = Assignment.create(S('A'), Expr.integer(1))
b = Assignment.create(S('B'), S('A') + 1)
y_old = Assignment.create(S('Y'), S('A') + 2)
z = Assignment.create(S('Z'), S('B') * 2)
y_new = Assignment.create(S('Y'), Expr.integer(2))
st = Statements([a, b, y_new, z])
res = st.remove_symbol_definitions([S('A')], y_new)
print(res)
defined = {s.symbol for s in res}
for s in res:
    missing = [x for x in s.rhs_symbols if x not in defined and x.name in ('A','B')]
    if missing: print('DANGLING in', s, missing)
