from pharmpy.model.external.nonmem.records.factory import create_record
rec = create_record("""$PRED
CL = 1
IF (X.EQ.1) THEN
  V = 2
ELSE
  CL = 3
ENDIF
Y = CL + V
""")
for s in rec.statements: print(repr(s))
