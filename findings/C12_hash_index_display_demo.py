"""C12 H12 (open finding): the dataset part of ModelHash feeds repr(df.index) into the hash. For a dataset whose index is
not the default RangeIndex (e.g. after rows were filtered out) that is pandas *display text*: it is abbreviated beyond
display.max_seq_items, so one and the same model gets different keys in processes with different pandas display options,
and the elided labels do not enter the key at all.
exit 0 = keys agree, exit 1 = defect present."""
import subprocess
import sys
from pathlib import Path

CHILD = r'''
import sys, pandas as pd
if sys.argv[1] != '-':
    pd.set_option('display.max_seq_items', int(sys.argv[1]))
from pharmpy.modeling import read_model
from pharmpy.workflows.hashing import ModelHash
m = read_model(sys.argv[2])
df = m.dataset
m = m.replace(dataset=df[df['ID'] != 3])      # keeps the original row labels
print(ModelHash(m))
'''
td = Path(__file__).resolve().parent
src = next(p for p in (Path('/repo/tests/testdata/nonmem/pheno_real.mod'), td.parents[1] / 'tests/testdata/nonmem/pheno_real.mod')
           if p.exists())
keys = [subprocess.run([sys.executable, '-c', CHILD, opt, str(src)], capture_output=True, text=True).stdout.strip()
        for opt in ('-', '10', '2000')]
print(keys)
ok = len(set(keys)) == 1 and keys[0]
print('PASS' if ok else 'FAIL: the key of the same model depends on pandas display options')
sys.exit(0 if ok else 1)
