"""C02: a model without TRANS (written with $DES) whose distribution rates are plain rate constants must not be written
with TRANS4. Before the fix: $SUBROUTINE ADVAN3 TRANS4 with Q = K21, V2 = 1 (NONMEM computes K12 = K21/VC, not the
model's K12), the in-memory system got duplicated compartments (the integer 1 of the missing denominator was substituted in
every compartment's bioavailability) and the compartment map depended on the hash seed. Exit 0 = consistent."""
import re
import sys
import warnings
warnings.filterwarnings('ignore')
from pharmpy.modeling import read_model, set_first_order_elimination, set_michaelis_menten_elimination

m = read_model('/repo/tests/testdata/nonmem/models/mox_2comp.mod')      # ADVAN3 TRANS1: K12, K21 are thetas
m = set_michaelis_menten_elimination(m).update_source()
m = set_first_order_elimination(m).update_source()
names = m.statements.ode_system.compartment_names
sub = [l for l in m.code.splitlines() if l.startswith('$SUB')][0]
pk = m.code.split('$PK')[1].split('$ERROR')[0]
defined = set(re.findall(r'^\s*(\w+)\s*=', pk, re.M))
print(sub, '| compartments', names, '| map', m.internals.compartment_map, '| defined', sorted(defined))
bad = len(names) != len(set(names))
if 'TRANS4' in sub:
    bad = bad or not {'CL', 'V1', 'Q', 'V2'} <= defined or re.search(r'^\s*V2\s*=\s*1\s*$', pk, re.M) is not None
if 'TRANS1' in sub:
    bad = bad or not {'K', 'K12', 'K21'} <= defined
sys.exit(1 if bad else 0)
