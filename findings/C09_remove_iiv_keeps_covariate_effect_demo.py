"""C09 / C07: remove_iiv sets the eta to its typical value and changes nothing else. Before the fix it used
Statements.reassign, which deletes every other assignment of the symbol: a covariate effect added after the eta statement
(CL = TVCL*exp(ETA_CL); CL = CL*CLAPGR) was lost.
Run: PYTHONHASHSEED=0 PYTHONPATH=/repo/src /venv/bin/python findings/C09_remove_iiv_keeps_covariate_effect_demo.py"""
import sys
import warnings
warnings.filterwarnings('ignore')
from pharmpy.modeling import add_covariate_effect, load_example_model, remove_iiv
m = load_example_model('pheno')
m = add_covariate_effect(m, 'CL', 'APGR', 'exp')
m = remove_iiv(m, 'ETA_CL')
full = m.statements.before_odes.full_expression('CL')
print('CL =', full)
ok = 'APGR' in {str(s) for s in full.free_symbols} and 'ETA_CL' not in {str(s) for s in full.free_symbols}
print('PASS' if ok else 'FAIL: the covariate effect on CL disappeared with the eta')
sys.exit(0 if ok else 1)
