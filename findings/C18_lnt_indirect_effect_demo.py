import warnings; warnings.filterwarnings('ignore')
from pharmpy.tools.mfl.parse import ModelFeatures
a = ModelFeatures.create_from_mfl_string('INDIRECTEFFECT(LINEAR,PRODUCTION)')
b = ModelFeatures.create_from_mfl_string('INDIRECTEFFECT(EMAX,DEGRADATION)')
try:
    print(a.least_number_of_transformations(b)); print(ModelFeatures.create_from_mfl_string("INDIRECTEFFECT(LINEAR,PRODUCTION)").least_number_of_transformations(ModelFeatures.create_from_mfl_string("INDIRECTEFFECT(EMAX,PRODUCTION)")))
except Exception as e:
    import traceback; traceback.print_exc()
