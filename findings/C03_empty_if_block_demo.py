"""C03 S16: a block IF that contains no assignment (only EXIT / CALL) and a later edit of the statement after it.
The edit must touch only that statement; the block and every other line stay as written.
exit 0 = correct behaviour, exit 1 = defect present."""
import sys

from pharmpy.basic import Expr
from pharmpy.model import Assignment
from pharmpy.modeling import read_model_from_string

CODE = """$PROBLEM
$INPUT ID TIME DV AMT
$DATA file.csv IGNORE=@
$PRED
CL = THETA(1)*EXP(ETA(1))
IF (TIME.LT.0) THEN
  EXIT 1 100
END IF
V = THETA(2)
Y = CL/V + EPS(1)
$THETA 1
$THETA 2
$OMEGA 0.1
$SIGMA 0.1
$ESTIMATION METHOD=1
"""
m = read_model_from_string(CODE)
st = m.statements
i = [k for k, s in enumerate(st) if getattr(s, 'symbol', None) == Expr.symbol('V')][0]
new = st[:i] + Assignment.create(Expr.symbol('V'), Expr.symbol('THETA_2') * 2) + st[i + 1:]
code = m.replace(statements=new).update_source().code
old_lines, new_lines = CODE.splitlines(), code.splitlines()
bad = []
if 'EXIT 1 100' not in code:
    bad.append('the IF / EXIT block was deleted')
if 'V = THETA(2)' in new_lines:
    bad.append('the old line of V is still there')
changed = [(a, b) for a, b in zip(old_lines, new_lines) if a != b]
if len(old_lines) != len(new_lines) or len(changed) != 1:
    bad.append(f'{len(changed)} lines differ, {len(old_lines)} -> {len(new_lines)} lines (expected exactly the line of V)')
print(code)
print('FAIL: ' + '; '.join(bad) if bad else 'PASS')
sys.exit(1 if bad else 0)
