import warnings; warnings.filterwarnings('ignore')
from pharmpy.modeling import *
m = create_basic_pk_model('iv')
for t in ['cr','crib']:
    m2 = set_tmdd(m, type=t)
    m3 = set_first_order_absorption(m2)
    cs = m3.statements.ode_system
    print(t, [c.name for c,_ in cs.get_compartment_inflows(cs.central_compartment)], [ (c.name, len(cs.get_compartment_outflows(c))) for c,_ in cs.get_compartment_inflows(cs.central_compartment)], 'depot:', cs.find_depot(m3.statements), 'fo abs:', has_first_order_absorption(m3))
    print(cs)
