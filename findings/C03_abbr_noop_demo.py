"""C03 S17 (open finding): a no-op update_source() of a model with `$ABBR REPLACE THETA(CL)=THETA(1)` records.
update_abbr_record removes every REPLACE record and re-creates only those of the random variables (under pharmpy's names):
the THETA abbreviation disappears and ETA(CL) becomes ETA_CL, while the $PRED code that uses THETA(CL) / ETA(CL) is kept
verbatim - the written control stream is no longer the model that was read (NM-TRAN rejects it).
exit 0 = the code is reproduced, exit 1 = defect present."""
import sys
from pharmpy.modeling import read_model_from_string
code = """$PROBLEM
$INPUT ID TIME DV AMT
$DATA file.csv IGNORE=@
$ABBR REPLACE THETA(CL)=THETA(1)
$ABBR REPLACE ETA(CL)=ETA(1)
$PRED
CL = THETA(CL)*EXP(ETA(CL))
V = THETA(2)
Y = CL/V + EPS(1)
$THETA 1
$THETA 2
$OMEGA 0.1
$SIGMA 0.1
$ESTIMATION METHOD=1
"""
m = read_model_from_string(code)
out = m.update_source().code
print(out)
ok = out == code
print('PASS' if ok else 'FAIL: a no-op update rewrote the $ABBR records')
sys.exit(0 if ok else 1)
