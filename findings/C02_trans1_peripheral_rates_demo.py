"""C02: a TRANS1 model that gets a peripheral compartment (ADVAN1 -> ADVAN3 -> ADVAN11, ADVAN2 -> ADVAN4 -> ADVAN12) must
define the micro constants PREDPP reads for the new ADVAN (K12/K21[/K13/K31], K23/K32[/K24/K42]); before the fix only
ADVAN4 got them and NM-TRAN rejects the generated code of the others. Exit 0 = all defined."""
import re
import sys
import warnings
warnings.filterwarnings('ignore')
from pharmpy.modeling import add_peripheral_compartment, read_model_from_string, set_first_order_absorption

code = """$PROBLEM
$INPUT ID TIME AMT DV
$DATA file.csv IGNORE=@
$SUBROUTINE ADVAN1 TRANS1
$PK
K=THETA(1)*EXP(ETA(1))
V=THETA(2)
S1=V
$ERROR
Y=F+EPS(1)
$THETA (0,1)
$THETA (0,2)
$OMEGA 0.1
$SIGMA 0.1
$ESTIMATION METHOD=1
"""
NEED = {('ADVAN3', 'TRANS1'): ['K', 'K12', 'K21'], ('ADVAN11', 'TRANS1'): ['K', 'K12', 'K21', 'K13', 'K31'],
        ('ADVAN4', 'TRANS1'): ['K', 'KA', 'K23', 'K32'], ('ADVAN12', 'TRANS1'): ['K', 'KA', 'K23', 'K32', 'K24', 'K42']}
bad = 0
for oral in (False, True):
    m = read_model_from_string(code)
    if oral:
        m = set_first_order_absorption(m)
    for n in (1, 2):
        m = add_peripheral_compartment(m)
        c = m.code
        sub = re.search(r'\$SUBROUTINE\s+(ADVAN\d+)\s+(TRANS\d)', c).groups()
        pk = c.split('$PK')[1].split('$ERROR')[0]
        defined = set(re.findall(r'^\s*(\w+)\s*=', pk, re.M))
        missing = [k for k in NEED[sub] if k not in defined]
        print(sub, 'missing:', missing)
        bad += bool(missing)
sys.exit(1 if bad else 0)
