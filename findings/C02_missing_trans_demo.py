import warnings; warnings.filterwarnings('ignore')
from pharmpy.modeling import *
# (a) $DES -> ADVAN4 without TRANS
m = load_example_model('pheno')
m = set_first_order_absorption(m)
m = set_peripheral_compartments(m, 1)
m = set_michaelis_menten_elimination(m)
m = set_first_order_elimination(m)
print([l for l in m.code.splitlines() if l.startswith(('$SUB','$MODEL','$DES'))])
print([l for l in m.code.splitlines() if l[:3] in ('K =','K23','K32','KA ','CL ','V2 ','Q =','V3 ','S2 ','K=K') or l.startswith(('K','S'))][:12])
