import warnings; warnings.filterwarnings('ignore')
from pharmpy.modeling import *
from pharmpy.tools.mfl.parse import get_model_features
m = load_example_model('pheno')
m = set_first_order_absorption(m)
m = add_lag_time(m)
m = add_bioavailability(m)
print('before:', get_model_features(m), '| bio:', get_bioavailability(m), '| lag:', get_lag_times(m))
m2 = set_instantaneous_absorption(m)
print('INST  :', get_model_features(m2), '| bio:', get_bioavailability(m2), '| lag:', get_lag_times(m2))
m3 = set_zero_order_absorption(m)
print('ZO    :', get_model_features(m3), '| bio:', get_bioavailability(m3), '| lag:', get_lag_times(m3))
m4 = load_example_model('pheno')
m4 = set_seq_zo_fo_absorption(m4)
print('SEQ   :', get_model_features(m4))
try:
    m5 = set_instantaneous_absorption(m4)
    print('SEQ->INST:', get_model_features(m5)); print(m5.statements.ode_system)
except Exception as e:
    print('SEQ->INST ERR', type(e).__name__, e)
