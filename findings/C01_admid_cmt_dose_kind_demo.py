"""C01: with both a CMT and an administration-id column, the kind of dose of a compartment (bolus / infusion) is decided from
the dose records OF THAT COMPARTMENT. Before the fix the records of all compartments with the same administration id were
looked at, so a bolus into compartment 1 became an infusion because compartment 2 gets an infusion with the same id.
Run: PYTHONPATH=/repo/src /venv/bin/python findings/C01_admid_cmt_dose_kind_demo.py"""
import sys
import warnings
warnings.filterwarnings('ignore')
import pandas as pd
from pharmpy.model import ColumnInfo, DataInfo
from pharmpy.model.external.nonmem.advan import dosing
df = pd.DataFrame({'ID': [1, 1, 1], 'TIME': [0, 0, 1], 'AMT': [100.0, 100.0, 0.0], 'RATE': [0.0, 50.0, 0.0],
                   'CMT': [1.0, 2.0, 2.0], 'ADMID': [1, 1, 1], 'DV': [0.0, 0.0, 5.0]})
types = {'ID': 'id', 'TIME': 'idv', 'AMT': 'dose', 'RATE': 'rate', 'CMT': 'compartment', 'ADMID': 'admid', 'DV': 'dv'}
di = DataInfo.create([ColumnInfo.create(c, type=t) for c, t in types.items()])
doses = {int(d['comp_number']): type(d['dose']).__name__ for d in dosing(di, df, 1)}
print(doses)
ok = doses == {1: 'Bolus', 2: 'Infusion'}
print('PASS' if ok else 'FAIL: the bolus into compartment 1 is read as an infusion')
sys.exit(0 if ok else 1)
