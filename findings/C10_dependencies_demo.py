from pharmpy.model import Assignment, Statements
from pharmpy.basic import Expr
S = Expr.symbol
def st(pairs): return Statements([Assignment.create(S(a), Expr(b) if isinstance(b,str) else b) for a,b in pairs])
s1 = st([('A', S('X')), ('B', S('A')), ('C', S('B')), ('D', S('C') + S('A'))])
print('diamond deps of D:', s1.dependencies('D'), ' full:', s1.full_expression('D'))
s2 = st([('U', S('A')), ('A', Expr.integer(2)), ('G', S('A')), ('D', S('U') + S('G'))])
print('use-before-def deps of D:', s2.dependencies('D'), ' full:', s2.full_expression('D'))
s3 = st([('X', S('W')), ('X', Expr.integer(2)), ('Z', S('X'))])
print('shadowed def deps of Z:', s3.dependencies('Z'), ' full:', s3.full_expression('Z'))
s4 = st([('X', S('W')), ('X', S('X')*2), ('Z', S('X'))])
print('self-ref deps of Z:', s4.dependencies('Z'), ' full:', s4.full_expression('Z'))
