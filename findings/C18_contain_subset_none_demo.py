"""C18 G21 / Y0: ModelFeatures.contain_subset outside the modelsearch tool.

A search space contains itself. With tool=None or 'modelsearch' the answer is True; with any other tool name the
method runs off its end (None) when no covariate statement is involved, and calls a method that does not exist
(self._subset_covariate) when one is.
exit 0 = correct behaviour, exit 1 = defect present."""
import sys
import warnings

from pharmpy.modeling import read_model
from pharmpy.tools.mfl.parse import ModelFeatures
from pathlib import Path

warnings.simplefilter('ignore')
bad = []
a = ModelFeatures.create_from_mfl_string('ABSORPTION([FO,ZO]);ELIMINATION(FO);PERIPHERALS(0..1)')
b = ModelFeatures.create_from_mfl_string('ABSORPTION(FO);ELIMINATION(FO);PERIPHERALS(0)')
for tool in (None, 'modelsearch', 'structsearch'):
    r = a.contain_subset(b, tool=tool)
    print(f'tool={tool!r}: a contains b -> {r!r}')
    if r is not True:
        bad.append(f'tool={tool!r} gives {r!r}')
    r = b.contain_subset(a, tool=tool)
    print(f'tool={tool!r}: b contains a -> {r!r}')
    if r is not False:
        bad.append(f'reverse tool={tool!r} gives {r!r}')

td = Path(__file__).resolve().parent
model = None
for cand in (Path('/repo/tests/testdata/nonmem/pheno_real.mod'), td.parents[1] / 'tests/testdata/nonmem/pheno_real.mod'):
    if cand.exists():
        model = read_model(cand)
        break
c = ModelFeatures.create_from_mfl_string('ABSORPTION(FO);ELIMINATION(FO);COVARIATE?([CL,V],[WGT,APGR],[exp,lin])')
d = ModelFeatures.create_from_mfl_string('ABSORPTION(FO);ELIMINATION(FO);COVARIATE?(CL,WGT,exp)')
try:
    r = c.contain_subset(d, model=model, tool='covsearch')
    print('covariates: c contains d ->', repr(r))
    if r is not True:
        bad.append(f'covariate subset gives {r!r}')
    r = d.contain_subset(c, model=model, tool='covsearch')
    print('covariates: d contains c ->', repr(r))
    if r is not False:
        bad.append(f'covariate superset gives {r!r}')
except AttributeError as e:
    print('covariates:', type(e).__name__, e)
    bad.append(str(e))
print('FAIL: ' + '; '.join(bad) if bad else 'PASS')
sys.exit(1 if bad else 0)
