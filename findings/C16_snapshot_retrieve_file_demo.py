"""C16 Y0 (unknown attribute): LocalModelDirectoryDatabaseSnapshot.retrieve_file on a file that is missing or empty
(e.g. left behind by an interrupted store) must say "not found" (FileNotFoundError, as the sibling
LocalDirectoryDatabase.retrieve_file does); it read self.name, which a snapshot does not have, and raised AttributeError.
exit 0 = correct behaviour, exit 1 = defect present."""
import sys
import tempfile
from pathlib import Path

from pharmpy.modeling import read_model
from pharmpy.workflows import LocalModelDirectoryDatabase

td = Path(__file__).resolve().parent
src = next(p for p in (Path('/repo/tests/testdata/nonmem/pheno_real.mod'), td.parents[1] / 'tests/testdata/nonmem/pheno_real.mod')
           if p.exists())
model = read_model(src)
bad = []
with tempfile.TemporaryDirectory() as d:
    db = LocalModelDirectoryDatabase(Path(d) / 'db')
    db.store_model(model)
    for fn, prep in (('results.lst', None), ('empty.ext', 'touch')):
        if prep:
            with db.snapshot(model) as sn:
                (sn.database.path / str(sn.key) / fn).touch()      # what a store killed after open() leaves behind
        try:
            db.retrieve_file(model, fn)
            bad.append(f'{fn}: returned a path')
        except FileNotFoundError as e:
            print(f'{fn}: FileNotFoundError {e}')
        except Exception as e:
            print(f'{fn}: {type(e).__name__} {e}')
            bad.append(f'{fn}: {type(e).__name__} instead of FileNotFoundError')
print('FAIL: ' + '; '.join(bad) if bad else 'PASS')
sys.exit(1 if bad else 0)
