"""Demonstration (not a check): K3 - dataset index published before its content.
A store interrupted inside write_csv poisons the dataset index: every later store of a model with the
same dataset fails."""
import sys, tempfile, shutil
from pathlib import Path
from unittest import mock
from pharmpy.modeling import read_model, set_name
from pharmpy.workflows import LocalModelDirectoryDatabase
import pharmpy.workflows.model_database.local_directory as ld

model = read_model(sys.argv[1] if len(sys.argv) > 1 else '/repo/tests/testdata/nonmem/pheno_real.mod')
tmp = Path(tempfile.mkdtemp())
try:
    db = LocalModelDirectoryDatabase(tmp / 'db')
    class Crash(Exception): pass
    with mock.patch.object(ld, 'write_csv', side_effect=Crash('power cut')):
        try:
            db.store_model(model)
        except Crash:
            pass
    # a different model sharing the dataset
    from pharmpy.modeling import fix_parameters
    m2 = fix_parameters(model, [model.parameters.names[0]])
    try:
        db.store_model(m2)
        print('PASS: later store with the same dataset works')
        rc = 0
    except Exception as e:
        print('FAIL: later store with same dataset fails:', type(e).__name__, e)
        rc = 1
finally:
    shutil.rmtree(tmp)
sys.exit(rc)
