import warnings; warnings.filterwarnings('ignore')
from pharmpy.modeling import read_model_from_string, get_observation_expression, get_individual_prediction_expression
code = """$PROBLEM
$INPUT ID TIME DV
$DATA file.csv IGNORE=@
$PRED
IPRED = THETA(1) + ETA(1)
Y = IPRED + EPS(1)
Y = Y*2
$THETA 1
$OMEGA 0.1
$SIGMA 0.1
$ESTIMATION METHOD=1
"""
m = read_model_from_string(code)
print(m.statements)
print('observation expression:', get_observation_expression(m))
print('full_expression(Y)    :', m.statements.full_expression('Y'))
