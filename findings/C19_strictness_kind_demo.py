"""Demonstration: N2 - final_zero_gradient_omega/_sigma looked at the THETA rows for missing gradients."""
import sys, warnings
warnings.simplefilter('ignore')
import numpy as np, pandas as pd
from pharmpy.modeling import read_model
from pharmpy.tools import is_strictness_fulfilled
from pharmpy.workflows.results import ModelfitResults
model = read_model('/repo/tests/testdata/nonmem/pheno_real.mod')
names = model.parameters.names
grd = pd.Series(1.0, index=names)
omega = [n for n in names if n.startswith('IVCL') or n.startswith('IVV') or n.startswith('OMEGA')][0]
grd[omega] = np.nan        # gradient of an OMEGA is missing
res = ModelfitResults(ofv=1.0, gradients=grd, parameter_estimates=pd.Series(1.0, index=names), warnings=[])
got = is_strictness_fulfilled(model, res, 'final_zero_gradient_omega')
ok = bool(got) is True
print('PASS' if ok else f'FAIL: missing OMEGA gradient not reported by final_zero_gradient_omega (got {got})')
sys.exit(0 if ok else 1)
