"""C08: a feature setter given a model without ODE system refuses with the documented error, like its siblings; before the
fix the three Michaelis-Menten type elimination setters raised AssertionError. Exit 0 = documented refusal."""
import sys
import warnings
warnings.filterwarnings('ignore')
from pharmpy.modeling import (read_model, set_first_order_absorption, set_michaelis_menten_elimination,
                              set_mixed_mm_fo_elimination, set_zero_order_elimination)

m = read_model('/repo/tests/testdata/nonmem/models/minimal_missing.mod')     # $PRED model
bad = 0
for fn in (set_first_order_absorption, set_michaelis_menten_elimination, set_mixed_mm_fo_elimination,
           set_zero_order_elimination):
    try:
        fn(m)
        print(fn.__name__, 'returned')
    except AssertionError:
        print(fn.__name__, 'AssertionError (internal)')
        bad += 1
    except Exception as e:
        print(fn.__name__, type(e).__name__, e)
sys.exit(1 if bad else 0)
