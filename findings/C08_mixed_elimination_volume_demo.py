"""C08: the mixed MM + first-order setter must leave every symbol of the ODE system defined. Before the fix
PERIPHERALS(1); ELIMINATION(MM); ELIMINATION(MIX-FO-MM) on pheno_real gave the rate CL/VC with VC undefined (the volume is V1).
Exit 0 = all symbols of the system defined."""
import sys
import warnings
warnings.filterwarnings('ignore')
from pharmpy.modeling import (read_model, set_michaelis_menten_elimination, set_mixed_mm_fo_elimination,
                              set_peripheral_compartments)

bad = 0
for path in ('/repo/tests/testdata/nonmem/pheno_real.mod', '/repo/tests/testdata/nonmem/models/mox2.mod'):
    m = read_model(path)
    m = set_mixed_mm_fo_elimination(set_michaelis_menten_elimination(set_peripheral_compartments(m, 1)))
    odes = m.statements.ode_system
    defined = {s.symbol.name for s in m.statements.before_odes} | set(m.datainfo.names) | {'t'}
    undefined = sorted(str(s) for s in odes.free_symbols if str(s) not in defined)
    print(path.split('/')[-1], 'undefined symbols in the ODE system:', undefined)
    bad += bool(undefined)
sys.exit(1 if bad else 0)
