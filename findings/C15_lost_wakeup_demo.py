"""Demonstration (not a check): lost wake-up in ShareableThreadLock (C15 / L5b).
Thread A holds the lock shared (reentrant) and then requests it exclusively; thread B is the last
OTHER shared holder and leaves.  Before the fix A was never notified."""
import sys, tempfile, threading, time
from pharmpy.internals.fs.lock import thread_level_lock

key = tempfile.mktemp()
b_in = threading.Event(); b_go = threading.Event(); a_done = threading.Event()

def B():
    with thread_level_lock(key, shared=True):
        b_in.set(); b_go.wait()

def A():
    with thread_level_lock(key, shared=True, reentrant=True):
        b_in.wait()
        threading.Timer(0.5, b_go.set).start()   # B leaves while A waits for exclusive
        with thread_level_lock(key, shared=False, reentrant=True):
            a_done.set()

tb = threading.Thread(target=B, daemon=True); ta = threading.Thread(target=A, daemon=True)
tb.start(); ta.start()
ok = a_done.wait(5)
print('PASS' if ok else 'FAIL: exclusive requester never woken (lost wake-up)')
sys.exit(0 if ok else 1)
