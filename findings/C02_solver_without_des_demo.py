import warnings; warnings.filterwarnings('ignore')
from pharmpy.modeling import *
m = load_example_model('pheno')
m2 = set_ode_solver(m, 'LSODA')
c = m2.code
print([l for l in c.splitlines() if l.startswith(('$SUB','$MODEL','$DES','DADT'))])
