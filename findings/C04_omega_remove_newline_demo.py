import warnings; warnings.filterwarnings('ignore')
from pharmpy.modeling import read_model_from_string, remove_iiv, remove_unused_parameters_and_rvs
code = """$PROBLEM
$INPUT ID TIME DV
$DATA file.csv IGNORE=@
$PRED
Y = THETA(1) + ETA(1) + ETA(2)*TIME + EPS(1)
$THETA 1
$OMEGA 0.1 0.2
$SIGMA 0.1
$ESTIMATION METHOD=1
"""
m = read_model_from_string(code)
m2 = remove_iiv(m, ['ETA_2'])
print(m2.code)
try:
    read_model_from_string(m2.code); print('re-read ok')
except Exception as e:
    print('RE-READ ERR', type(e).__name__, str(e)[:100])
