"""Demonstration: W4 - replacing a task moves it behind its siblings in the predecessor order of a join."""
import sys, tempfile, shutil, warnings
warnings.simplefilter('ignore')
from pharmpy.workflows import Task, Workflow, WorkflowBuilder, execute_workflow, LocalDirectoryContext
def a(context): return 'A'
def b(): return 'B'
def join(x, y): return (x, y)
ta, tb, tj = Task('a', a), Task('b', b), Task('join', join)
wb = WorkflowBuilder(name='demo')
wb.add_task(ta); wb.add_task(tb); wb.add_task(tj, predecessors=[ta, tb])
tmp = tempfile.mkdtemp()
try:
    res = execute_workflow(Workflow(wb), context=LocalDirectoryContext('ctx', tmp))
finally:
    shutil.rmtree(tmp)
ok = res == ('A', 'B')
print('PASS' if ok else f'FAIL: join received {res}, expected (A, B): predecessors in entry order')
sys.exit(0 if ok else 1)
