import warnings; warnings.filterwarnings('ignore')
from pathlib import Path
from pharmpy.modeling import read_model, drop_columns
import shutil, tempfile
d = Path(tempfile.mkdtemp())
shutil.copy('tests/testdata/nonmem/pheno.dta', d / 'pheno.dta')
code = open('tests/testdata/nonmem/pheno_real.mod').read().replace("IGNORE=@", "IGNORE=@ IGNORE=(WGT.GT.1.5)")
(d / 'm.mod').write_text(code)
m = read_model(d / 'm.mod')
print(len(m.dataset), [l for l in m.code.splitlines() if l.startswith('$DATA')])
m2 = drop_columns(m, ['APGR'], mark=True)
print(len(m2.dataset), [l for l in m2.code.splitlines() if l.startswith(('$DATA', '$INPUT'))])
