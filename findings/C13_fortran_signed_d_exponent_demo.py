"""C13 R2: NM-TRAN reads -1.2D-3 as -0.0012. Before the fix convert_fortran_number raised ValueError for a D exponent whose
mantissa carries a sign (the a+b / a-b pattern matched a prefix of the string).
Run: PYTHONPATH=/repo/src /venv/bin/python findings/C13_fortran_signed_d_exponent_demo.py"""
import sys
from pharmpy.model.external.nonmem.dataset import convert_fortran_number as c
bad = 0
for s, want in (('-1.2D-3', -0.0012), ('-1.2d-3', -0.0012), ('-1.2D10', -1.2e10), ('+1.2D+3', 1200.0), ('-1-10', -1e-10), ('1.5+3', 1500.0)):
    try:
        got = float(c(s))
    except Exception as e:
        got = f'{type(e).__name__}: {e}'
    ok = got == want
    print(s, '->', got, 'ok' if ok else f'WRONG (want {want})')
    bad += not ok
print('FAIL' if bad else 'PASS')
sys.exit(1 if bad else 0)
