"""C06 M3: a == c must imply hash(a) == hash(c). Before the fix Model.__hash__ included the dataset although __eq__ (and
to_dict) ignore it. Run: PYTHONPATH=/repo/src /venv/bin/python findings/C06_model_eq_hash_dataset_demo.py"""
import sys
from pharmpy.modeling import load_example_model

a = load_example_model("pheno")
df = a.dataset.copy()
df.loc[df.index[0], 'WGT'] = df['WGT'].iloc[0] + 1.0
c = a.replace(dataset=df)
eq = a == c
same_hash = hash(a) == hash(c)
print('a == c:', eq, ' hash(a) == hash(c):', same_hash)
if eq and not same_hash:
    print('FAIL: equal models with different hashes')
    sys.exit(1)
print('PASS')
