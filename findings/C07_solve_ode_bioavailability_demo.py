import warnings; warnings.filterwarnings('ignore')
from pharmpy.modeling import *
m = load_example_model('pheno')
m = add_bioavailability(m)
print(m.statements.ode_system)
try:
    m2 = solve_ode_system(m)
    for s in m2.statements:
        if 'A_CENTRAL' in str(s.symbol): print(s)
except Exception as e:
    print('ERR', type(e).__name__, e)
m3 = load_example_model('pheno')
m3 = set_first_order_absorption(m3); m3 = add_lag_time(m3)
try:
    m4 = solve_ode_system(m3)
    print('lag ok', [str(s) for s in m4.statements if 'A_' in str(s.symbol)][:2])
except Exception as e:
    print('lag ERR', type(e).__name__, str(e)[:120])
