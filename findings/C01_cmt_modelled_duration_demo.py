"""C01: a dose record with CMT=2 and RATE=-2 is an infusion into compartment 2 with the modelled duration D2 of $PK. Before
the fix the compartment number taken from the CMT column stayed a float and the system referred to an undefined `D2.0`.
Run: PYTHONPATH=/repo/src /venv/bin/python findings/C01_cmt_modelled_duration_demo.py"""
import sys
import warnings
from pathlib import Path
warnings.filterwarnings('ignore')
from pharmpy.modeling import read_model
m = read_model(Path(__file__).parent / 'data' / 'C01_cmt_rate_m.mod')
cs = m.statements.ode_system
dose = cs.find_compartment('CENTRAL').doses[0]
free = sorted(map(str, cs.free_symbols))
print(dose, free)
ok = 'D2' in free and not any('.' in s for s in free)
print('PASS' if ok else 'FAIL: the duration symbol of the infusion is not the D2 defined in $PK')
sys.exit(0 if ok else 1)
