"""Demonstration: Q1 - data functions that resolve the id column from datainfo but also use the literal 'ID'."""
import sys, warnings
warnings.simplefilter('ignore')
import pandas as pd
from pharmpy.modeling import (read_model, get_doseid, remove_loq_data, expand_additional_doses, get_admid,
                              get_concentration_parameters_from_data)
from pharmpy.model import DataInfo, ColumnInfo
base = read_model('/repo/tests/testdata/nonmem/pheno_real.mod')
df = base.dataset.rename(columns={'ID': 'SUBJ'}).copy()
df['EVID'] = (df['AMT'] > 0).astype(int)
df['ADDL'] = 0
df['II'] = 0
di = base.datainfo
cols = []
for c in di:
    cols.append(c.replace(name='SUBJ') if c.name == 'ID' else c)
cols += [ColumnInfo.create('EVID', type='event'), ColumnInfo.create('ADDL', type='additional'), ColumnInfo.create('II', type='ii')]
model = base.replace(dataset=df, datainfo=DataInfo.create(cols))
bad = []
for name, fn in (('get_doseid', lambda: get_doseid(model)),
                 ('remove_loq_data(keep=1)', lambda: remove_loq_data(model, lloq=10, keep=1)),
                 ('expand_additional_doses', lambda: expand_additional_doses(model)),
                 ('get_admid', lambda: get_admid(model)),
                 ('get_concentration_parameters_from_data', lambda: get_concentration_parameters_from_data(model))):
    try:
        fn()
    except KeyError as e:
        bad.append(f'{name}: KeyError {e}')
    except Exception as e:
        bad.append(f'{name}: {type(e).__name__} {str(e)[:60]}')
print('PASS' if not bad else 'FAIL:\n  ' + '\n  '.join(bad))
sys.exit(1 if bad else 0)
