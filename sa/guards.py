"""E2c: polarity of a condition inside a test expression.

Rules of the form "statement S runs only when condition C holds" must not depend on how the test is written
(`if C: S`, `if not C: continue` + S, `if A and C`, `if not C or B: return`). `edge_label(test, atom)` returns the CFG
edge label ('true' / 'false') of the test node on which C is known to hold, or None.

`atom(expr)` classifies one atomic expression: True = it asserts C, False = it asserts not C, None = unrelated.
"""
from __future__ import annotations

import ast


def edge_label(test, atom, resolve=None):
    """resolve(name node) -> expression: lets a test on a local flag (`ok = a == b; if not ok:`) be read through"""
    v = atom(test)
    if v is True:
        return 'true'
    if v is False:
        return 'false'
    if isinstance(test, ast.Name) and resolve is not None:
        r = resolve(test)
        if not (isinstance(r, ast.Name) and r.id == test.id):
            return edge_label(r, atom, None)
    if isinstance(test, ast.UnaryOp) and isinstance(test.op, ast.Not):
        inner = edge_label(test.operand, atom, resolve)
        return {'true': 'false', 'false': 'true'}.get(inner)
    if isinstance(test, ast.BoolOp):
        labs = [edge_label(v_, atom, resolve) for v_ in test.values]
        if isinstance(test.op, ast.And) and 'true' in labs:
            return 'true'       # all operands hold on the true edge
        if isinstance(test.op, ast.Or) and 'false' in labs:
            return 'false'      # all operands fail on the false edge
        # every alternative implies the condition: `if has_a(m) or has_b(m):` -> holds on the true edge
        if isinstance(test.op, ast.Or) and labs and all(l == 'true' for l in labs):
            return 'true'
        if isinstance(test.op, ast.And) and labs and all(l == 'false' for l in labs):
            return 'false'
    if isinstance(test, ast.NamedExpr):
        return edge_label(test.value, atom)
    return None


def resolver(cfg, nid):
    from . import reach
    return lambda name_node: reach.expand_expr(cfg, nid, name_node, depth=3)


def guarded(cfg, target_id, atom):
    """test nodes t (with the label) such that every path to target uses the edge of t on which the condition holds"""
    out = []
    for t in cfg.nodes.values():
        if t.kind != 'test' or t.ast is None:
            continue
        lab = edge_label(t.ast, atom, resolver(cfg, t.id))
        if lab and cfg.edge_dominates(t.id, lab, target_id):
            out.append((t, lab))
    return out


def compare_atom(op_pos, op_neg, pred=lambda cmp_: True):
    """atom for a single two-operand comparison: op_pos asserts the condition, op_neg its negation"""
    def atom(e):
        if isinstance(e, ast.Compare) and len(e.ops) == 1 and pred(e):
            if isinstance(e.ops[0], op_pos):
                return True
            if isinstance(e.ops[0], op_neg):
                return False
        return None
    return atom


def call_atom(pred):
    """atom for a predicate call: pred(call) True -> the call asserts the condition"""
    def atom(e):
        if isinstance(e, ast.Call) and pred(e):
            return True
        return None
    return atom
