"""E1d: follow a RENAMED private helper.

Rules are anchored on public functions and on private helpers of the confirmed tree. Renaming a private helper (and its
locals) is behaviour preserving, but a rule that asks for `module._old` would lose its anchor. Before anything else looks at
the tree, every private function of the confirmed tree (sa/known_callers.json, written by tools/gen_known_callers.py) that
is missing is looked for among the *new* private functions of the same module and scope (functions whose qualified name the
confirmed tree does not have):
  1. a new function with exactly the same shape (sequence of AST node types; identifiers and constants do not count), or
  2. failing that, the only new function with the same number of parameters that every surviving former caller calls.
A unique match is registered as an alias (`functions.get('_old')` returns the renamed function; iteration still lists it
once, under its new name) and is treated as a helper of the confirmed tree by sa/inline.py (it stays a call). No match or
several: nothing is registered and a rule that needs the helper ends in ANALYSIS-ERROR as before. The table only locates
functions, it never decides a property."""
from __future__ import annotations

import ast
import hashlib
import json
from pathlib import Path

_P = Path(__file__).parent / 'known_callers.json'
KNOWN = json.loads(_P.read_text()) if _P.exists() else {'all': [], 'private': {}}
ALL = set(KNOWN['all'])


def shape(fn) -> str:
    body = list(fn.body)
    if body and isinstance(body[0], ast.Expr) and isinstance(body[0].value, ast.Constant) and isinstance(body[0].value.value, str):
        body = body[1:]      # a docstring may come and go
    parts = [type(n).__name__ for n in ast.walk(fn.args)]
    for s in body:
        parts += [type(n).__name__ for n in ast.walk(s) if not isinstance(n, (ast.Load, ast.Store, ast.Del))]
    return hashlib.sha1(' '.join(parts).encode()).hexdigest()[:16]


def called_private_names(fn):
    out = set()
    for n in ast.walk(fn):
        if isinstance(n, ast.Call):
            f = n.func
            name = f.id if isinstance(f, ast.Name) else f.attr if isinstance(f, ast.Attribute) else None
            if name and name.startswith('_') and not name.startswith('__'):
                out.add(name)
        elif isinstance(n, (ast.Name, ast.Attribute)):
            # a helper handed over as a value (map(_f, xs), key=_f, partial(_f, ..))
            name = n.id if isinstance(n, ast.Name) else n.attr
            if name.startswith('_') and not name.startswith('__') and isinstance(getattr(n, 'ctx', None), ast.Load):
                out.add(name)
    return out


def _scope(qual):
    return qual.rsplit('.', 1)[0] + '.' if '.' in qual else ''


def resolve(repo):
    """-> {old fq: Func}; registers aliases on the module / class tables"""
    found = {}
    taken = set()
    for fq_old, info in KNOWN['private'].items():
        mname = None
        parts = fq_old.split('.')
        for i in range(len(parts) - 1, 0, -1):
            if '.'.join(parts[:i]) in repo.modules:
                mname = '.'.join(parts[:i])
                break
        if mname is None:
            continue
        m = repo.modules[mname]
        qual = fq_old[len(mname) + 1:]
        if dict.__contains__(m.functions, qual) or '<locals>' in qual:
            continue
        old_name = qual.rsplit('.', 1)[-1]
        # a helper that only moved (module function <-> method, other module + import) keeps its name: other tables do that
        if any(f.name == old_name for f in dict.values(m.functions)):
            continue
        cands = [f for q, f in dict.items(m.functions)
                 if f.fq not in ALL and f.name.startswith('_') and not f.name.startswith('__')
                 and _scope(q) == _scope(qual) and '#' not in q and id(f) not in taken]
        pick = [f for f in cands if shape(f.node) == info['shape']]
        if len(pick) != 1:
            live = []
            for c in info['callers']:
                try:
                    live.append(repo.func(c))
                except Exception:
                    pass
            pick = [f for f in cands if len(f.node.args.args) == info['nargs'] and live
                    and all(f.name in called_private_names(c.node) for c in live)]
        if len(pick) == 1:
            f = pick[0]
            taken.add(id(f))
            found[fq_old] = f
            m.functions.aliases[qual] = f
            if f.cls is not None:
                f.cls.methods.aliases[old_name] = f
    return found
