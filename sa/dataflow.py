"""Disjunctive forward dataflow on a CFG.

A state is a frozenset of hashable facts.  Every node keeps the *set* of states that can reach
it (no merging), which makes the analysis path-sensitive for the small finite facts the rules use
(held locks, boolean flags, open counters).  `transfer(node, state)` returns a list of
`(labels_or_None, new_state)`: the new state flows along out-edges whose label set intersects
`labels` (None = every out-edge).
"""
from __future__ import annotations

from collections import defaultdict, deque

from .report import AnalysisError


def forward(cfg, init: frozenset, transfer, limit: int = 200000):
    """returns dict node_id -> set of states at node entry"""
    states = defaultdict(set)
    states[cfg.entry].add(init)
    work = deque([(cfg.entry, init)])
    steps = 0
    while work:
        n, st = work.popleft()
        steps += 1
        if steps > limit:
            raise AnalysisError('dataflow: state explosion')
        outs = transfer(cfg.nodes[n], st)
        for m in cfg.g.successors(n):
            labs = cfg.g[n][m]['labels']
            for sel, new in outs:
                if sel is None or (labs & sel):
                    if new not in states[m]:
                        states[m].add(new)
                        work.append((m, new))
    return states


def must(states_at_node, fact) -> bool:
    return bool(states_at_node) and all(fact in s for s in states_at_node)


def may(states_at_node, fact) -> bool:
    return any(fact in s for s in states_at_node)
