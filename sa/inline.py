"""E1b: inlining of private helpers, so that a rule sees the same program whether or not a block was extracted.

"Extract function" is the most frequent behaviour-preserving edit. A rule that reads one function body
(`update_ode_system` must call X on every path; the loop of `make_declarative` must apply the substitutions) would lose
its anchor, or see an access "outside the lock", as soon as a few lines move to `_helper(...)`. The source model therefore
expands calls of *private helpers of the same module / class* in place before any rule runs:

    x = _helper(a, b)         ->   <body of _helper with a, b substituted>; x = <returned expression>
    return _helper(a)         ->   <body>  (its returns stay returns)
    if _pred(a): ...          ->   if <returned expression of the expression-bodied _pred>: ...
    with self._lock(True): .. ->   with path_lock(str(p), shared=True): ...

Eligible callee: name starts with one underscore, defined in the same module (module level) or the same class (called
through self./cls./ClassName.), not recursive, no yield/await/global/nonlocal, no decorator other than staticmethod /
classmethod, no *args/**kwargs, at most MAX_STMTS statements after its own expansion, no return inside a loop, and not
listed in known_helpers.json (the private helpers of the tree the rules were confirmed on). Inlined statements carry the line of the call site and an attribute
`inlined_from` (qualified name of the callee) for reports. The original body is kept in `Func.node_orig`.

Nothing is executed; the expansion is purely syntactic and bounded (depth MAX_DEPTH).
"""
from __future__ import annotations

import ast
import os
import copy

MAX_STMTS = 60
MAX_DEPTH = 3

# Private helpers of the tree the rules were confirmed on (tools/gen_known_helpers.py): they are part of the shape the
# rules know - several are rule anchors - and stay as calls. Every other private helper is presumed to be an extraction
# and is expanded at its call sites.
import json as _json
from pathlib import Path as _Path
KNOWN = set(_json.loads((_Path(__file__).parent / 'known_helpers.json').read_text()))
# a known helper that changed its home inside the module (method <-> module-level function, other class) is still known
KNOWN_NAMES = {n.rsplit('.', 1)[-1] for n in KNOWN}


RENAMED_FQ = set()      # fq of private helpers recognised as renamed helpers of the confirmed tree (set by expand_repo)


def _known(g):
    if g.fq in KNOWN or g.fq in RENAMED_FQ:
        return True
    if g.name in KNOWN_NAMES:
        mod = g.module.name
        return any(k.startswith(mod + '.') and k.rsplit('.', 1)[-1] == g.name for k in KNOWN)
    return False


def _is_docstring(s):
    return isinstance(s, ast.Expr) and isinstance(s.value, ast.Constant) and isinstance(s.value.value, str)


def _body(fn):
    b = list(fn.body)
    if b and _is_docstring(b[0]):
        b = b[1:]
    return b


def _walk_no_nested(node):
    """nodes of a function body without entering nested function/class definitions (lambdas are entered)"""
    stack = list(ast.iter_child_nodes(node))
    while stack:
        n = stack.pop()
        yield n
        if isinstance(n, (ast.FunctionDef, ast.AsyncFunctionDef, ast.ClassDef)):
            continue
        stack.extend(ast.iter_child_nodes(n))


def _simple_arg(e):
    if isinstance(e, (ast.Name, ast.Constant)):
        return True
    if isinstance(e, ast.Attribute):
        return _simple_arg(e.value)
    if isinstance(e, ast.UnaryOp) and isinstance(e.operand, ast.Constant):
        return True
    return False


def _assigned_names(fn):
    out = set()
    for n in _walk_no_nested(fn):
        if isinstance(n, ast.Name) and isinstance(n.ctx, (ast.Store, ast.Del)):
            out.add(n.id)
        elif isinstance(n, (ast.FunctionDef, ast.AsyncFunctionDef, ast.ClassDef)):
            out.add(n.name)
        elif isinstance(n, ast.ExceptHandler) and n.name:
            out.add(n.name)
        elif isinstance(n, (ast.Import, ast.ImportFrom)):
            out |= {(a.asname or a.name).split('.')[0] for a in n.names}
    # comprehension variables do not leak, but renaming them is harmless; keep them out
    for n in _walk_no_nested(fn):
        if isinstance(n, ast.comprehension):
            out -= {x.id for x in ast.walk(n.target) if isinstance(x, ast.Name)}
    return out


def _all_names(fn):
    a = fn.args
    out = {x.arg for x in a.posonlyargs + a.args + a.kwonlyargs}
    if a.vararg:
        out.add(a.vararg.arg)
    if a.kwarg:
        out.add(a.kwarg.arg)
    out |= {n.id for n in ast.walk(fn) if isinstance(n, ast.Name)}
    return out


class _Subst(ast.NodeTransformer):
    def __init__(self, mapping, renames):
        self.mapping = mapping    # param name -> expression (Load)
        self.renames = renames    # local name -> new name

    def visit_Name(self, node):
        if node.id in self.mapping and isinstance(node.ctx, ast.Load):
            return copy.deepcopy(self.mapping[node.id])
        if node.id in self.renames:
            return ast.copy_location(ast.Name(id=self.renames[node.id], ctx=node.ctx), node)
        return node

    def visit_FunctionDef(self, node):
        if node.name in self.renames:
            node.name = self.renames[node.name]
        self.generic_visit(node)
        return node

    def visit_ExceptHandler(self, node):
        if node.name and node.name in self.renames:
            node.name = self.renames[node.name]
        self.generic_visit(node)
        return node


def _returns(stmts):
    out = []
    for s in stmts:
        for n in [s, *_walk_no_nested(s)]:
            if isinstance(n, ast.Return):
                out.append(n)
    return out


def _return_in_loop(stmts):
    def rec(nodes, in_loop):
        for n in nodes:
            if isinstance(n, (ast.FunctionDef, ast.AsyncFunctionDef, ast.ClassDef, ast.Lambda)):
                continue
            if isinstance(n, ast.Return) and in_loop:
                return True
            if rec(ast.iter_child_nodes(n), in_loop or isinstance(n, (ast.For, ast.While, ast.AsyncFor))):
                return True
        return False
    return rec(stmts, False)


def _setloc(nodes, line, origin):
    for s in nodes:
        for n in ast.walk(s):
            if hasattr(n, 'lineno'):
                n.lineno = line
                n.end_lineno = line
            if isinstance(n, ast.stmt):
                n.inlined_from = origin
    return nodes


class Inliner:
    def __init__(self, repo):
        self.repo = repo
        self.done: set[int] = set()
        self.active: set[str] = set()
        self.count = 0
        self.ntemp = 0
        self.sites: list[tuple[str, str]] = []

    # ------------------------------------------------------------------ eligibility
    def callee_of(self, f, call, gen=False):
        """Func for a call of an eligible private helper, with the receiver expression (or None); gen=True: the helper must be
        a plain generator (statement-level `yield x` only, no return) instead of a plain function"""
        fn = call.func
        name = recv = cls = None
        if isinstance(fn, ast.Name):
            name = fn.id
            g = dict.get(f.module.functions, name)
            if g is None or g.cls is not None or g.parent is not None:
                return None
        elif isinstance(fn, ast.Attribute) and isinstance(fn.value, ast.Name):
            name = fn.attr
            owner = f.cls if f.cls is not None else (f.parent.cls if f.parent is not None else None)
            if fn.value.id in ('self', 'cls') and owner is not None:
                cls = owner
            elif fn.value.id in f.module.classes:
                cls = f.module.classes[fn.value.id]
            else:
                return None
            g = cls.methods.get(name)
            if g is None:
                return None
            recv = fn.value
        else:
            return None
        if not name.startswith('_') or name.startswith('__') or _known(g):
            return None
        node = g.node
        if not isinstance(node, ast.FunctionDef):
            return None
        decos = set(g.decorators())
        if decos - {'staticmethod', 'classmethod'}:
            return None
        a = node.args
        if a.vararg or a.kwarg:
            return None
        if any(isinstance(x, ast.Starred) for x in call.args) or any(k.arg is None for k in call.keywords):
            return None
        has_yield = False
        for n in _walk_no_nested(node):
            if isinstance(n, (ast.YieldFrom, ast.Await, ast.Global, ast.Nonlocal)):
                return None
            if isinstance(n, ast.Yield):
                has_yield = True
                if not gen:
                    return None
            if gen and isinstance(n, ast.Return):
                return None
        if gen:
            if not has_yield:
                return None
            stmt_yields = sum(1 for n in _walk_no_nested(node) if isinstance(n, ast.Expr) and isinstance(n.value, ast.Yield)
                              and n.value.value is not None)
            if stmt_yields != sum(1 for n in _walk_no_nested(node) if isinstance(n, ast.Yield)):
                return None
        if g.fq in self.active or g.fq == f.fq:
            return None
        return g, recv, ('staticmethod' in decos), ('classmethod' in decos)

    # ------------------------------------------------------------------ binding
    def bind(self, g, call, recv, static, clsm, caller_names):
        node = g.node
        a = node.args
        params = [x.arg for x in a.posonlyargs + a.args]
        defaults = dict(zip(params[len(params) - len(a.defaults):], a.defaults))
        kwonly = [x.arg for x in a.kwonlyargs]
        for p, d in zip(kwonly, a.kw_defaults):
            if d is not None:
                defaults[p] = d
        bound = {}
        pos = list(call.args)
        if g.cls is not None and not static:
            if not params:
                return None
            # receiver: self / cls / ClassName
            if recv is None:
                return None
            if not clsm and recv.id not in ('self', 'cls'):
                # ClassName._m(obj, ...): first positional argument is the receiver
                pass
            else:
                bound[params[0]] = recv
                params = params[1:]
        if len(pos) > len(params):
            return None
        for p, v in zip(params, pos):
            bound[p] = v
        for k in call.keywords:
            if k.arg in bound or k.arg not in params + kwonly:
                return None
            bound[k.arg] = k.value
        for p in params + kwonly:
            if p not in bound:
                if p not in defaults:
                    return None
                bound[p] = defaults[p]
        assigned = _assigned_names(node)
        mapping, pre, renames = {}, [], {}
        for p, v in bound.items():
            if _simple_arg(v) and p not in assigned:
                mapping[p] = v
            else:
                new = p if p not in caller_names else f'{p}__{node.name.lstrip("_")}'
                if new != p:
                    renames[p] = new
                pre.append(ast.Assign(targets=[ast.Name(id=new, ctx=ast.Store())], value=copy.deepcopy(v), lineno=0))
        for loc in assigned:
            if loc in bound:
                continue
            if loc in caller_names:
                renames[loc] = f'{loc}__{node.name.lstrip("_")}'
        return mapping, pre, renames

    # ------------------------------------------------------------------ expansion of one function (in place)
    def expand(self, f, depth=0):
        if id(f.node) in self.done or depth > MAX_DEPTH or not isinstance(f.node, (ast.FunctionDef, ast.AsyncFunctionDef)):
            return
        self.done.add(id(f.node))
        if not any(isinstance(n, ast.Call) and (self.callee_of(f, n) or self.callee_of(f, n, gen=True)) for n in ast.walk(f.node)):
            return
        self.active.add(f.fq)
        try:
            if not hasattr(f, 'node_orig') or f.node_orig is None:
                f.node_orig = copy.deepcopy(f.node)
            f.node.body = self.block(f, f.node.body, depth)
        finally:
            self.active.discard(f.fq)

    def block(self, f, stmts, depth):
        out = []
        for s in stmts:
            out.extend(self.stmt(f, s, depth))
        return out

    def prepared(self, f, call, depth, target=None):
        """(callee Func, substituted deep copy of its body, pre-statements) or None"""
        r = self.callee_of(f, call)
        if r is None:
            return None
        g, recv, static, clsm = r
        self.expand(g, depth + 1)
        body = _body(g.node)
        if not body or sum(1 for s in body for n in ast.walk(s) if isinstance(n, ast.stmt)) > MAX_STMTS:
            return None
        b = self.bind(g, call, recv, static, clsm, _all_names(f.node))
        if b is None:
            return None
        mapping, pre, renames = b
        # `t = _helper(..)` where the helper returns its local `r`: call that local `t` (no alias t = r__helper)
        if target is not None:
            assigned = _assigned_names(g.node)
            params = {x.arg for x in g.node.args.posonlyargs + g.node.args.args + g.node.args.kwonlyargs}
            for r_ in _returns(body):
                if isinstance(r_.value, ast.Name) and r_.value.id in assigned and r_.value.id not in params \
                        and target not in (assigned - {r_.value.id}) and target not in params \
                        and target not in mapping and not any(isinstance(x, ast.Name) and x.id == target
                                                              for a_ in call.args for x in ast.walk(a_)):
                    renames[r_.value.id] = target
        tr = _Subst(mapping, renames)
        new = [tr.visit(copy.deepcopy(s)) for s in body]
        return g, new, pre

    def stmt(self, f, s, depth):
        line = getattr(s, 'lineno', 0)
        # compound statements: recurse into their blocks first
        if isinstance(s, (ast.FunctionDef, ast.AsyncFunctionDef, ast.ClassDef)):
            return [s]
        for fld in ('body', 'orelse', 'finalbody'):
            if isinstance(getattr(s, fld, None), list) and not isinstance(s, (ast.Lambda, ast.IfExp)):
                setattr(s, fld, self.block(f, getattr(s, fld), depth))
        if isinstance(s, ast.Try):
            for h in s.handlers:
                h.body = self.block(f, h.body, depth)
        if hasattr(ast, 'Match') and isinstance(s, ast.Match):
            for c in s.cases:
                c.body = self.block(f, c.body, depth)
        # 0. a private generator consumed item by item: `X.add_edges_from(_gen(..))`, `X.extend(_gen(..))`, `for t in _gen(..):`
        res = self.generator_consumer(f, s, depth)
        if res is not None:
            return res
        # 1. the call is the whole value of a simple statement
        res = self.whole_value(f, s, depth)
        if res is not None:
            return res
        # 2. calls of expression-bodied helpers anywhere in the statement's own expressions
        self.subst_expr_calls(f, s, depth)
        # 3. calls of multi-statement helpers nested in the statement's own expressions: hoisted in front of it
        #    (`if _pred(x):` -> `<body of _pred>; _inl1 = <returned>; if _inl1:`); not for while-tests
        hoisted = []
        if isinstance(s, (ast.If, ast.Assign, ast.AugAssign, ast.AnnAssign, ast.Expr, ast.Return, ast.With, ast.For,
                          ast.Raise, ast.Assert)):
            for fld, value in list(ast.iter_fields(s)):
                if fld in ('body', 'orelse', 'finalbody', 'handlers', 'cases', 'targets', 'target'):
                    continue
                for root in (value if isinstance(value, list) else [value]):
                    if not isinstance(root, ast.AST):
                        continue
                    for call in self.own_calls(root):
                        if self.callee_of(f, call) is None:
                            continue
                        self.ntemp += 1
                        tmp = f'_inl{self.ntemp}'
                        synthetic = ast.Assign(targets=[ast.Name(id=tmp, ctx=ast.Store())], value=copy.deepcopy(call),
                                               lineno=line)
                        block = self.whole_value(f, synthetic, depth)
                        if block is None:
                            continue        # not inlinable after all
                        hoisted.extend(block)
                        # turn the call node into a read of the temporary (in place)
                        call.__class__ = ast.Name
                        call.__dict__.clear()
                        call.id, call.ctx, call.lineno, call.col_offset = tmp, ast.Load(), line, 0
                        call.end_lineno, call.end_col_offset = line, 0
        return hoisted + [s]

    CONSUMERS = {'add_edges_from': ('add_edge', True), 'extend': ('append', False)}

    def generator_consumer(self, f, s, depth):
        """the body of a private generator with every `yield item` replaced by what the consumer does with the item"""
        line = getattr(s, 'lineno', 0)
        if isinstance(s, ast.Expr) and isinstance(s.value, ast.Call) and isinstance(s.value.func, ast.Attribute) \
                and s.value.func.attr in self.CONSUMERS and len(s.value.args) == 1 and not s.value.keywords \
                and isinstance(s.value.args[0], ast.Call):
            call = s.value.args[0]
            per_item, star = self.CONSUMERS[s.value.func.attr]
            recv = s.value.func.value

            def make(item):
                if star and isinstance(item, ast.Tuple):
                    args = list(item.elts)
                elif star:
                    args = [ast.Starred(value=item, ctx=ast.Load())]
                else:
                    args = [item]
                return [ast.Expr(value=ast.Call(func=ast.Attribute(value=copy.deepcopy(recv), attr=per_item, ctx=ast.Load()),
                                                args=args, keywords=[]))]
        elif isinstance(s, ast.For) and isinstance(s.iter, ast.Call) and not s.orelse and not any(
                isinstance(n, (ast.Break, ast.Continue, ast.Return)) for b in s.body for n in [b, *_walk_no_nested(b)]):
            call = s.iter

            def make(item):
                return [ast.Assign(targets=[copy.deepcopy(s.target)], value=item, lineno=line)] + copy.deepcopy(s.body)
        else:
            return None
        r = self.callee_of(f, call, gen=True)
        if r is None:
            return None
        g, recv_, static, clsm = r
        body = _body(g.node)
        if not body or sum(1 for st in body for n in ast.walk(st) if isinstance(n, ast.stmt)) > MAX_STMTS:
            return None
        b = self.bind(g, call, recv_, static, clsm, _all_names(f.node))
        if b is None:
            return None
        mapping, pre, renames = b
        tr = _Subst(mapping, renames)
        new = [tr.visit(copy.deepcopy(st)) for st in body]

        def repl(stmts):
            out = []
            for st in stmts:
                if isinstance(st, ast.Expr) and isinstance(st.value, ast.Yield):
                    out.extend(make(st.value.value))
                    continue
                for fld in ('body', 'orelse', 'finalbody'):
                    if isinstance(getattr(st, fld, None), list) and not isinstance(st, (ast.FunctionDef, ast.AsyncFunctionDef,
                                                                                         ast.ClassDef)):
                        setattr(st, fld, repl(getattr(st, fld)))
                if isinstance(st, ast.Try):
                    for h in st.handlers:
                        h.body = repl(h.body)
                out.append(st)
            return out
        res = pre + repl(new)
        self.count += 1
        self.sites.append((f.fq, g.fq))
        return _setloc([ast.fix_missing_locations(x) for x in res], line, g.fq)

    def own_calls(self, root):
        """Call nodes of an expression in evaluation-ish order, not entering lambdas / comprehensions"""
        out = []

        def rec(n):
            if isinstance(n, (ast.Lambda, ast.ListComp, ast.SetComp, ast.DictComp, ast.GeneratorExp)):
                return
            for c in ast.iter_child_nodes(n):
                rec(c)
            if isinstance(n, ast.Call):
                out.append(n)
        rec(root)
        return out

    def whole_value(self, f, s, depth):
        """statement s with the helper call that is its whole value expanded, or None"""
        line = getattr(s, 'lineno', 0)
        val = getattr(s, 'value', None) if isinstance(s, (ast.Assign, ast.AnnAssign, ast.Return, ast.Expr)) else None
        if not isinstance(val, ast.Call):
            return None
        tgt = s.targets[0].id if isinstance(s, ast.Assign) and len(s.targets) == 1 \
            and isinstance(s.targets[0], ast.Name) else None
        p = self.prepared(f, val, depth, tgt)
        if p is not None:
            g, body, pre = p
            rets = _returns(body)
            tail_only = len(rets) <= 1 and (not rets or body[-1] is rets[0])
            res = None
            if isinstance(s, ast.Return):
                res = pre + body
                if not rets or not isinstance(body[-1], ast.Return):
                    res = res + [ast.Return(value=None)]
            elif tail_only:
                res = pre + (body[:-1] if rets else body)
                e = rets[0].value if rets and rets[0].value is not None else ast.Constant(value=None)
                res = res + [self.rebind(s, e)]
            elif (structured := self.returns_to_branches(body, s)) is not None:
                res = pre + structured
            elif _return_in_loop(body):
                return None     # a `break` would only leave the callee's own loop
            else:
                last_is_return = isinstance(body[-1], ast.Return)
                body = self.replace_returns(body, s)
                if last_is_return:
                    body = body[:-1]       # the trailing `break` of the final return: the loop ends anyway
                once = ast.For(target=ast.Name(id='_once', ctx=ast.Store()),
                               iter=ast.Tuple(elts=[ast.Constant(value=0)], ctx=ast.Load()),
                               body=body + ([] if last_is_return else [self.rebind(s, ast.Constant(value=None))]),
                               orelse=[])
                res = pre + [once]
            self.count += 1
            self.sites.append((f.fq, g.fq))
            return _setloc([ast.fix_missing_locations(x) for x in res], line, g.fq)
        return None

    def rebind(self, s, e):
        if isinstance(s, ast.Assign) and len(s.targets) == 1 and isinstance(s.targets[0], ast.Name) \
                and isinstance(e, ast.Name) and e.id == s.targets[0].id:
            return ast.Pass()       # t = t
        if isinstance(s, ast.Assign):
            return ast.Assign(targets=copy.deepcopy(s.targets), value=e, lineno=0)
        if isinstance(s, ast.AnnAssign):
            return ast.AnnAssign(target=copy.deepcopy(s.target), annotation=s.annotation, value=e, simple=s.simple)
        return ast.Expr(value=e)

    def returns_to_branches(self, body, s):
        """early returns of an inlined callee as nested if/else: `if c: return a` + REST  ->  `if c: t = a` `else: REST`.
        Only when every return sits in plain if-nesting (not under with/try/loops, where moving REST would change what runs
        under the context); otherwise None (the one-iteration-loop form is used)."""
        class Unsupported(Exception):
            pass

        def has_ret(n):
            return any(isinstance(x, ast.Return) for x in [n, *_walk_no_nested(n)])

        def elim(stmts, tail):
            out = []
            for i, st in enumerate(stmts):
                if isinstance(st, ast.Return):
                    out.append(self.rebind(s, st.value if st.value is not None else ast.Constant(value=None)))
                    return out, True
                if isinstance(st, ast.Raise):
                    out.append(st)
                    return out, True
                if isinstance(st, ast.If) and has_ret(st):
                    rest = stmts[i + 1:]
                    b, tb = elim(st.body, False)
                    o, to = elim(st.orelse, False)
                    if not tb:
                        rb, tb = elim(copy.deepcopy(rest), tail)
                        b = b + rb
                    if not to:
                        ro, to = elim(copy.deepcopy(rest), tail)
                        o = o + ro
                    out.append(ast.If(test=st.test, body=b or [ast.Pass()], orelse=o))
                    return out, tb and to
                if isinstance(st, ast.For) and has_ret(st):
                    # search loop: `for ..: if c: return e` + REST  ->  `for ..: if c: t = e; break` `else: REST`
                    out.append(search_loop(st, stmts[i + 1:], tail))
                    return out, True
                if has_ret(st):
                    raise Unsupported
                out.append(st)
            if tail:
                out.append(self.rebind(s, ast.Constant(value=None)))
                return out, True
            return out, False
        def search_loop(loop, rest, tail):
            if not tail:
                raise Unsupported

            class R(ast.NodeTransformer):
                def visit_FunctionDef(self_, node):
                    return node

                def visit_Lambda(self_, node):
                    return node

                def visit_For(self_, node):
                    if has_ret(node):
                        raise Unsupported
                    return node
                visit_While = visit_With = visit_Try = visit_For

                def visit_Break(self_, node):
                    raise Unsupported      # a break of the callee's own would now skip REST

                def visit_Return(self_, node):
                    e = node.value if node.value is not None else ast.Constant(value=None)
                    return [self.rebind(s, e), ast.Break()]
            body_ = []
            for st in loop.body:
                r = R().visit(st)
                body_.extend(r if isinstance(r, list) else [r])
            rest_, _t = elim(list(loop.orelse) + list(rest), True)
            return ast.For(target=loop.target, iter=loop.iter, body=body_, orelse=rest_)
        try:
            new, _ = elim(body, True)
        except Unsupported:
            return None
        if sum(1 for x in new for n in ast.walk(x) if isinstance(n, ast.stmt)) > 3 * MAX_STMTS:
            return None
        return new

    def replace_returns(self, body, s):
        """`return e` of an inlined multi-return callee -> `<targets> = e; break` (inside the one-iteration loop)"""
        class R(ast.NodeTransformer):
            def visit_FunctionDef(self_, node):
                return node

            def visit_Lambda(self_, node):
                return node

            def visit_Return(self_, node):
                e = node.value if node.value is not None else ast.Constant(value=None)
                return [self.rebind(s, e), ast.Break()]
        out = []
        for st in body:
            r = R().visit(st)
            out.extend(r if isinstance(r, list) else [r])
        return out

    def subst_expr_calls(self, f, s, depth):
        """replace calls of expression-bodied helpers inside the expressions of statement s (not inside nested blocks)"""
        inl = self

        class T(ast.NodeTransformer):
            def visit_FunctionDef(self_, node):
                return node

            def visit_Call(self_, node):
                self_.generic_visit(node)
                r = inl.callee_of(f, node)
                if r is None:
                    return node
                g, recv, static, clsm = r
                inl.expand(g, depth + 1)
                body = _body(g.node)
                if len(body) != 1 or not isinstance(body[0], ast.Return) or body[0].value is None:
                    return node
                b = inl.bind(g, node, recv, static, clsm, set())
                if b is None:
                    return node
                mapping, pre, renames = b
                if pre:
                    # a non-trivial argument: substitute it as well (duplication is harmless for analysis)
                    for st in pre:
                        mapping[st.targets[0].id] = st.value
                e = _Subst(mapping, {}).visit(copy.deepcopy(body[0].value))
                for n in ast.walk(e):
                    if hasattr(n, 'lineno'):
                        n.lineno = getattr(s, 'lineno', 0)
                inl.count += 1
                inl.sites.append((f.fq, g.fq))
                return ast.copy_location(e, node)
        own = []
        for name, value in ast.iter_fields(s):
            if name in ('body', 'orelse', 'finalbody', 'handlers', 'cases'):
                continue
            own.append((name, value))
        t = T()
        for name, value in own:
            if isinstance(value, ast.AST):
                setattr(s, name, t.visit(value))
            elif isinstance(value, list):
                setattr(s, name, [t.visit(v) if isinstance(v, ast.AST) else v for v in value])


def expand_repo(repo):
    RENAMED_FQ.clear()
    RENAMED_FQ.update(f.fq for f in getattr(repo, 'renamed', {}).values())
    inl = Inliner(repo)
    for m in repo.modules.values():
        for f in list(m.functions.values()):
            if f.parent is None:
                inl.expand(f)
    # expanding a helper can create new comprehensions over constant tables (`_load(d, ('a', 'b'))` with the keys as an
    # argument): unroll those modules once more
    if inl.sites and os.environ.get('VERIF_NO_UNROLL') != '1':
        from .unroll import unroll
        touched = {f_.rsplit('.', 1)[0] for f_, _g in inl.sites}
        for m in repo.modules.values():
            if any(t == m.name or t.startswith(m.name + '.') for t in touched):
                _t, nu, ns = unroll(m.tree)
                repo.n_unrolled = getattr(repo, 'n_unrolled', 0) + nu
                repo.n_spliced = getattr(repo, 'n_spliced', 0) + ns
    for m in repo.modules.values():
        ast.fix_missing_locations(m.tree)
    repo.inlined_sites = inl.sites
    # a helper whose every use in its module has been expanded is no longer a unit of its own: its statements are
    # analysed in the context of each caller (lock held, loop, guard), not again without context
    repo.inlined_helpers = []
    for gfq in sorted({g for _f, g in inl.sites}):
        g = repo.func(gfq)
        m = g.module
        used = False
        for n in ast.walk(m.tree):
            if n is g.node:
                continue
            if (isinstance(n, ast.Name) and n.id == g.name) or (isinstance(n, ast.Attribute) and n.attr == g.name):
                # still referenced (not inlinable at that site, passed as a callback, ...), unless inside g itself
                if not any(x is n for x in ast.walk(g.node)):
                    used = True
                    break
        if not used:
            m.functions.pop(g.qualname, None)
            if g.cls is not None and g.cls.methods.get(g.name) is g:
                g.cls.methods.pop(g.name, None)
            for holder in ([g.cls.node] if g.cls is not None else []) + [m.tree]:
                if g.node in holder.body:
                    holder.body = [x for x in holder.body if x is not g.node]
                    if not holder.body:
                        holder.body = [ast.Pass()]
            repo.inlined_helpers.append(gfq)
    return inl.count
