"""Stale-snapshot rule: `v = Snapshot(b)` copies the state of a mutable builder `b`; a read of `v` that is reachable
from a mutation of `b` without passing a re-assignment of `v` sees the state before the mutation.

Instances are found from the source: the snapshot class must copy the builder state in its constructor (checked), the
mutating methods of the builder class are the methods that (transitively through self-calls) call a mutating method of
the wrapped networkx graph; functions that mutate a builder passed as parameter are summarised to a fixpoint."""
from __future__ import annotations

import ast

from .cfg import CFG
from .report import AnalysisError
from .srcmodel import walk_no_nested, dotted, unparse

GRAPH_MUTATORS = {'add_node', 'add_edge', 'remove_node', 'remove_edge', 'add_nodes_from', 'add_edges_from',
                  'remove_nodes_from', 'remove_edges_from', 'clear', 'update'}


def builder_mutators(repo, builder_fq: str, graph_field='_g') -> set[str]:
    c = repo.cls(builder_fq)
    mut = set()
    for name, m in c.methods.items():
        if name == '__init__':
            continue
        for call in (x for x in ast.walk(m.node) if isinstance(x, ast.Call)):
            f = call.func
            if isinstance(f, ast.Attribute) and f.attr in GRAPH_MUTATORS and unparse(f.value) == f'self.{graph_field}':
                mut.add(name)
            if dotted(f) in ('nx.relabel_nodes', 'relabel_nodes') and call.args and unparse(call.args[0]) == f'self.{graph_field}' \
                    and any(k.arg == 'copy' and isinstance(k.value, ast.Constant) and k.value.value is False
                            for k in call.keywords):
                mut.add(name)
    changed = True
    while changed:
        changed = False
        for name, m in c.methods.items():
            if name in mut or name == '__init__':
                continue
            for call in (x for x in ast.walk(m.node) if isinstance(x, ast.Call)):
                f = call.func
                if isinstance(f, ast.Attribute) and isinstance(f.value, ast.Name) and f.value.id == 'self' and f.attr in mut:
                    mut.add(name)
                    changed = True
                    break
    if len(mut) < 3:
        raise AnalysisError(f'{builder_fq}: mutating methods not recognised ({sorted(mut)})')
    return mut


def ctor_copies(repo, snap_fq: str, graph_field='_g') -> bool:
    c = repo.cls(snap_fq)
    init = c.methods.get('__init__')
    if init is None:
        raise AnalysisError(f'{snap_fq}.__init__ not found')
    for n in ast.walk(init.node):
        if isinstance(n, ast.Assign) and unparse(n.targets[0]) == f'self.{graph_field}':
            return any(isinstance(x, ast.Call) and isinstance(x.func, ast.Attribute) and x.func.attr in ('copy', 'deepcopy')
                       for x in ast.walk(n.value))
    raise AnalysisError(f'{snap_fq}.__init__ does not assign self.{graph_field}')


def param_mutation_summaries(repo, mutators: set[str]) -> dict:
    """fq function name -> set of parameter indices whose builder is mutated"""
    summ: dict[str, set[int]] = {}
    funcs = list(repo.all_funcs())
    changed = True
    rounds = 0
    while changed and rounds < 6:
        changed = False
        rounds += 1
        for f in funcs:
            ps = f.all_params
            got = summ.setdefault(f.fq, set())
            for call in (x for x in walk_no_nested(f.node) if isinstance(x, ast.Call)):
                fn = call.func
                if isinstance(fn, ast.Attribute) and isinstance(fn.value, ast.Name) and fn.attr in mutators \
                        and fn.value.id in ps:
                    i = ps.index(fn.value.id)
                    if i not in got:
                        got.add(i)
                        changed = True
                elif isinstance(fn, ast.Name):
                    try:
                        tgt = repo.resolve(f.module, fn.id)
                    except Exception:
                        tgt = None
                    tfq = tgt[1].fq if (tgt and tgt[0] == 'func') else None
                    if tfq in summ:
                        for j, a in enumerate(call.args):
                            if j in summ[tfq] and isinstance(a, ast.Name) and a.id in ps:
                                i = ps.index(a.id)
                                if i not in got:
                                    got.add(i)
                                    changed = True
    return {k: v for k, v in summ.items() if v}


def _node_ast(n):
    a = n.ast
    if a is None or isinstance(a, (ast.FunctionDef, ast.ClassDef)) or n.kind in ('dispatch', 'except', 'join', 'with_exit'):
        return None
    if n.kind == 'for':
        return a.iter
    if isinstance(a, (ast.For, ast.While, ast.If, ast.With, ast.Try)):
        return None
    return a


def stale_snapshots(repo, f, snap_names: set[str], mutators: set[str], summaries: dict):
    """yield (var, builder, snapshot node, mutation node, use node, path) for function f"""
    snaps = []
    for n in walk_no_nested(f.node):
        if isinstance(n, ast.Assign) and len(n.targets) == 1 and isinstance(n.targets[0], ast.Name) \
                and isinstance(n.value, ast.Call) and dotted(n.value.func) in snap_names and n.value.args \
                and isinstance(n.value.args[0], ast.Name):
            snaps.append((n.targets[0].id, n.value.args[0].id, n))
    if not snaps:
        return [], 0
    cfg = CFG(f.node)
    out = []
    for v, b, _ in {(v, b, None) for v, b, _ in snaps}:
        assign_nodes, mut_nodes, use_nodes = set(), set(), set()
        for n in cfg.nodes.values():
            a = _node_ast(n)
            if a is None:
                continue
            if isinstance(a, ast.Assign) and any(isinstance(t, ast.Name) and t.id == v for t in a.targets):
                assign_nodes.add(n.id)
                # uses on the right-hand side of a re-assignment happen before the assignment
                continue
            for x in [a, *walk_no_nested(a)]:
                if isinstance(x, ast.Name) and x.id == v and isinstance(x.ctx, ast.Load):
                    use_nodes.add(n.id)
                if isinstance(x, ast.Call):
                    fn = x.func
                    if isinstance(fn, ast.Attribute) and isinstance(fn.value, ast.Name) and fn.value.id == b \
                            and fn.attr in mutators:
                        mut_nodes.add(n.id)
                    elif isinstance(fn, ast.Name):
                        try:
                            tgt = repo.resolve(f.module, fn.id)
                        except Exception:
                            tgt = None
                        tfq = tgt[1].fq if (tgt and tgt[0] == 'func') else None
                        if tfq in summaries and any(j in summaries[tfq] and isinstance(a_, ast.Name) and a_.id == b
                                                    for j, a_ in enumerate(x.args)):
                            mut_nodes.add(n.id)
        # only snapshots of this builder count: v may be assigned from other things too; those are plain re-assignments
        for m in sorted(mut_nodes):
            # the snapshot must exist before the mutation for the read to be stale
            if not any(m in cfg.reachable(s, avoid=()) for s in assign_nodes):
                continue
            starts = [s for s in cfg.g.successors(m) if s not in assign_nodes]
            seen = set()
            for s in starts:
                seen |= cfg.reachable(s, avoid=assign_nodes)
            for u in sorted(seen & use_nodes):
                # the use must read a snapshot taken before the mutation: some assignment reaches m
                p = None
                for s in starts:
                    p = cfg.path(s, u, avoid=assign_nodes)
                    if p:
                        break
                out.append((v, b, cfg.nodes[m], cfg.nodes[u], cfg.describe([m] + (p or []))))
    return out, len(snaps)


BUILDER = 'pharmpy.model.statements.CompartmentalSystemBuilder'
SNAP = 'pharmpy.model.statements.CompartmentalSystem'


def run_rule(chk, rule, repo, only: set[str] | None = None, floor_funcs=1):
    """apply the stale-snapshot rule to every function (or those in `only`) that names a snapshot of a builder"""
    if not ctor_copies(repo, SNAP):
        # the system shares the builder graph: snapshots are live views, the rule has no instance
        chk.instance(rule, 'CompartmentalSystem.__init__ does not copy the builder graph: no snapshot semantics')
        return
    mut = builder_mutators(repo, BUILDER)
    summ = param_mutation_summaries(repo, mut)
    nfun = 0
    for f in repo.all_funcs():
        if only is not None and f.fq not in only:
            continue
        res, n = stale_snapshots(repo, f, {'CompartmentalSystem'}, mut, summ)
        if n:
            nfun += 1
            chk.instance(rule, f'{f.fq}: {n} named snapshot(s) of a builder, stale reads: {len(res)}')
        seen = set()
        for v, b, m, u, path in res:
            key = (v, m.text(), u.text())
            if key in seen:
                continue
            seen.add(key)
            chk.violation(rule, f.module.rel, f.qualname, f'{m.text()} ... {u.text()}',
                          f'`{v}` is a copy of builder `{b}` taken before `{m.text()}`; the read `{u.text()}` is reachable '
                          f'from that mutation without a new snapshot, so it does not see the mutation', line=u.line,
                          path=path,
                          witness='two additive terms of one compartment-to-compartment transfer in $DES (e.g. '
                                  'DADT(1) = -(KA+KB)*A(1)): the second term looks up the flow in the stale copy, finds 0 '
                                  'and overwrites the first instead of adding to it')
    if only is not None and nfun < floor_funcs:
        raise AnalysisError(f'{rule}: snapshot sites not found in {sorted(only)}')
