"""E5: grammar engine. Loads .lark files / embedded grammar strings with lark (the grammar's own
"compiler"), exposes rules, terminals (+ literal alternatives via re._parser), %ignore set, LALR tables."""
from __future__ import annotations

import ast
import re
import re._parser as sre_parse
from pathlib import Path

from lark import Lark

from .report import AnalysisError, REPO


def load_text(text: str, start='start', import_paths=(), **opts) -> Lark:
    kw = dict(start=start, parser='lalr', keep_all_tokens=True, maybe_placeholders=False,
              propagate_positions=False)
    kw.update(opts)
    try:
        return Lark(text, import_paths=list(import_paths), **kw)
    except Exception as e:   # lark raises GrammarError etc.
        raise AnalysisError(f'grammar does not load: {type(e).__name__}: {str(e)[:300]}')


def load_file(path: Path, start='root', **opts) -> Lark:
    return load_text(Path(path).read_text(), start=start, import_paths=[str(Path(path).parent)], **opts)


def embedded_grammar(module, varname='grammar') -> str:
    """string value of a module-level assignment `grammar = r\"\"\"...\"\"\"`"""
    v = module.globals_.get(varname)
    if isinstance(v, ast.Constant) and isinstance(v.value, str):
        return v.value
    raise AnalysisError(f'{module.name}.{varname} is not a string literal')


def rule_names(lark: Lark) -> set[str]:
    return {r.origin.name.value if hasattr(r.origin.name, 'value') else str(r.origin.name) for r in lark.rules}


def _name(sym):
    n = sym.name
    return n.value if hasattr(n, 'value') else str(n)


def rule_table(lark: Lark) -> dict[str, list[list[str]]]:
    """rule name -> list of expansions (symbol names; terminals upper-case)"""
    out = {}
    for r in lark.rules:
        out.setdefault(_name(r.origin), []).append([_name(s) for s in r.expansion])
    return out


def user_rules(lark: Lark) -> dict[str, list[list[str]]]:
    """rules as the tree builder sees them: names of generated helper rules (__x_star_n, __anon) are
    expanded away; returns for each user rule the set of user-rule / terminal names reachable as children"""
    tbl = rule_table(lark)
    return tbl


def children_of(lark: Lark, rule: str) -> set[str]:
    """user-visible child rule names (non-inlined: not starting with _ and not '?'-inlined) and terminals that can
    appear below `rule` before the next named rule"""
    tbl = rule_table(lark)
    opts = {}
    for r in lark.rules:
        opts[_name(r.origin)] = r.options
    seen, out = set(), set()
    stack = [rule]
    while stack:
        cur = stack.pop()
        for exp in tbl.get(cur, []):
            for s in exp:
                if s in tbl:
                    inlined = s.startswith('_') or (opts.get(s) is not None and getattr(opts[s], 'expand1', False))
                    if inlined:
                        if s not in seen:
                            seen.add(s)
                            stack.append(s)
                    else:
                        out.add(s)
                else:
                    out.add(s)
    return out


def kept_terminals_below(lark: Lark, rule: str) -> set[str]:
    """terminals that survive into the tree directly below `rule` (not filtered out), looking through
    inlined rules"""
    out, seen, stack = set(), set(), [rule]
    tblr = {}
    opts = {}
    for r in lark.rules:
        tblr.setdefault(_name(r.origin), []).append(r)
        opts[_name(r.origin)] = r.options
    while stack:
        cur = stack.pop()
        for r in tblr.get(cur, []):
            for s_ in r.expansion:
                nm = _name(s_)
                if nm in tblr:
                    inl = nm.startswith('_') or (opts.get(nm) is not None and getattr(opts[nm], 'expand1', False))
                    if inl and nm not in seen:
                        seen.add(nm)
                        stack.append(nm)
                else:
                    if not getattr(s_, 'filter_out', False):
                        out.add(nm)
    return out


def terminal_defs(lark: Lark) -> dict:
    return {t.name: t for t in lark.terminals}


def literal_alternatives(lark: Lark, tname: str) -> set[str] | None:
    """upper-cased literal alternatives of a terminal defined as "A"i | "B"i ..., else None"""
    t = terminal_defs(lark).get(tname)
    if t is None:
        return None
    rx = t.pattern.to_regexp()
    try:
        parsed = sre_parse.parse(rx)
    except re.error:
        return None
    alts = _literal_alts(parsed)
    if alts is None:
        return None
    return {a.upper() for a in alts}


def _literal_alts(parsed):
    """all strings matched by a regex built only from literals, caseless letter pairs, groups and
    alternations (re._parser factors common prefixes, so sequences may contain branches); else None"""
    outs = ['']
    for op, av in parsed:
        if op is sre_parse.LITERAL:
            outs = [o + chr(av) for o in outs]
        elif op is sre_parse.IN and len(av) == 2 and all(o is sre_parse.LITERAL for o, _ in av) \
                and chr(av[0][1]).lower() == chr(av[1][1]).lower():
            outs = [o + chr(av[0][1]) for o in outs]
        elif op is sre_parse.SUBPATTERN:
            sub = _literal_alts(av[3])
            if sub is None:
                return None
            outs = [o + x for o in outs for x in sub]
        elif op is sre_parse.BRANCH:
            subs = []
            for alt in av[1]:
                sub = _literal_alts(alt)
                if sub is None:
                    return None
                subs += sub
            outs = [o + x for o in outs for x in subs]
        else:
            return None
        if len(outs) > 500:
            return None
    return outs


def ignored(lark: Lark) -> list[str]:
    return list(lark.ignore_tokens)


def lalr_states(lark: Lark):
    try:
        return lark.parser.parser._parse_table.states
    except AttributeError:
        raise AnalysisError('installed lark does not expose LALR parse tables as expected')


def nonmem_grammar_dir() -> Path:
    d = REPO / 'src/pharmpy/model/external/nonmem/records/grammars'
    if not d.is_dir():
        raise AnalysisError(f'{d} not found')
    return d
