"""Outcome protocol shared by all checks.

exit 0  every rule instance analysed holds or is a listed known finding
exit 1  VIOLATION property=<id> replay=<path>   (an unlisted rule instance fails)
exit 2  ANALYSIS-ERROR                           (anchor vanished, floor not met, unknown idiom)
"""
from __future__ import annotations

import hashlib
import json
import os
import re
import sys
import time
import traceback
from dataclasses import dataclass, field
from pathlib import Path

VERIF = Path(__file__).resolve().parent.parent
REPO = Path(os.environ.get('VERIF_REPO', '/repo'))
KNOWN = VERIF / 'known_findings.json'
OUT = Path(os.environ.get('VERIF_OUT', str(VERIF)))   # evidence/ and replay/ live here (self-test redirects it)


class AnalysisError(Exception):
    """The analysis cannot decide: anchor vanished / unknown idiom / floor not met."""


def norm_ws(s: str) -> str:
    s = re.sub(r'\s+', ' ', s).strip()
    # keep reports printable (grammar regexes contain control characters such as \x00)
    return ''.join(c if c.isprintable() else c.encode('unicode_escape').decode() for c in s)


@dataclass
class Finding:
    rule: str
    module: str          # dotted module or file (relative to repo)
    function: str        # qualified function/class or grammar object
    construct: str       # normalised construct (statement text, table cell, state/terminal ...)
    message: str
    witness: str = ''    # how to turn it into a failing input / schedule / crash point
    line: int | None = None
    path: list = field(default_factory=list)   # CFG / call-graph path, optional
    advisory: bool = False

    @property
    def key(self) -> str:
        return f'{self.rule}|{self.module}|{self.function}|{norm_ws(self.construct)}'

    def to_json(self):
        return {
            'rule': self.rule, 'module': self.module, 'function': self.function,
            'construct': norm_ws(self.construct), 'message': self.message,
            'witness': self.witness, 'line': self.line, 'path': self.path, 'key': self.key,
        }


class Check:
    def __init__(self, property_id: str, tier: str):
        self.pid = property_id
        self.tier = tier
        self.t0 = time.time()
        self.rules: dict[str, dict] = {}
        self.findings: list[Finding] = []
        self.advisories: list[Finding] = []
        self.assumptions: list[str] = []
        self.explanation = ''
        self.extra: dict = {}
        self.seed = int(os.environ.get('VERIF_SEED', '0') or 0)

    # -- rule bookkeeping -------------------------------------------------
    def rule(self, name: str, text: str, floor: int = 1):
        # `floor` is the instance count confirmed by hand (rounded down when the rule was written). The check fails as
        # undecided when the extractor finds clearly fewer sites than that; merging two sibling functions into one or
        # folding two call sites into a loop legitimately lowers a count by one or two, so a quarter of slack is allowed
        # (never below one instance: a rule that matches nothing does not pass).
        confirmed = floor
        floor = max(1, floor - max(1, floor // 4)) if floor > 1 else floor
        self.rules[name] = {'text': text, 'floor': floor, 'confirmed': confirmed, 'instances': 0, 'samples': [], 'failed': 0}
        return name

    def instance(self, rule: str, sample=None, n: int = 1):
        r = self.rules[rule]
        r['instances'] += n
        # measured for the evidence: distinct obligations = distinct (rule, instance text); a bulk count (n > 1: "n functions
        # scanned, nothing matched") is one obligation text and counts once (conservative)
        self._distinct = getattr(self, '_distinct', set())
        self._distinct.add((rule, json.dumps(sample, sort_keys=True, default=str) if isinstance(sample, (dict, list))
                            else str(sample)))
        if sample is not None and len(r['samples']) < 6:
            r['samples'].append(sample if isinstance(sample, (dict, list)) else str(sample)[:300])

    def report(self, f: Finding):
        if f.advisory:
            self.advisories.append(f)
            return
        # de-duplicate on key
        if any(g.key == f.key for g in self.findings):
            return
        self.findings.append(f)
        if f.rule in self.rules:
            self.rules[f.rule]['failed'] += 1

    def violation(self, rule, module, function, construct, message, witness='', line=None, path=None,
                  advisory=False):
        self.report(Finding(rule, module, function, construct, message, witness, line, path or [], advisory))

    # -- finish -----------------------------------------------------------
    def _known(self):
        if not KNOWN.exists():
            return []
        data = json.loads(KNOWN.read_text())
        return [e for e in data.get('findings', []) if e.get('property') == self.pid]

    def finish(self) -> int:
        known = self._known()
        known_keys = {e['key']: e for e in known}
        new, hit = [], []
        for f in self.findings:
            (hit if f.key in known_keys else new).append(f)
        for f in hit:
            print(f'KNOWN-FINDING: property={self.pid} {f.rule} {f.module}::{f.function} :: '
                  f'{norm_ws(f.construct)[:160]} -- {f.message[:200]}')
        # floors: a rule matching fewer sites than confirmed by hand must not pass vacuously.  A definite
        # violation is still reported (exit 1); without one the run is an analysis error (exit 2).
        low = [(n, r) for n, r in self.rules.items() if r['instances'] < r['floor']]
        if low and not new:
            msg = '; '.join(f"rule {n}: {r['instances']} instances < floor {r['floor']}" for n, r in low)
            raise AnalysisError('instance floor not met (anchor moved or extractor blind): ' + msg)
        rc = 0
        replay_dir = OUT / 'replay'
        if new:
            replay_dir.mkdir(parents=True, exist_ok=True)
            for f in new:
                h = hashlib.sha1(f.key.encode()).hexdigest()[:10]
                p = replay_dir / f'{self.pid}-{f.rule}-{h}.json'
                p.write_text(json.dumps({'property': self.pid, **f.to_json()}, indent=1))
                loc = f'{f.module}:{f.line}' if f.line else f.module
                print(f'  [{f.rule}] {loc} {f.function}: {norm_ws(f.construct)[:200]}')
                print(f'      {f.message}')
                if f.witness:
                    print(f'      witness: {f.witness}')
                print(f'VIOLATION property={self.pid} replay={p}')
            rc = 1
        self._write_evidence(len(new), hit)
        n_inst = sum(r['instances'] for r in self.rules.values())
        print(f'{self.pid} [{self.tier}] rules={len(self.rules)} instances={n_inst} '
              f'violations={len(new)} known={len(hit)} advisories={len(self.advisories)} '
              f'wall={time.time() - self.t0:.2f}s')
        return rc

    def _write_evidence(self, nviol: int, hit):
        samples = []
        for n, r in self.rules.items():
            for s in r['samples'][:3]:
                samples.append({'rule': n, 'instance': s})
        n_inst = sum(r['instances'] for r in self.rules.values())
        cov = {
            'explanation': self.explanation or 'static rules over the source of /repo',
            'evaluations': max(n_inst, 1),
            'distinct_nontrivial': len(getattr(self, '_distinct', ())),
            'rule': 'one evaluation = one rule instance (site, path, table cell, grammar state or class, or one function '
                    'scanned by a shape lint) extracted from the current source. distinct_nontrivial counts the distinct '
                    '(rule, instance description) pairs: an instance is non-trivial when the rule located a construct its '
                    'obligation applies to and decided it; functions merely scanned by a shape lint without a match are '
                    'evaluations but are counted once per lint run, not per function',
            'samples': samples or [{'note': 'no samples'}],
            'rules': {n: {'text': r['text'], 'instances': r['instances'], 'floor': r['floor'],
                          'confirmed_by_hand': r.get('confirmed', r['floor']),
                          'failed': r['failed']} for n, r in self.rules.items()},
            'known_findings_hit': [f.key for f in hit],
            'advisories': [f.to_json() for f in self.advisories][:40],
            'exhaustive': True,
        }
        cov.update(self.extra)
        ev = {
            'property_id': self.pid, 'tier': self.tier, 'seed': self.seed, 'level': 'other',
            'coverage': cov,
            'assumptions': self.assumptions or ['the rules decide structural necessary conditions only'],
            'wall_s': round(time.time() - self.t0, 3), 'violations': nviol,
        }
        d = OUT / 'evidence'
        d.mkdir(parents=True, exist_ok=True)
        (d / f'{self.pid}.json').write_text(json.dumps(ev, indent=1, default=str))


def run_check(pid: str, tier: str, fn) -> int:
    """Run fn(check) under the outcome protocol."""
    chk = Check(pid, tier)
    try:
        fn(chk)
        return chk.finish()
    except AnalysisError as e:
        # a definite violation found before the analysis stopped is still a violation (exit 1); the part of the
        # analysis that could not be completed is named, and evidence says so
        known = {k['key'] for k in chk._known()}
        if any(f.key not in known for f in chk.findings):
            print(f'NOTE property={pid} analysis incomplete after the violation(s) below: {e}')
            chk.extra['analysis_incomplete'] = str(e)
            for r in chk.rules.values():
                r['floor'] = 0      # floors of rules that never ran must not mask the violation
            return chk.finish()
        print(f'ANALYSIS-ERROR property={pid} {e}')
        return 2
    except Exception:  # a crash of the analyser is never a violation
        traceback.print_exc()
        print(f'ANALYSIS-ERROR property={pid} analyser crashed (see traceback)')
        return 2
