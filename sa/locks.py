"""Lock-state analysis on the CFG (used by C15 and C16).

Facts: ('held', lock-expr-text), ('flag', name, bool), ('inc', field, key), ('yielded',)
"""
from __future__ import annotations

import ast

from . import dataflow
from .cfg import CFG
from .srcmodel import unparse, walk_no_nested

NORMAL = frozenset({'next', 'true', 'false', 'back', 'ret', 'brk', 'cont', 'fexc', 'fret', 'fbrk', 'fcont'})
EXC = frozenset({'exc'})
LOCK_CTORS = {'Lock', 'RLock', 'Condition', 'Semaphore', 'BoundedSemaphore',
              'threading.Lock', 'threading.RLock', 'threading.Condition'}


def self_attr(node):
    """'X' when node is self.X"""
    if isinstance(node, ast.Attribute) and isinstance(node.value, ast.Name) and node.value.id == 'self':
        return node.attr
    return None


def class_lock_attrs(cls) -> set[str]:
    """attributes of self used as locks in the class: `self.X.acquire(`, `with self.X:`"""
    out = set()
    for n in ast.walk(cls.node):
        if isinstance(n, ast.Call) and isinstance(n.func, ast.Attribute) \
                and n.func.attr in ('acquire', 'release', 'wait', 'notify', 'notify_all'):
            a = self_attr(n.func.value)
            if a:
                out.add(a)
        if isinstance(n, ast.With):
            for it in n.items:
                a = self_attr(it.context_expr)
                if a:
                    out.add(a)
    return out


def _self_attrs_of_value(v):
    """{X} when v is self.X, {X, Y} when v is `self.X if c else self.Y`; else empty"""
    a = self_attr(v)
    if a:
        return {a}
    if isinstance(v, ast.IfExp):
        l, r = _self_attrs_of_value(v.body), _self_attrs_of_value(v.orelse)
        return (l | r) if l and r else set()
    return set()


def local_aliases(fn_node) -> dict:
    """{local name: {self attributes it may stand for}} for locals bound to self.X / `self.X if c else self.Y`"""
    out = {}
    for n in walk_no_nested(fn_node):
        if isinstance(n, ast.Assign) and len(n.targets) == 1 and isinstance(n.targets[0], ast.Name):
            attrs = _self_attrs_of_value(n.value)
            if attrs:
                out.setdefault(n.targets[0].id, set()).update(attrs)
    return out


def class_guarded_fields(cls, lock_attrs) -> set[str]:
    """self attributes that are item-stored / item-deleted / item-augassigned outside __init__ (directly, or through a
    local bound to the attribute: `holders = self._shared_by if shared else self._exclusively_held_by; holders[k] += 1`)"""
    out = set()
    for name, f in cls.methods.items():
        if name == '__init__':
            continue
        al = local_aliases(f.node)
        for n in walk_no_nested(f.node):
            tgts = []
            if isinstance(n, ast.Assign):
                tgts = n.targets
            elif isinstance(n, ast.AugAssign):
                tgts = [n.target]
            elif isinstance(n, ast.Delete):
                tgts = n.targets
            for t in tgts:
                if isinstance(t, ast.Subscript):
                    a = self_attr(t.value)
                    if a and a not in lock_attrs:
                        out.add(a)
                    if isinstance(t.value, ast.Name) and t.value.id in al:
                        out |= al[t.value.id] - set(lock_attrs)
    return out


def _lock_call(node, locks):
    """(lockattr, method) if node is a call self.<lock>.<method>(...)"""
    if isinstance(node, ast.Call) and isinstance(node.func, ast.Attribute):
        a = self_attr(node.func.value)
        if a in locks:
            return a, node.func.attr
    return None


def _blocking_arg(call: ast.Call):
    """None = blocking acquire (always succeeds), else the expression controlling blocking"""
    for kw in call.keywords:
        if kw.arg == 'blocking':
            if isinstance(kw.value, ast.Constant) and kw.value.value is True:
                return None
            return kw.value
    if call.args:
        a = call.args[0]
        if isinstance(a, ast.Constant) and a.value is True:
            return None
        return a
    return None


def _counter_update(stmt, alias_of=None):
    """('inc'|'dec', field, keytext) for `self.F[k] += 1` / `-= 1` (F also through a local alias)"""
    if isinstance(stmt, ast.AugAssign) and isinstance(stmt.target, ast.Subscript):
        f = self_attr(stmt.target.value)
        if f is None and alias_of is not None and isinstance(stmt.target.value, ast.Name):
            f = alias_of(stmt.target.value.id)
        if f and isinstance(stmt.value, ast.Constant) and stmt.value.value == 1:
            if isinstance(stmt.op, ast.Add):
                return 'inc', f, unparse(stmt.target.slice)
            if isinstance(stmt.op, ast.Sub):
                return 'dec', f, unparse(stmt.target.slice)
    # spelled out: self.F[k] = self.F[k] + 1 / self.F.get(k, 0) + 1 (a plain dict instead of a Counter)
    if isinstance(stmt, ast.Assign) and len(stmt.targets) == 1 and isinstance(stmt.targets[0], ast.Subscript) \
            and isinstance(stmt.value, ast.BinOp) and isinstance(stmt.value.op, (ast.Add, ast.Sub)) \
            and isinstance(stmt.value.right, ast.Constant) and stmt.value.right.value == 1:
        tgt = stmt.targets[0]
        f = self_attr(tgt.value)
        if f is None and alias_of is not None and isinstance(tgt.value, ast.Name):
            f = alias_of(tgt.value.id)
        key = unparse(tgt.slice)
        left = stmt.value.left
        same = unparse(left) == unparse(tgt) or (
            isinstance(left, ast.Call) and isinstance(left.func, ast.Attribute) and left.func.attr == 'get'
            and unparse(left.func.value) == unparse(tgt.value) and left.args and unparse(left.args[0]) == key
            and (len(left.args) == 1 or (isinstance(left.args[1], ast.Constant) and left.args[1].value == 0)))
        if f and same:
            return ('inc' if isinstance(stmt.value.op, ast.Add) else 'dec'), f, key
    return None


class LockFlow:
    """lock / flag / counter dataflow for one method"""

    def __init__(self, fn_node, locks: set[str], fields=()):
        self.fn = fn_node
        self.locks = set(locks)
        self.fields = set(fields)
        self.counter_nodes = {}     # node id -> ('inc'|'dec', field, key)
        self.cfg = CFG(fn_node)
        self.flags = self._flag_names()
        self.bad_dec = []   # (node, state) decrement reached without increment
        self.states = dataflow.forward(self.cfg, frozenset(), self._transfer)

    def _flag_names(self):
        """locals assigned only boolean constants"""
        vals = {}
        for n in walk_no_nested(self.fn):
            if isinstance(n, ast.Assign):
                for t in n.targets:
                    for nm in ast.walk(t):
                        if isinstance(nm, ast.Name):
                            ok = isinstance(n.value, ast.Constant) and isinstance(n.value.value, bool) \
                                and isinstance(t, ast.Name)
                            vals.setdefault(nm.id, []).append(ok)
            elif isinstance(n, (ast.AugAssign, ast.AnnAssign, ast.For, ast.NamedExpr)):
                t = n.target
                for nm in ast.walk(t):
                    if isinstance(nm, ast.Name):
                        vals.setdefault(nm.id, []).append(False)
            elif isinstance(n, (ast.With,)):
                for it in n.items:
                    if it.optional_vars is not None:
                        for nm in ast.walk(it.optional_vars):
                            if isinstance(nm, ast.Name):
                                vals.setdefault(nm.id, []).append(False)
        a = self.fn.args
        params = {x.arg for x in a.posonlyargs + a.args + a.kwonlyargs}
        const_flags = {k for k, v in vals.items() if all(v) and k not in params}
        stable_params = {p for p in params if p not in vals and p != 'self'}
        return const_flags | stable_params

    # -- flag evaluation
    def _flag_value(self, test, st):
        if isinstance(test, ast.Name) and test.id in self.flags:
            vs = {f[2] for f in st if f[0] == 'flag' and f[1] == test.id}
            if len(vs) == 1:
                return next(iter(vs))
            return None
        if isinstance(test, ast.UnaryOp) and isinstance(test.op, ast.Not):
            v = self._flag_value(test.operand, st)
            return None if v is None else (not v)
        return None

    def _set_flag(self, st, name, val):
        st = frozenset(f for f in st if not (f[0] == 'flag' and f[1] == name))
        return st | {('flag', name, val)}

    def _can_raise(self, node) -> bool:
        """for the lock rules only calls other than lock operations, raise, assert and yield can raise
        (Counter/dict item access and lock operations are treated as non-raising)"""
        a = node.ast
        if a is None or node.kind in ('with_exit', 'join', 'dispatch', 'except'):
            return False
        if node.kind == 'with_enter':
            return self_attr(a) not in self.locks
        if node.kind == 'for':
            a = a.iter
        for n in [a, *walk_no_nested(a)]:
            if isinstance(n, (ast.Raise, ast.Assert, ast.Yield, ast.YieldFrom, ast.Await)):
                return True
            if isinstance(n, ast.Call) and not _lock_call(n, self.locks):
                # dict look-ups on the bookkeeping fields (self.F.get(k, 0), .keys(), .items()) are item accesses
                if isinstance(n.func, ast.Attribute) and n.func.attr in ('get', 'keys', 'values', 'items') \
                        and self_attr(n.func.value) in self.fields:
                    continue
                return True
        return False

    def _transfer(self, node, st):
        outs = self._transfer0(node, st)
        if not self._can_raise(node):
            res = []
            for sel, new in outs:
                sel = NORMAL if sel is None else (sel - EXC)
                if sel:
                    res.append((sel, new))
            return res
        return outs

    def _transfer0(self, node, st):
        a = node.ast
        k = node.kind
        if k == 'test':
            t_, neg = a, False
            while isinstance(t_, ast.UnaryOp) and isinstance(t_.op, ast.Not):
                t_, neg = t_.operand, not neg
            lc = _lock_call(t_, self.locks)
            if lc and lc[1] == 'acquire':
                # `if lock.acquire(..):` / `if not lock.acquire(..): raise`: held on the edge where the call was true
                held = st | {('held', lc[0])}
                got, refused = (frozenset({'false'}), frozenset({'true'})) if neg else (frozenset({'true'}), frozenset({'false'}))
                if _blocking_arg(t_) is None:
                    return [(got, held)]
                return [(got, held), (refused, st)]
            v = self._flag_value(a, st)
            if v is True:
                return [(frozenset({'true'}), st), (EXC, st)]
            if v is False:
                return [(frozenset({'false'}), st), (EXC, st)]
            nm = a.operand if isinstance(a, ast.UnaryOp) and isinstance(a.op, ast.Not) else a
            if isinstance(nm, ast.Name) and nm.id in self.flags:
                pos = nm is a
                return [(frozenset({'true'}), self._set_flag(st, nm.id, pos)),
                        (frozenset({'false'}), self._set_flag(st, nm.id, not pos)), (EXC, st)]
            return [(None, st)]
        if k == 'with_enter':
            la = self_attr(a)
            if la in self.locks:
                return [(NORMAL, st | {('held', la)})]
            return [(None, st)]
        if k == 'with_exit':
            la = self_attr(a)
            if la in self.locks:
                return [(None, st - {('held', la)})]
            return [(None, st)]
        if k in ('stmt', 'yield', 'return') and a is not None:
            if isinstance(a, ast.Expr):
                lc = _lock_call(a.value, self.locks)
                if lc:
                    la, meth = lc
                    if meth == 'acquire':
                        return [(NORMAL, st | {('held', la)})]
                    if meth == 'release':
                        return [(None, st - {('held', la)})]
                    if meth == 'notify_all':
                        return [(None, frozenset(f for f in st if f[0] != 'removed'))]
                    return [(None, st)]
            if isinstance(a, ast.Assign) and len(a.targets) == 1 and isinstance(a.targets[0], ast.Name) \
                    and a.targets[0].id in self.flags:
                new = self._set_flag(st, a.targets[0].id, a.value.value)
                return [(NORMAL, new), (EXC, st)]
            if isinstance(a, ast.Assign) and len(a.targets) == 1 and isinstance(a.targets[0], ast.Name) and self.fields:
                # local alias of a bookkeeping field: x = self.F / x = self.F if flag else self.G
                nm = a.targets[0].id
                base = frozenset(f for f in st if not (f[0] == 'alias' and f[1] == nm))
                v = a.value
                fa = self_attr(v)
                if fa in self.fields:
                    return [(None, base | {('alias', nm, fa)})]
                if isinstance(v, ast.IfExp) and self_attr(v.body) in self.fields and self_attr(v.orelse) in self.fields:
                    fv = self._flag_value(v.test, st)
                    if fv is True:
                        return [(None, base | {('alias', nm, self_attr(v.body))})]
                    if fv is False:
                        return [(None, base | {('alias', nm, self_attr(v.orelse))})]
                    t_, pos = v.test, True
                    if isinstance(t_, ast.UnaryOp) and isinstance(t_.op, ast.Not):
                        t_, pos = t_.operand, False
                    if isinstance(t_, ast.Name) and t_.id in self.flags:
                        return [(None, self._set_flag(base, t_.id, pos) | {('alias', nm, self_attr(v.body))}),
                                (None, self._set_flag(base, t_.id, not pos) | {('alias', nm, self_attr(v.orelse))})]
                    return [(None, base | {('alias', nm, self_attr(v.body))}),
                            (None, base | {('alias', nm, self_attr(v.orelse))})]
                if base != st:
                    return [(None, base)]

            def alias_of(name, st=st):
                fs = {f[2] for f in st if f[0] == 'alias' and f[1] == name}
                return next(iter(fs)) if len(fs) == 1 else None
            # removal of a holder entry (read by wait predicates) / notification of the waiters
            if isinstance(a, ast.Delete):
                rem, gone = set(), set()
                for t in a.targets:
                    if isinstance(t, ast.Subscript):
                        fld = self_attr(t.value) or (alias_of(t.value.id) if isinstance(t.value, ast.Name) else None)
                        if fld:
                            rem.add(('removed', fld))
                            gone.add(('inc', fld, unparse(t.slice)))
                if rem:
                    # deleting the entry of a key also ends the hold counted there (`if c[k] > 1: c[k] -= 1 else: del c[k]`)
                    return [(None, (st - gone) | rem)]
            if isinstance(a, ast.Expr) and isinstance(a.value, ast.Call) and isinstance(a.value.func, ast.Attribute):
                fn_ = a.value.func
                if fn_.attr in ('pop', 'clear', 'popitem'):
                    fld = self_attr(fn_.value) or (alias_of(fn_.value.id) if isinstance(fn_.value, ast.Name) else None)
                    if fld in self.fields:
                        return [(None, st | {('removed', fld)})]
                if fn_.attr in ('notify_all',) and self_attr(fn_.value) in self.locks:
                    return [(None, frozenset(f for f in st if f[0] != 'removed'))]
            cu = _counter_update(a, alias_of)
            if cu:
                self.counter_nodes[node.id] = cu
                op, f, key = cu
                fact = ('inc', f, key)
                if op == 'inc':
                    return [(NORMAL, st | {fact}), (EXC, st)]
                if fact not in st:
                    self.bad_dec.append((node, st))
                return [(None, st - {fact})]
            if k == 'yield':
                return [(None, st | {('yielded',)})]
        return [(None, st)]

    # -- queries
    def edge_ok(self, n, m, labels):
        """edge filter for CFG reachability: drop exception edges out of nodes that cannot raise"""
        return not (labels <= EXC and not self._can_raise(self.cfg.nodes[n]))

    def at(self, nid):
        return self.states.get(nid, set())

    def must_hold(self, nid, lock) -> bool:
        return dataflow.must(self.at(nid), ('held', lock))

    def may_hold(self, nid, lock) -> bool:
        return dataflow.may(self.at(nid), ('held', lock))

    def fields_touched(self, nid, expr) -> set:
        """bookkeeping fields read or written by expr at node nid: self.F, or a local that may alias self.F there"""
        out = set()
        for x in [expr, *walk_no_nested(expr)]:
            a = self_attr(x)
            if a in self.fields:
                out.add(a)
            elif isinstance(x, ast.Name):
                out |= {f[2] for st in self.at(nid) for f in st if f[0] == 'alias' and f[1] == x.id}
        return out

    def yields(self):
        return [n.id for n in self.cfg.nodes.values() if n.kind == 'yield']
