"""Index scans in whichever form they are written.

    scan(iter_expr) -> Scan(direction, first, last, whole) or None

    range(n)                 asc   first 0      last n-1
    range(a, b)              asc   first a      last b-1
    range(a, b, -1)          desc  first a      last b+1
    reversed(range(n))       desc  first n-1    last 0
    reversed(range(a, b))    desc  first b-1    last a
    reversed(xs) / xs[::-1]  desc  whole sequence
    enumerate(xs) / xs       asc   whole sequence
`first` / `last` are source texts of the first and the last index visited (simplified for +1/-1)."""
from __future__ import annotations

import ast
from dataclasses import dataclass

from .srcmodel import unparse, dotted


@dataclass
class Scan:
    direction: str      # 'asc' | 'desc'
    first: str | None
    last: str | None
    whole: bool = False

    def reaches_zero(self):
        return self.whole or (self.direction == 'desc' and self.last == '0') or (self.direction == 'asc' and self.first == '0')


def _plus(e, k):
    """source text of e + k, folding a trailing constant"""
    if isinstance(e, ast.Constant) and isinstance(e.value, int):
        return str(e.value + k)
    if isinstance(e, ast.UnaryOp) and isinstance(e.op, ast.USub) and isinstance(e.operand, ast.Constant):
        return str(-e.operand.value + k)
    if isinstance(e, ast.BinOp) and isinstance(e.right, ast.Constant) and isinstance(e.right.value, int) \
            and isinstance(e.op, (ast.Add, ast.Sub)):
        c = e.right.value if isinstance(e.op, ast.Add) else -e.right.value
        c += k
        base = unparse(e.left)
        return base if c == 0 else f'{base} + {c}' if c > 0 else f'{base} - {-c}'
    base = unparse(e)
    return base if k == 0 else f'{base} + {k}' if k > 0 else f'{base} - {-k}'


def _range(c):
    a = c.args
    if len(a) == 1:
        return Scan('asc', '0', _plus(a[0], -1))
    if len(a) == 2:
        return Scan('asc', _plus(a[0], 0), _plus(a[1], -1))
    if len(a) == 3:
        st = a[2]
        neg = isinstance(st, ast.UnaryOp) and isinstance(st.op, ast.USub) and isinstance(st.operand, ast.Constant) \
            and st.operand.value == 1
        pos = isinstance(st, ast.Constant) and st.value == 1
        if neg:
            return Scan('desc', _plus(a[0], 0), _plus(a[1], 1))
        if pos:
            return Scan('asc', _plus(a[0], 0), _plus(a[1], -1))
    return None


def scan(it):
    if isinstance(it, ast.Call) and dotted(it.func) == 'zip' and it.args:
        # zip(range(n - 1, -1, -1), reversed(xs)): the index scan is the range argument
        for a in it.args:
            s = scan(a)
            if s is not None and not s.whole:
                return s
        return scan(it.args[0])
    if isinstance(it, ast.Call) and dotted(it.func) == 'range':
        return _range(it)
    if isinstance(it, ast.Call) and dotted(it.func) == 'reversed' and it.args:
        inner = scan(it.args[0])
        if inner is None:
            return Scan('desc', None, None, whole=True)
        if inner.whole:
            return Scan('desc' if inner.direction == 'asc' else 'asc', None, None, whole=True)
        return Scan('desc' if inner.direction == 'asc' else 'asc', inner.last, inner.first)
    if isinstance(it, ast.Call) and dotted(it.func) in ('enumerate', 'list', 'tuple', 'iter') and it.args:
        return scan(it.args[0])
    if isinstance(it, ast.Subscript) and isinstance(it.slice, ast.Slice) and it.slice.step is not None \
            and unparse(it.slice.step) == '-1' and it.slice.lower is None and it.slice.upper is None:
        return Scan('desc', None, None, whole=True)
    if isinstance(it, (ast.Name, ast.Attribute, ast.Subscript)):
        return Scan('asc', None, None, whole=True)
    return None
