"""A5: lexer/parser table cross-check for the record grammars (lexer steals).

lark's contextual lexer tries, in each LALR state, the terminals acceptable in that state in the order
(-priority, -max_width, -len(value), name) and takes the first that matches; LALR look-ahead merging makes
catch-all terminals acceptable next to punctuation and keywords.  A token sentence that the *parse table*
accepts can therefore be rejected (or read differently) once it is spelled out.

Method: enumerate token-type sentences accepted by the LALR automaton (bounded length, by simulating the
table), spell each one out with canonical lexemes in two spacings (blank between all tokens / no blank where
either neighbour is punctuation), hand the text to the lark parser built from the same grammar, and compare
the token types it produces with the intended ones.  Only lark (the grammar's compiler) is run, on sentences
derived from its own tables; pharmpy is not executed.
"""
from __future__ import annotations

import re
import re._parser as sre_parse
from collections import deque

from lark import Token, Tree
from lark.parsers.lalr_analysis import Reduce, Shift

from .report import AnalysisError


class Automaton:
    def __init__(self, lark, start='root'):
        try:
            pt = lark.parser.parser._parse_table
            self.states = pt.states
            self.start = pt.start_states[start]
            self.end = pt.end_states[start]
        except (AttributeError, KeyError) as e:
            raise AnalysisError(f'lark parse table not available: {e}')
        self.terminals = {t.name: t for t in lark.terminals}
        self.ignored = set(lark.ignore_tokens)

    def step(self, stack: tuple, term: str):
        """feed one terminal; returns new stack, 'ACCEPT' or None"""
        stack = list(stack)
        while True:
            acts = self.states[stack[-1]]
            if term not in acts:
                return None
            action, arg = acts[term]
            if action is Shift:
                stack.append(arg)
                return tuple(stack)
            # reduce
            rule = arg
            n = len(rule.expansion)
            if n:
                del stack[-n:]
            _a, goto = self.states[stack[-1]][rule.origin.name]
            stack.append(goto)
            if term == '$END' and stack[-1] == self.end:
                return 'ACCEPT'

    def terms(self, state):
        return [t for t in self.states[state] if t in self.terminals or t == '$END']

    def sentences(self, maxlen=7, limit=4000, stack_depth=12, max_configs=6000):
        """token sentences accepted by the automaton that together cover every (lexer state, token, next
        lexer state, next token) quadruple of the explored configuration graph.

        Phase 1: BFS over parser configurations (stacks), remembering one shortest prefix per configuration and
        all edges.  Phase 2: shortest completion of every configuration to acceptance (backward BFS).  Phase 3:
        one sentence prefix(c) + t + t2 + completion(c'') per quadruple."""
        prefix = {(self.start,): ()}
        edges = {}            # c -> list of (t, c')
        accepting = set()
        dq = deque([(self.start,)])
        while dq and len(prefix) < max_configs:
            c = dq.popleft()
            outs = []
            for t in sorted(self.terms(c[-1])):
                if t in self.ignored:
                    continue
                r = self.step(c, t)
                if r is None:
                    continue
                if r == 'ACCEPT':
                    accepting.add(c)
                    continue
                if t == '$END':
                    continue
                outs.append((t, r))
                if r not in prefix and len(r) <= stack_depth and len(prefix[c]) < maxlen + 4:
                    prefix[r] = prefix[c] + (t,)
                    dq.append(r)
            edges[c] = outs
        # completions
        rev = {}
        for c, outs in edges.items():
            for t, r in outs:
                rev.setdefault(r, []).append((t, c))
        comp = {c: () for c in sorted(accepting, key=lambda c_: (len(prefix[c_]), prefix[c_]))}
        # deterministic order (parser states hash by identity: set order would vary from run to run)
        dq = deque(sorted(accepting, key=lambda c_: (len(prefix[c_]), prefix[c_])))
        while dq:
            r = dq.popleft()
            for t, c in rev.get(r, []):
                if c not in comp:
                    comp[c] = (t,) + comp[r]
                    dq.append(c)
        out = {}
        for c, outs in edges.items():
            if c not in prefix:
                continue
            for t, r in outs:
                if r in comp:
                    key = (c[-1], t, None, None)
                    sent = prefix[c] + (t,) + comp[r]
                    if key not in out or len(sent) < len(out[key]):
                        out[key] = sent
                for t2, r2 in edges.get(r, []):
                    if r2 not in comp:
                        continue
                    key = (c[-1], t, r[-1], t2)
                    sent = prefix[c] + (t, t2) + comp[r2]
                    if key not in out or len(sent) < len(out[key]):
                        out[key] = sent
        self.n_configs = len(prefix)
        self.n_quadruples = len(out)
        sents = sorted(set(out.values()), key=lambda s_: (len(s_), s_))
        return sents[:limit]


# ---------------------------------------------------------------------------- lexemes
def _example(parsed):
    s = ''
    for op, av in parsed:
        if op is sre_parse.LITERAL:
            s += chr(av)
        elif op is sre_parse.IN:
            neg = any(o is sre_parse.NEGATE for o, _ in av)
            if neg:
                excl = set()
                for o, a in av:
                    if o is sre_parse.LITERAL:
                        excl.add(chr(a))
                    elif o is sre_parse.CATEGORY and 'SPACE' in str(a):
                        excl |= {' ', '\t', '\n'}
                s += next(c for c in 'aA1x_' if c not in excl)
            else:
                o, a = next((o, a) for o, a in av if o is not sre_parse.NEGATE)
                if o is sre_parse.LITERAL:
                    s += chr(a)
                elif o is sre_parse.RANGE:
                    s += chr(a[0])
                elif o is sre_parse.CATEGORY:
                    s += '1' if 'DIGIT' in str(a) else ('a' if 'WORD' in str(a) else ' ')
        elif op is sre_parse.SUBPATTERN:
            s += _example(av[3])
        elif op is sre_parse.BRANCH:
            s += _example(av[1][0])
        elif op in (sre_parse.MAX_REPEAT, sre_parse.MIN_REPEAT):
            lo, hi, sub = av
            s += _example(sub) * max(lo, 1 if lo == 0 and False else lo)
        elif op is sre_parse.ANY:
            s += 'a'
        elif op is sre_parse.NOT_LITERAL:
            s += 'a' if chr(av) != 'a' else 'b'
        elif op is sre_parse.CATEGORY:
            s += '1' if 'DIGIT' in str(av) else 'a'
        # assertions and anchors contribute nothing
    return s


def _matches(rx, ex, flags):
    """ex is a spelling of the terminal: full match, or a match that needs a following context (look-ahead)"""
    try:
        if re.fullmatch(rx, ex, flags):
            return True
        for ctx in (' (', '(', ' ', '.', ' 1'):
            m = re.match(rx, ex + ctx, flags)
            if m and m.group(0) == ex:
                return True
    except re.error:
        return False
    return False


CANDIDATES = ['1', '0.1', 'A', 'x', 'abc', 'ABC1', '-INF', 'INF', '=', 'FILE.csv', 'a.b', '"a"']


def lexemes(term) -> list[str]:
    """several spellings of a terminal: one per top-level alternative"""
    p = term.pattern
    if type(p).__name__ == 'PatternStr':
        return [p.value]
    rx = p.to_regexp()
    flags = re.I if 'i' in getattr(p, 'flags', ()) else 0
    out = []
    try:
        parsed = list(sre_parse.parse(rx))
        while len(parsed) == 1 and parsed[0][0] is sre_parse.SUBPATTERN:
            parsed = list(parsed[0][1][3])
        if len(parsed) == 1 and parsed[0][0] is sre_parse.BRANCH:
            for alt in parsed[0][1][1]:
                ex = _example(alt)
                if ex and _matches(rx, ex, flags) and ex not in out:
                    out.append(ex)
    except Exception:
        pass
    first = lexeme(term)
    if first not in out:
        out.insert(0, first)
    return out[:4]


def lexeme(term) -> str:
    p = term.pattern
    if type(p).__name__ == 'PatternStr':
        return p.value
    rx = p.to_regexp()
    flags = re.I if 'i' in getattr(p, 'flags', ()) else 0
    try:
        ex = _example(sre_parse.parse(rx))
        if ex and _matches(rx, ex, flags):
            return ex
    except Exception:
        pass
    for c in CANDIDATES + ['IF', 'PHI', 'THETA', 'ETA', 'EPS', 'OMEGA', 'SIGMA', '1.']:
        if _matches(rx, c, flags):
            return c
    raise AnalysisError(f'cannot build a lexeme for terminal {term.name} /{rx}/')


def is_punct(s: str) -> bool:
    return bool(s) and not any(c.isalnum() or c == '_' for c in s)


def spell_lex(lex, tight: bool):
    out = ' '     # records start after the record name: a leading blank is the common form
    for i, s in enumerate(lex):
        if i and not (tight and (is_punct(lex[i - 1]) or is_punct(s))):
            out += ' '
        out += s
    return out


def token_types(lark, text, ignored):
    tree = lark.parse(text)
    toks = []

    def walk(n):
        for ch in n.children:
            if isinstance(ch, Tree):
                walk(ch)
            elif isinstance(ch, Token) and ch.type not in ignored:
                toks.append((ch.type, str(ch)))
    walk(tree)
    return toks


def _try(lark, auto, seq, lex, tight):
    """None when the text is read as intended, else (k, got_type, got_text, error)"""
    text = spell_lex(lex, tight)
    try:
        got = token_types(lark, text, auto.ignored)
    except Exception as e:   # lark UnexpectedInput
        msg = str(e).split('\n')[0]
        m = re.search(r"Token\('(\w+)', '([^']*)'\)", msg)
        act = (m.group(1), m.group(2)) if m else ('<no terminal>', '')
        pos = getattr(e, 'pos_in_stream', None)
        k = 0
        if pos is not None:
            cur = 1
            for i, s_ in enumerate(lex):
                idx = text.find(s_, cur - 1 if i == 0 else cur)
                if idx < 0:
                    break
                if pos < idx + len(s_):
                    k = i
                    break
                cur = idx + len(s_)
                k = i
        return k, act[0], act[1], msg[:160], text
    got_types = [t for t, _ in got]
    if got_types == list(seq):
        return None
    k = next((i for i, (x, y) in enumerate(zip(got_types, seq)) if x != y), min(len(got_types), len(seq)))
    act = got[k] if k < len(got) else ('$END', '')
    return k, act[0], act[1], f'read as {act[0]} {act[1]!r}', text


def check(lark, start='root', maxlen=7, limit=3000):
    """returns (n_sentences, n_texts, covered adjacency pairs, findings)"""
    auto = Automaton(lark, start)
    sents = auto.sentences(maxlen=maxlen, limit=limit)
    lexs = {name: lexemes(t) for name, t in auto.terminals.items()}
    findings = {}
    pairs = set()
    n_texts = 0
    for seq in sents:
        if not seq:
            continue
        base = [lexs[t][0] for t in seq]
        for tight in (False, True):
            n_texts += 1
            for a_, b_ in zip(seq, seq[1:]):
                pairs.add((a_, b_, tight))
            r = _try(lark, auto, seq, base, tight)
            if r is None:
                continue
            k, gtype, gtext, err, text = r
            k = min(k, len(seq) - 1)
            # retry with the other spellings of the token at k and of its left neighbour
            resolved = False
            for alt_k in lexs[seq[k]]:
                for alt_p in (lexs[seq[k - 1]] if k else ['']):
                    lex2 = list(base)
                    lex2[k] = alt_k
                    if k:
                        lex2[k - 1] = alt_p
                    if lex2 == base:
                        continue
                    n_texts += 1
                    if _try(lark, auto, seq, lex2, tight) is None:
                        resolved = True
                        break
                if resolved:
                    break
            if resolved:
                continue
            exp = seq[k]
            lit = base[k]
            if not tight:
                kind = 'unreadable'
            elif is_punct(lit) and gtext.startswith(lit) and len(gtext) > len(lit):
                kind = 'punct-steal'
            elif lit.startswith(gtext) and 0 < len(gtext) < len(lit):
                kind = 'prefix-steal'
            else:
                kind = 'other'
            if lit.startswith(gtext) and 0 < len(gtext) < len(lit):
                kind = 'prefix-steal'
            prev = seq[k - 1] if k else '^'
            nxt = seq[k + 1] if k + 1 < len(seq) else '$'
            key = (kind, exp, gtype, nxt if kind == 'punct-steal' else '')
            if key not in findings or len(text) < len(findings[key]['text']):
                findings[key] = dict(kind=kind, expected=exp, got=gtype, got_text=gtext, prev=prev, next=nxt,
                                     tight=tight, sentence=list(seq), text=text, error=err)
    return len(sents), n_texts, len(pairs), list(findings.values())
