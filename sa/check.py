"""CLI: /venv/bin/python -m sa.check <Cxx> [--tier quick|thorough]"""
from __future__ import annotations

import argparse
import importlib
import os
import sys

from .report import run_check


def main(argv=None):
    # deterministic iteration order of sets/dicts of strings (sentence generation, report order): fixed hash seed
    if argv is None and os.environ.get('PYTHONHASHSEED') != '0':
        env = dict(os.environ, PYTHONHASHSEED='0')
        os.execve(sys.executable, [sys.executable, '-m', 'sa.check', *sys.argv[1:]], env)
    ap = argparse.ArgumentParser()
    ap.add_argument('property')
    ap.add_argument('--tier', default=os.environ.get('VERIF_TIER') or 'quick', choices=['quick', 'thorough'])
    args = ap.parse_args(argv)
    pid = args.property
    try:
        mod = importlib.import_module(f'rules.{pid}')
    except ModuleNotFoundError:
        print(f'ANALYSIS-ERROR property={pid} no rule module')
        return 2

    def fn(chk):
        from .srcmodel import load_repo
        repo = load_repo()
        # what the normalisation layer did to the tree before the rules looked at it (sa/inline.py, sa/desugar.py)
        chk.extra['normalisation'] = {
            'explanation': 'private helpers that are not part of the confirmed tree (sa/known_helpers.json) are expanded at '
                           'their call sites; match statements are rewritten as if-chains; a private helper of the confirmed tree that was '
                           'renamed is found again under its old name (sa/renames.py); nothing of the analysed code runs',
            'helper_call_sites_expanded': repo.n_inlined,
            'helpers_expanded': sorted({g for _f, g in getattr(repo, 'inlined_sites', [])}),
            'helpers_removed_from_index': list(getattr(repo, 'inlined_helpers', [])),
            'match_statements_rewritten': getattr(repo, 'n_match_desugared', 0),
            'comprehensions_over_constant_tables_unrolled': getattr(repo, 'n_unrolled', 0),
            'dict_splats_spliced': getattr(repo, 'n_spliced', 0),
            'renamed_private_helpers_followed': {old: f.fq for old, f in sorted(getattr(repo, 'renamed', {}).items())}}
        from . import generic
        from .report import AnalysisError as _AE
        # a rule that loses its anchor stops the property's own rules (exit 2) - but the shape rules Y0 still look at the
        # tree: a definite violation they find is reported (exit 1) rather than hidden behind "cannot decide"
        stopped = None
        try:
            mod.run(chk, repo, args.tier)
        except _AE as e:
            stopped = e
        try:
            generic.run(chk, repo, pid)
        except _AE:
            if stopped is None:
                raise
        if stopped is not None:
            raise stopped
        if args.tier == 'thorough' and not os.environ.get('VERIF_SELFTEST'):
            from selftest.harness import mutants_for, run_all
            from .report import AnalysisError
            ms = mutants_for(pid)
            res = run_all(pid, ms)
            summary = [{'mutant': m.name, 'expects_rule': m.expect, 'status': st, 'info': info, 'what': m.desc}
                       for m, st, info in res]
            chk.extra['selftest'] = {
                'explanation': 'AST-located mutants of the current tree (one rule instance broken each) and the seeded '
                               'changes of /verif/seeded that this check reports (located by the text of their hunks), '
                               'applied to scratch copies; the check must report the named rule',
                'mutants': len(ms), 'killed': sum(1 for _, st, _ in res if st == 'killed'),
                'skipped': sum(1 for _, st, _ in res if st == 'skipped'), 'results': summary}
            bad = [x for x in summary if x['status'] in ('survived', 'analysis-error')]
            for x in summary:
                print(f"  selftest {x['status']:14s} {x['mutant']} (expects {x['expects_rule']})")
            if bad:
                raise AnalysisError('checker self-test: mutants not detected: ' + ', '.join(b['mutant'] for b in bad))
    return run_check(pid, args.tier, fn)


if __name__ == '__main__':
    sys.exit(main())
