"""CLI: /venv/bin/python -m sa.check <Cxx> [--tier quick|thorough]"""
from __future__ import annotations

import argparse
import importlib
import os
import sys

from .report import run_check


def main(argv=None):
    ap = argparse.ArgumentParser()
    ap.add_argument('property')
    ap.add_argument('--tier', default=os.environ.get('VERIF_TIER') or 'quick', choices=['quick', 'thorough'])
    args = ap.parse_args(argv)
    pid = args.property
    try:
        mod = importlib.import_module(f'rules.{pid}')
    except ModuleNotFoundError:
        print(f'ANALYSIS-ERROR property={pid} no rule module')
        return 2

    def fn(chk):
        from .srcmodel import load_repo
        repo = load_repo()
        mod.run(chk, repo, args.tier)
    return run_check(pid, args.tier, fn)


if __name__ == '__main__':
    sys.exit(main())
