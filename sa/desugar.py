"""E1c: `match` statements as if/elif chains (before anything else looks at the tree).

    match x:                      if x == 'A':
        case 'A': s1        ->        s1
        case 'B' | 'C': s2        elif x == 'B' or x == 'C':
        case Foo(): s3                s2
        case _: s4                elif isinstance(x, Foo): s3
                                  else: s4
`case Cls(attr=name) if guard:` is `isinstance(x, Cls) and guard` with `name` standing for `x.attr` in guard and body. A
match whose patterns bind names in another way (`case [a, b]:`, `case str() as s:`) is left alone (the CFG builds opaque
tests for it). Subject expressions that are not a plain name / attribute are evaluated once into a temporary.
Literal, singleton, class (without sub-patterns), or-patterns, wildcard, fixed-length sequence patterns over a tuple
subject and sequence patterns of literals / wildcards (with at most one `*_`) over any subject are translated; guards become `and guard`. Python's semantics for these patterns are exactly these tests
(class pattern without arguments = isinstance; literal = ==; None/True/False = is)."""
from __future__ import annotations

import ast
import copy


class _No(Exception):
    pass


def _test(subject, pat, binds=None):
    if isinstance(pat, ast.MatchClass) and not pat.patterns and pat.kwd_patterns and binds is not None \
            and isinstance(subject, (ast.Name, ast.Attribute, ast.Subscript)):
        # `case Cls(attr=name)` / `case Cls(attr=<literal>)`: isinstance + attribute tests; captured names stand for S.attr
        parts = [ast.Call(func=ast.Name(id='isinstance', ctx=ast.Load()), args=[copy.deepcopy(subject), pat.cls], keywords=[])]
        for attr, p in zip(pat.kwd_attrs, pat.kwd_patterns):
            el = ast.Attribute(value=copy.deepcopy(subject), attr=attr, ctx=ast.Load())
            if isinstance(p, ast.MatchAs) and p.pattern is None and p.name is not None:
                binds[p.name] = el
            else:
                t = _test(el, p)
                if not (isinstance(t, ast.Constant) and t.value is True):
                    parts.append(t)
        return parts[0] if len(parts) == 1 else ast.BoolOp(op=ast.And(), values=parts)
    if isinstance(pat, ast.MatchValue):
        return ast.Compare(left=copy.deepcopy(subject), ops=[ast.Eq()], comparators=[pat.value])
    if isinstance(pat, ast.MatchSingleton):
        return ast.Compare(left=copy.deepcopy(subject), ops=[ast.Is()], comparators=[ast.Constant(value=pat.value)])
    if isinstance(pat, ast.MatchOr):
        return ast.BoolOp(op=ast.Or(), values=[_test(subject, p) for p in pat.patterns])
    if isinstance(pat, ast.MatchAs) and pat.pattern is None and pat.name is None:
        return ast.Constant(value=True)
    if isinstance(pat, ast.MatchClass) and not pat.patterns and not pat.kwd_patterns:
        return ast.Call(func=ast.Name(id='isinstance', ctx=ast.Load()), args=[copy.deepcopy(subject), pat.cls], keywords=[])
    if isinstance(pat, ast.MatchSequence) and isinstance(subject, ast.Tuple) and len(subject.elts) == len(pat.patterns) \
            and not any(isinstance(p, ast.MatchStar) for p in pat.patterns):
        parts = []
        for e, p in zip(subject.elts, pat.patterns):
            if isinstance(p, ast.MatchAs) and p.pattern is None and p.name is not None and binds is not None:
                binds[p.name] = e          # `case [n, m] if n == m` over (len(a), len(b)): n stands for len(a)
                continue
            parts.append(_test(e, p, binds))
        parts = [p for p in parts if not (isinstance(p, ast.Constant) and p.value is True)]
        if not parts:
            return ast.Constant(value=True)
        return parts[0] if len(parts) == 1 else ast.BoolOp(op=ast.And(), values=parts)
    if isinstance(pat, ast.MatchSequence) and isinstance(subject, (ast.Name, ast.Attribute)):
        # a sequence pattern without bindings over a subject held in a name: `case ('context', *_)` is
        # len(S) >= 1 and S[0] == 'context' (the isinstance(S, Sequence) part of the semantics is dropped: the rules only
        # look at which elements are compared with what)
        stars = [i for i, p in enumerate(pat.patterns) if isinstance(p, ast.MatchStar)]
        if len(stars) > 1 or any(pat.patterns[i].name is not None for i in stars):
            raise _No
        k = len(pat.patterns) - len(stars)
        ln = ast.Call(func=ast.Name(id='len', ctx=ast.Load()), args=[copy.deepcopy(subject)], keywords=[])
        parts = [ast.Compare(left=ln, ops=[ast.GtE() if stars else ast.Eq()], comparators=[ast.Constant(value=k)])]
        for i, p in enumerate(pat.patterns):
            if isinstance(p, ast.MatchStar):
                continue
            idx = i if not stars or i < stars[0] else i - len(pat.patterns)
            el = ast.Subscript(value=copy.deepcopy(subject), slice=ast.Constant(value=idx), ctx=ast.Load())
            t = _test(el, p)
            if not (isinstance(t, ast.Constant) and t.value is True):
                parts.append(t)
        return parts[0] if len(parts) == 1 else ast.BoolOp(op=ast.And(), values=parts)
    raise _No


class _SubstNames(ast.NodeTransformer):
    def __init__(self, m):
        self.m = m

    def visit_Name(self, n):
        if isinstance(n.ctx, ast.Load) and n.id in self.m:
            return ast.copy_location(copy.deepcopy(self.m[n.id]), n)
        return n


class Desugar(ast.NodeTransformer):
    def __init__(self):
        self.n = 0
        self.count = 0

    def visit_Match(self, node):
        self.generic_visit(node)
        subject = node.subject
        pre = []
        simple = isinstance(subject, (ast.Name, ast.Attribute)) or (
            isinstance(subject, ast.Tuple) and all(isinstance(e, (ast.Name, ast.Attribute, ast.Constant, ast.Call))
                                                   for e in subject.elts))
        try:
            if not simple:
                self.n += 1
                tmp = f'_match{self.n}'
                pre = [ast.Assign(targets=[ast.Name(id=tmp, ctx=ast.Store())], value=subject, lineno=node.lineno)]
                subject = ast.Name(id=tmp, ctx=ast.Load())
            tests = []
            bodies = []
            for c in node.cases:
                binds = {}
                t = _test(subject, c.pattern, binds)
                guard, body = c.guard, list(c.body)
                if binds:
                    stored = {x.id for s_ in body for x in ast.walk(s_) if isinstance(x, ast.Name)
                              and isinstance(x.ctx, (ast.Store, ast.Del))}
                    sub = _SubstNames(binds)
                    if guard is not None:
                        guard = sub.visit(copy.deepcopy(guard))
                    if stored & set(binds):
                        body = [ast.Assign(targets=[ast.Name(id=k, ctx=ast.Store())], value=copy.deepcopy(v), lineno=node.lineno)
                                for k, v in binds.items()] + body
                    else:
                        body = [sub.visit(s_) for s_ in body]
                if guard is not None:
                    t = guard if isinstance(t, ast.Constant) and t.value is True else \
                        ast.BoolOp(op=ast.And(), values=[t, guard])
                tests.append(t)
                bodies.append(body)
        except _No:
            return node
        chain = None
        for body, t in reversed(list(zip(bodies, tests))):
            if isinstance(t, ast.Constant) and t.value is True and chain is None:
                chain = list(body)                       # trailing `case _:` -> else
                continue
            orelse = chain if isinstance(chain, list) else ([chain] if chain is not None else [])
            chain = ast.If(test=t, body=list(body), orelse=orelse)
        if isinstance(chain, list):
            out = pre + chain
        else:
            out = pre + [chain]
        for x in out:
            ast.copy_location(x, node)
            ast.fix_missing_locations(x)
        self.count += 1
        return out


def desugar(tree):
    d = Desugar()
    new = d.visit(tree)
    return new, d.count
