"""Abstract content of a sequence expression, independent of how the sequence is assembled.

    (f, *a, *[k[p] for p in preds])                      tuple literal with stars
    lst = list(a); lst.extend(k[t] for t in preds); (f, *lst)
    lst = [*a] + [k[p] for p in preds]

all denote  [elem f] [star a] [map k[_] over preds].   sequence_of(cfg, nid, expr) returns that list of segments:

    ('elem', text)              one element
    ('star', text)              all elements of the iterable `text`, in its order
    ('map', elt, iter, ifs)     elt (loop variable written `_`) for every item of iter; ifs = texts of filters
    ('unknown', text)           anything else
"""
from __future__ import annotations

import ast
import copy

from . import reach
from .srcmodel import unparse, dotted


def _norm_elt(elt, target):
    class T(ast.NodeTransformer):
        def visit_Name(self, node):
            if isinstance(target, ast.Name) and node.id == target.id:
                return ast.copy_location(ast.Name(id='_', ctx=node.ctx), node)
            return node
    return unparse(T().visit(copy.deepcopy(elt)))


def _text(cfg, nid, e):
    """source text of e with its local temporaries resolved (function -> computation[0])"""
    if nid is None:
        return unparse(e)
    return unparse(reach.expand_expr(cfg, nid, e))


def iterable(cfg, nid, x, depth=4):
    """segments of the elements of iterable expression x"""
    if isinstance(x, (ast.Tuple, ast.List)):
        return literal(cfg, nid, x, depth)
    if isinstance(x, ast.Call) and dotted(x.func) in ('list', 'tuple', 'iter') and len(x.args) == 1 and not x.keywords:
        return iterable(cfg, nid, x.args[0], depth)
    if isinstance(x, (ast.ListComp, ast.GeneratorExp)) and len(x.generators) == 1:
        g = x.generators[0]
        return [('map', _norm_elt(x.elt, g.target), _text(cfg, nid, g.iter), tuple(_norm_elt(i, g.target) for i in g.ifs))]
    if isinstance(x, ast.Call) and dotted(x.func) == 'map' and len(x.args) == 2 and isinstance(x.args[0], ast.Lambda) \
            and len(x.args[0].args.args) == 1:
        lam = x.args[0]
        return [('map', _norm_elt(lam.body, ast.Name(id=lam.args.args[0].arg, ctx=ast.Load())),
                 _text(cfg, nid, x.args[1]), ())]
    if isinstance(x, ast.Call) and dotted(x.func) == 'map' and len(x.args) == 2 and not x.keywords:
        # map(f, xs) with a callable that is not a literal lambda: a local alias is resolved, a bound `d.__getitem__` is d[_]
        f = reach.expand_expr(cfg, nid, x.args[0], depth=1) if nid is not None and isinstance(x.args[0], ast.Name) \
            else x.args[0]
        if isinstance(f, ast.Lambda) and len(f.args.args) == 1:
            return [('map', _norm_elt(f.body, ast.Name(id=f.args.args[0].arg, ctx=ast.Load())), _text(cfg, nid, x.args[1]), ())]
        if isinstance(f, ast.Attribute) and f.attr == '__getitem__':
            return [('map', f'{unparse(f.value)}[_]', _text(cfg, nid, x.args[1]), ())]
        if isinstance(f, (ast.Name, ast.Attribute)):
            return [('map', f'{unparse(f)}(_)', _text(cfg, nid, x.args[1]), ())]
    if isinstance(x, ast.BinOp) and isinstance(x.op, ast.Add):
        return iterable(cfg, nid, x.left, depth) + iterable(cfg, nid, x.right, depth)
    if isinstance(x, ast.Name) and depth > 0 and nid is not None:
        built = local_list(cfg, nid, x.id, depth)
        if built is not None:
            return built
        return [('star', x.id)]
    if isinstance(x, (ast.Attribute, ast.Subscript, ast.Call)):
        return [('star', unparse(x))]
    return [('unknown', unparse(x))]


def literal(cfg, nid, lit, depth=4):
    out = []
    for e in lit.elts:
        if isinstance(e, ast.Starred):
            out += iterable(cfg, nid, e.value, depth)
        else:
            out.append(('elem', _text(cfg, nid, e)))
    return out


def local_list(cfg, nid, name, depth):
    """content of a local list at node nid: its unique reaching plain assignment followed by the in-place extensions
    (extend / append / +=) that lie on every path from that assignment to nid. None when it is not such a local."""
    found, entry = reach.reaching(cfg, nid, name)
    if not entry and len(found) == 1:
        d0 = next(iter(found))
        a0 = cfg.nodes[d0].ast
        if isinstance(a0, ast.AugAssign) and isinstance(a0.op, ast.Add) and depth > 0:
            # lst += more: the content before the statement, then `more`
            before = local_list(cfg, d0, name, depth - 1)
            if before is None:
                return None
            return before + iterable(cfg, d0, a0.value, depth - 1)
    vs = reach.values(cfg, nid, name)
    if not vs or len(vs) != 1:
        return None
    d, v = vs[0]
    base = iterable(cfg, d, v, depth - 1) if not isinstance(v, ast.Name) else iterable(cfg, d, v, depth - 1)
    if isinstance(v, (ast.Attribute,)):
        return None         # an alias of something that is not built here
    muts = []
    for n in cfg.nodes.values():
        a = n.ast
        if n.kind != 'stmt' or a is None:
            continue
        seg = None
        if isinstance(a, ast.Expr) and isinstance(a.value, ast.Call) and isinstance(a.value.func, ast.Attribute) \
                and isinstance(a.value.func.value, ast.Name) and a.value.func.value.id == name and a.value.args:
            if a.value.func.attr == 'extend':
                seg = iterable(cfg, n.id, a.value.args[0], depth - 1)
            elif a.value.func.attr == 'append':
                seg = [('elem', unparse(a.value.args[0]))]
            elif a.value.func.attr in ('insert', 'remove', 'pop', 'sort', 'reverse', 'clear'):
                seg = [('unknown', unparse(a))]
        elif isinstance(a, ast.AugAssign) and isinstance(a.target, ast.Name) and a.target.id == name:
            # an augmented assignment is itself a definition: it cannot lie between d and nid when d reaches nid
            continue
        if seg is None:
            continue
        between = cfg.dominates(d, n.id) and n.id in cfg.reachable(d) and nid in cfg.reachable(n.id)
        if not between:
            continue
        if not cfg.dominates(n.id, nid) and n.id != nid:
            muts.append((n.id, [('unknown', f'conditional {unparse(a)}')]))
        else:
            muts.append((n.id, seg))
    # order the extensions by dominance (straight-line code)
    muts.sort(key=lambda m: sum(1 for o in muts if cfg.dominates(o[0], m[0])))
    out = list(base)
    for _i, seg in muts:
        out += seg
    return out


def sequence_of(cfg, nid, expr):
    if isinstance(expr, (ast.Tuple, ast.List)):
        return literal(cfg, nid, expr)
    return iterable(cfg, nid, expr)
