"""E2: statement-level control flow graph for one Python function.

Nodes are statements (or the test / iterator expression of compound statements); edges carry labels
'next', 'true', 'false', 'back', 'exc' (exception raised in the source node), 'ret', 'brk', 'cont',
and 'fexc'/'fret'/'fbrk'/'fcont' (a finally/with-exit copy completed and the pending exception /
return / break / continue continues outward).
`finally` suites and `with` exits are duplicated per continuation kind (normal / exception /
return / break / continue) so that dominance and post-dominance queries are plain graph queries.
A statement containing `yield` has an 'exc' successor (exception thrown in / generator closed).
"""
from __future__ import annotations

import ast
from dataclasses import dataclass, field

import networkx as nx

from .report import AnalysisError
from .srcmodel import unparse, walk_no_nested


@dataclass
class Node:
    id: int
    kind: str           # entry exit raise stmt test for with_enter with_exit except dispatch join yield return raiseS
    ast: object = None
    cont: str = ''      # for duplicated finally/with_exit copies: which continuation this copy serves
    label: str = ''
    item: object = None  # with_enter: the ast.withitem (for the names it binds)

    def text(self):
        if self.label:
            return self.label
        if self.ast is None:
            return self.kind
        if self.kind in ('test',):
            return 'test ' + unparse(self.ast)
        if self.kind == 'for':
            return f'for {unparse(self.ast.target)} in {unparse(self.ast.iter)}'
        if self.kind == 'with_enter':
            return 'with-enter ' + unparse(self.ast)
        if self.kind == 'with_exit':
            return f'with-exit[{self.cont}] ' + unparse(self.ast)
        if self.kind == 'except':
            return 'except ' + (unparse(self.ast.type) if self.ast.type else '')
        s = unparse(self.ast)
        return s.split('\n')[0][:200]

    @property
    def line(self):
        return getattr(self.ast, 'lineno', None)


class _WithExit:
    """synthetic statement: __exit__ of one with-item"""

    def __init__(self, item, stmt):
        self.item = item
        self.stmt = stmt
        self.lineno = stmt.lineno


@dataclass
class _Ctx:
    exc: object
    ret: object
    brk: object = None
    cont: object = None


def may_raise(node) -> bool:
    """conservative-light: a statement may raise if it contains a call, a subscript load, an
    await/yield, or is raise/assert. Attribute loads and arithmetic are treated as non-raising."""
    for n in [node, *walk_no_nested(node)]:
        if isinstance(n, (ast.Call, ast.Raise, ast.Assert, ast.Yield, ast.YieldFrom, ast.Await)):
            return True
        if isinstance(n, ast.Subscript) and isinstance(n.ctx, (ast.Load, ast.Del)):
            return True
    return False


def has_yield(node) -> bool:
    return any(isinstance(n, (ast.Yield, ast.YieldFrom)) for n in [node, *walk_no_nested(node)])


def _catches_all(h: ast.ExceptHandler) -> bool:
    if h.type is None:
        return True
    names = [unparse(t) for t in (h.type.elts if isinstance(h.type, ast.Tuple) else [h.type])]
    return any(n in ('Exception', 'BaseException') for n in names)


class CFG:
    def __init__(self, fn: ast.AST):
        self.fn = fn
        self.g = nx.DiGraph()
        self.nodes: dict[int, Node] = {}
        self.by_ast: dict[int, list[int]] = {}
        self.entry = self._new('entry')
        self.exit = self._new('exit')
        self.raise_exit = self._new('raise')
        ctx = _Ctx(exc=lambda: self.raise_exit, ret=lambda: self.exit)
        out = self._block(fn.body, [(self.entry, 'next')], ctx)
        self._connect(out, self.exit)
        self._idom = None
        self._ipdom = {}

    # ------------------------------------------------------------ construction
    def _new(self, kind, node=None, cont='', label=''):
        i = len(self.nodes)
        self.nodes[i] = Node(i, kind, node, cont, label)
        self.g.add_node(i)
        if node is not None:
            key = id(node.item) if isinstance(node, _WithExit) else id(node)
            self.by_ast.setdefault(key, []).append(i)
        return i

    def _edge(self, a, b, label):
        if self.g.has_edge(a, b):
            self.g[a][b]['labels'].add(label)
        else:
            self.g.add_edge(a, b, labels={label})

    def _connect(self, preds, node):
        for p, lab in preds:
            self._edge(p, node, lab)

    def _block(self, stmts, preds, ctx):
        for s in stmts:
            if not preds:
                # unreachable code after return/raise: still build it (disconnected) so that
                # by_ast lookups work, but it has no predecessors
                pass
            preds = self._stmt(s, preds, ctx)
        return preds

    def _simple(self, s, preds, ctx, kind='stmt'):
        if has_yield(s):
            kind = 'yield'
        n = self._new(kind, s)
        self._connect(preds, n)
        if kind == 'yield' or may_raise(s):
            self._edge(n, ctx.exc(), 'exc')
        return n

    def _stmt(self, s, preds, ctx):
        if isinstance(s, _WithExit):
            n = self._new('with_exit', s.item.context_expr, cont=getattr(s, 'cont', ''))
            self.by_ast.setdefault(id(s.item), []).append(n)
            self._connect(preds, n)
            return [(n, 'next')]
        if isinstance(s, (ast.Expr, ast.Assign, ast.AugAssign, ast.AnnAssign, ast.Delete, ast.Pass,
                          ast.Import, ast.ImportFrom, ast.Global, ast.Nonlocal, ast.Assert,
                          ast.FunctionDef, ast.AsyncFunctionDef, ast.ClassDef)):
            if isinstance(s, (ast.FunctionDef, ast.AsyncFunctionDef, ast.ClassDef)):
                n = self._new('stmt', s, label=f'def {s.name}')
                self._connect(preds, n)
                return [(n, 'next')]
            n = self._simple(s, preds, ctx)
            return [(n, 'next')]
        if isinstance(s, ast.Return):
            n = self._simple(s, preds, ctx, 'return')
            self.nodes[n].kind = 'return'
            self._edge(n, ctx.ret(), 'ret')
            return []
        if isinstance(s, ast.Raise):
            n = self._new('raiseS', s)
            self._connect(preds, n)
            self._edge(n, ctx.exc(), 'exc')
            return []
        if isinstance(s, ast.Break):
            n = self._new('stmt', s)
            self._connect(preds, n)
            if ctx.brk is None:
                raise AnalysisError('break outside loop')
            self._edge(n, ctx.brk(), 'brk')
            return []
        if isinstance(s, ast.Continue):
            n = self._new('stmt', s)
            self._connect(preds, n)
            self._edge(n, ctx.cont(), 'cont')
            return []
        if isinstance(s, ast.If):
            t = self._new('test', s.test)
            self.by_ast.setdefault(id(s), []).append(t)
            self._connect(preds, t)
            if may_raise(s.test):
                self._edge(t, ctx.exc(), 'exc')
            out = self._block(s.body, [(t, 'true')], ctx)
            out += self._block(s.orelse, [(t, 'false')], ctx) if s.orelse else [(t, 'false')]
            return out
        if isinstance(s, (ast.While, ast.For, ast.AsyncFor)):
            if isinstance(s, ast.While):
                t = self._new('test', s.test)
                raising = may_raise(s.test)
                const_true = isinstance(s.test, ast.Constant) and bool(s.test.value)
            else:
                t = self._new('for', s)
                raising = True
                const_true = False
            self.by_ast.setdefault(id(s), []).append(t)
            self._connect(preds, t)
            if raising:
                self._edge(t, ctx.exc(), 'exc')
            after = self._new('join', label='after-loop')
            if isinstance(s, ast.For) and isinstance(s.iter, (ast.Tuple, ast.List)) and len(s.iter.elts) == 1 \
                    and not isinstance(s.iter.elts[0], ast.Starred):
                # `for x in (v,):` runs its body exactly once (the form sa/inline.py gives a helper with early returns):
                # no path skips the body and none repeats it
                end = self._new('join', label='once-end')
                lctx = _Ctx(exc=ctx.exc, ret=ctx.ret, brk=lambda: after, cont=lambda: end)
                body_out = self._block(s.body, [(t, 'true')], lctx)
                self._connect(body_out, end)
                exits = [(end, 'next')]
                if s.orelse:
                    exits = self._block(s.orelse, exits, ctx)
                self._connect(exits, after)
                return [(after, 'next')]
            lctx = _Ctx(exc=ctx.exc, ret=ctx.ret, brk=lambda: after, cont=lambda: t)
            body_out = self._block(s.body, [(t, 'true')], lctx)
            self._connect([(p, 'back' if lab == 'next' else lab) for p, lab in body_out], t)
            exits = [] if const_true else [(t, 'false')]
            if s.orelse:
                exits = self._block(s.orelse, exits, ctx)
            self._connect(exits, after)
            return [(after, 'next')]
        if isinstance(s, (ast.With, ast.AsyncWith)):
            return self._with(s, list(s.items), preds, ctx)
        if isinstance(s, ast.Try):
            return self._try(s, preds, ctx)
        if hasattr(ast, 'Match') and isinstance(s, ast.Match):
            # a match that sa/desugar.py could not turn into an if-chain (patterns that bind names): one opaque test per
            # case, `__match__(subject, '<pattern>')`, bindings treated as assignments by nobody (the names stay unknown)
            out = []
            cur = preds
            for c in s.cases:
                t_ast = ast.Call(func=ast.Name(id='__match__', ctx=ast.Load()),
                                 args=[s.subject, ast.Constant(value=ast.unparse(c.pattern))], keywords=[])
                if c.guard is not None:
                    t_ast = ast.BoolOp(op=ast.And(), values=[t_ast, c.guard])
                ast.copy_location(t_ast, c.pattern)
                ast.fix_missing_locations(t_ast)
                t = self._new('test', t_ast)
                self._connect(cur, t)
                self._edge(t, ctx.exc(), 'exc')
                out += self._block(c.body, [(t, 'true')], ctx)
                cur = [(t, 'false')]
            return out + cur
        raise AnalysisError(f'CFG: unsupported statement kind {type(s).__name__} at line {getattr(s, "lineno", "?")}')

    def _finally_ctx(self, final_stmts, ctx):
        """context inside a try..finally (or with): every abrupt continuation first runs a copy of
        the finally suite, then goes to the outer target."""
        memo = {}

        def wrap(kind, outer):
            if outer is None:
                return None

            def target():
                if kind not in memo:
                    head = self._new('join', label=f'finally[{kind}]', cont=kind)
                    memo[kind] = head
                    stmts = final_stmts(kind)
                    out = self._block(stmts, [(head, 'next')], ctx)
                    self._connect([(p, 'f' + kind if lab == 'next' else lab) for p, lab in out], outer())
                return memo[kind]
            return target
        return _Ctx(exc=wrap('exc', ctx.exc), ret=wrap('ret', ctx.ret), brk=wrap('brk', ctx.brk),
                    cont=wrap('cont', ctx.cont))

    def _with(self, s, items, preds, ctx):
        if not items:
            return self._block(s.body, preds, ctx)
        item, rest = items[0], items[1:]
        n = self._new('with_enter', item.context_expr)
        self.nodes[n].item = item
        self.by_ast.setdefault(id(item), []).append(n)
        self.by_ast.setdefault(id(s), []).append(n)
        self._connect(preds, n)
        self._edge(n, ctx.exc(), 'exc')

        def final(kind):
            w = _WithExit(item, s)
            w.cont = kind
            return [w]
        inner = self._finally_ctx(final, ctx)
        out = self._with(s, rest, [(n, 'next')], inner)
        return self._block(final('normal'), out, ctx)

    def _try(self, s, preds, ctx):
        has_final = bool(s.finalbody)
        fctx = self._finally_ctx(lambda kind: s.finalbody, ctx) if has_final else ctx
        if s.handlers:
            dispatch = self._new('dispatch', s, label='except-dispatch')
            bctx = _Ctx(exc=lambda: dispatch, ret=fctx.ret, brk=fctx.brk, cont=fctx.cont)
        else:
            bctx = fctx
        out = self._block(s.body, preds, bctx)
        if s.orelse:
            out = self._block(s.orelse, out, fctx)
        if s.handlers:
            catch_all = False
            for h in s.handlers:
                hn = self._new('except', h)
                self._edge(dispatch, hn, 'exc')
                out += self._block(h.body, [(hn, 'next')], fctx)
                if _catches_all(h):
                    catch_all = True
            if not catch_all:
                self._edge(dispatch, fctx.exc(), 'exc')
        if has_final:
            out = self._block(s.finalbody, out, ctx)
        return out

    # ------------------------------------------------------------ queries
    def ids(self, node) -> list[int]:
        return self.by_ast.get(id(node), [])

    def succ(self, n, labels=None):
        for m in self.g.successors(n):
            if labels is None or self.g[n][m]['labels'] & set(labels):
                yield m

    def reachable(self, src, avoid=(), drop_edges=(), labels_excluded=(), edge_ok=None):
        """set of nodes reachable from src (src included) without entering nodes in `avoid`,
        without using edges in drop_edges, and without edges whose labels are all in labels_excluded"""
        avoid = set(avoid)
        drop = set(drop_edges)
        ex = set(labels_excluded)
        seen = set()
        stack = [src] if src not in avoid else []
        while stack:
            n = stack.pop()
            if n in seen:
                continue
            seen.add(n)
            for m in self.g.successors(n):
                if m in avoid or (n, m) in drop:
                    continue
                if ex and not (self.g[n][m]['labels'] - ex):
                    continue
                if edge_ok is not None and not edge_ok(n, m, self.g[n][m]['labels']):
                    continue
                if m not in seen:
                    stack.append(m)
        return seen

    def path(self, src, dst, avoid=(), labels_excluded=(), edge_ok=None):
        """one shortest path src->dst avoiding nodes, as list of node ids, or None"""
        avoid = set(avoid)
        ex = set(labels_excluded)
        from collections import deque
        prev = {src: None}
        dq = deque([src])
        while dq:
            n = dq.popleft()
            if n == dst:
                out = []
                while n is not None:
                    out.append(n)
                    n = prev[n]
                return out[::-1]
            for m in self.g.successors(n):
                if m in prev or (m in avoid and m != dst):
                    continue
                if ex and not (self.g[n][m]['labels'] - ex):
                    continue
                if edge_ok is not None and not edge_ok(n, m, self.g[n][m]['labels']):
                    continue
                prev[m] = n
                dq.append(m)
        return None

    def dominates(self, a, b) -> bool:
        """every path entry->b passes through a"""
        if a == b:
            return True
        return b not in self.reachable(self.entry, avoid={a})

    def edge_dominates(self, a, label, b) -> bool:
        """every path entry->b uses an edge leaving a with the given label"""
        drop = {(a, m) for m in self.g.successors(a) if self.g[a][m]['labels'] <= {label}}
        if not drop:
            return False
        return b not in self.reachable(self.entry, drop_edges=drop)

    def must_pass(self, src, dst, via) -> bool:
        """every path src->dst passes through a node of `via`"""
        return dst not in self.reachable(src, avoid=set(via) - {src})

    def postdominates(self, a, b, exit_node=None) -> bool:
        """every path b->exit passes through a"""
        ex = self.exit if exit_node is None else exit_node
        if a == b:
            return True
        return ex not in self.reachable(b, avoid={a})

    def describe(self, path):
        return [f'{self.nodes[n].line or ""}:{self.nodes[n].text()}' for n in path]

    def stmt_nodes(self):
        return [n for n in self.nodes.values() if n.ast is not None]


def build(fn_node) -> CFG:
    return CFG(fn_node)
