"""E4: table extraction from code: if/elif chains on a discriminant, Expr arithmetic -> sympy (as an
algebra normaliser for expressions that were extracted syntactically; pharmpy itself is not executed)."""
from __future__ import annotations

import ast

import sympy

from .report import AnalysisError
from .srcmodel import dotted, unparse


def to_sympy(node, env=None):
    """translate the AST of pharmpy `Expr` arithmetic into a sympy expression"""
    env = env or {}
    if isinstance(node, ast.Constant) and isinstance(node.value, (int, float)):
        return sympy.Integer(node.value) if isinstance(node.value, int) else sympy.Float(node.value)
    if isinstance(node, ast.Name):
        if node.id in env:
            v = env[node.id]
            return to_sympy(v, env) if isinstance(v, ast.AST) else v
        raise AnalysisError(f'to_sympy: unbound name {node.id}')
    if isinstance(node, ast.BinOp):
        a, b = to_sympy(node.left, env), to_sympy(node.right, env)
        if isinstance(node.op, ast.Add):
            return a + b
        if isinstance(node.op, ast.Sub):
            return a - b
        if isinstance(node.op, ast.Mult):
            return a * b
        if isinstance(node.op, ast.Div):
            return a / b
        if isinstance(node.op, ast.Pow):
            return a ** b
    if isinstance(node, ast.UnaryOp) and isinstance(node.op, ast.USub):
        return -to_sympy(node.operand, env)
    if isinstance(node, ast.Call):
        fn = dotted(node.func)
        if fn in ('Expr.symbol', 'sympy.Symbol', 'Expr') and node.args and isinstance(node.args[0], ast.Constant):
            return sympy.Symbol(str(node.args[0].value))
        if fn in ('Expr.symbol',) and node.args and isinstance(node.args[0], ast.JoinedStr):
            return sympy.Symbol(unparse(node.args[0]))
        if fn in ('Expr.integer', 'sympy.Integer') and node.args:
            return to_sympy(node.args[0], env)
        if fn == 'Expr.function' and node.args:
            a0 = node.args[0]
            # Expr.function(<comp>.amount.name, 't') -> amount symbol of that compartment
            if isinstance(a0, ast.Attribute) and unparse(a0).endswith('.amount.name'):
                comp = unparse(a0).split('.')[0]
                nm = env.get('__compname__', {}).get(comp, comp)
                return sympy.Symbol(f'A_{nm}')
            if isinstance(a0, ast.Constant):
                return sympy.Symbol(str(a0.value))
    raise AnalysisError(f'to_sympy: unsupported expression {unparse(node)[:80]}')


def if_chain(fn_node, discr: str):
    """{literal or None(else): list of statements} for an if/elif/else chain on `discr == 'lit'`
    (also `discr == 'a' or discr == 'b'`)"""
    out = {}
    body = [s for s in fn_node.body if not (isinstance(s, ast.Expr) and isinstance(s.value, ast.Constant))]
    node = next((s for s in body if isinstance(s, ast.If)), None)
    while node is not None:
        lits = []
        for c in ([node.test] if isinstance(node.test, ast.Compare) else
                  (node.test.values if isinstance(node.test, ast.BoolOp) and isinstance(node.test.op, ast.Or) else [])):
            if isinstance(c, ast.Compare) and unparse(c.left) == discr and isinstance(c.ops[0], ast.Eq) \
                    and isinstance(c.comparators[0], ast.Constant):
                lits.append(c.comparators[0].value)
        if not lits:
            out[('other', unparse(node.test))] = node.body
        for l_ in lits:
            out[l_] = node.body
        if len(node.orelse) == 1 and isinstance(node.orelse[0], ast.If):
            node = node.orelse[0]
        else:
            if node.orelse:
                out[None] = node.orelse
            node = None
    return out


def equal(a, b) -> bool:
    d = sympy.simplify(sympy.together(a - b))
    return d == 0


class Undecidable(Exception):
    pass


def eval_pred(e, env):
    """evaluate a side-effect free predicate over a finite environment of python values (names -> values);
    supports comparisons (incl. in / not in / is / is not), and/or/not, constants, unary minus, tuples and sets"""
    if isinstance(e, ast.Constant):
        return e.value
    if isinstance(e, ast.Name):
        if e.id in env:
            return env[e.id]
        raise Undecidable(f'free name {e.id}')
    if isinstance(e, ast.UnaryOp):
        v = eval_pred(e.operand, env)
        if isinstance(e.op, ast.Not):
            return not v
        if isinstance(e.op, ast.USub):
            return -v
    if isinstance(e, ast.Attribute):
        key = ast.unparse(e)
        if key in env:
            return env[key]
        raise Undecidable(f'free attribute {key}')
    if isinstance(e, ast.BoolOp):
        # three-valued: a decidable dominating operand decides the whole expression
        vals, undec = [], None
        for v in e.values:
            try:
                vals.append(bool(eval_pred(v, env)))
            except Undecidable as u:
                undec = u
        if isinstance(e.op, ast.And):
            if any(v is False for v in vals):
                return False
            if undec is not None:
                raise undec
            return True
        if any(vals):
            return True
        if undec is not None:
            raise undec
        return False
    if isinstance(e, (ast.Tuple, ast.List, ast.Set)):
        return type({ast.Tuple: (), ast.List: [], ast.Set: set()}[type(e)])(eval_pred(x, env) for x in e.elts)
    if isinstance(e, ast.Subscript):
        return eval_pred(e.value, env)[eval_pred(e.slice, env)]
    if isinstance(e, ast.BinOp) and isinstance(e.op, (ast.Add, ast.Sub)):
        a, b = eval_pred(e.left, env), eval_pred(e.right, env)
        return a + b if isinstance(e.op, ast.Add) else a - b
    if isinstance(e, ast.Compare):
        left = eval_pred(e.left, env)
        for op, c in zip(e.ops, e.comparators):
            right = eval_pred(c, env)
            r = {ast.Eq: lambda a, b: a == b, ast.NotEq: lambda a, b: a != b, ast.Lt: lambda a, b: a < b,
                 ast.LtE: lambda a, b: a <= b, ast.Gt: lambda a, b: a > b, ast.GtE: lambda a, b: a >= b,
                 ast.In: lambda a, b: a in b, ast.NotIn: lambda a, b: a not in b, ast.Is: lambda a, b: a is b,
                 ast.IsNot: lambda a, b: a is not b}[type(op)](left, right)
            if not r:
                return False
            left = right
        return True
    raise Undecidable(ast.dump(e)[:80])
