"""E4: table extraction from code: if/elif chains on a discriminant, Expr arithmetic -> sympy (as an
algebra normaliser for expressions that were extracted syntactically; pharmpy itself is not executed)."""
from __future__ import annotations

import ast

import sympy

from .report import AnalysisError
from .srcmodel import dotted, unparse


def to_sympy(node, env=None):
    """translate the AST of pharmpy `Expr` arithmetic into a sympy expression"""
    env = env or {}
    if isinstance(node, ast.Constant) and isinstance(node.value, (int, float)):
        return sympy.Integer(node.value) if isinstance(node.value, int) else sympy.Float(node.value)
    if isinstance(node, ast.Name):
        if node.id in env:
            v = env[node.id]
            return to_sympy(v, env) if isinstance(v, ast.AST) else v
        raise AnalysisError(f'to_sympy: unbound name {node.id}')
    if isinstance(node, ast.BinOp):
        a, b = to_sympy(node.left, env), to_sympy(node.right, env)
        if isinstance(node.op, ast.Add):
            return a + b
        if isinstance(node.op, ast.Sub):
            return a - b
        if isinstance(node.op, ast.Mult):
            return a * b
        if isinstance(node.op, ast.Div):
            return a / b
        if isinstance(node.op, ast.Pow):
            return a ** b
    if isinstance(node, ast.UnaryOp) and isinstance(node.op, ast.USub):
        return -to_sympy(node.operand, env)
    if isinstance(node, ast.Call):
        fn = dotted(node.func)
        if fn in ('Expr.symbol', 'sympy.Symbol', 'Expr') and node.args and isinstance(node.args[0], ast.Constant):
            return sympy.Symbol(str(node.args[0].value))
        if fn in ('Expr.symbol',) and node.args and isinstance(node.args[0], ast.JoinedStr):
            return sympy.Symbol(unparse(node.args[0]))
        if fn in ('Expr.integer', 'sympy.Integer') and node.args:
            return to_sympy(node.args[0], env)
        if fn == 'Expr.function' and node.args:
            a0 = node.args[0]
            # Expr.function(<comp>.amount.name, 't') -> amount symbol of that compartment
            if isinstance(a0, ast.Attribute) and unparse(a0).endswith('.amount.name'):
                comp = unparse(a0).split('.')[0]
                nm = env.get('__compname__', {}).get(comp, comp)
                return sympy.Symbol(f'A_{nm}')
            if isinstance(a0, ast.Constant):
                return sympy.Symbol(str(a0.value))
    raise AnalysisError(f'to_sympy: unsupported expression {unparse(node)[:80]}')


def if_chain(fn_node, discr: str):
    """{literal or None(else): list of statements} for an if/elif/else chain on `discr == 'lit'`
    (also `discr == 'a' or discr == 'b'`)"""
    out = {}
    body = [s for s in fn_node.body if not (isinstance(s, ast.Expr) and isinstance(s.value, ast.Constant))]
    node = next((s for s in body if isinstance(s, ast.If)), None)
    while node is not None:
        lits = []
        for c in ([node.test] if isinstance(node.test, ast.Compare) else
                  (node.test.values if isinstance(node.test, ast.BoolOp) and isinstance(node.test.op, ast.Or) else [])):
            if isinstance(c, ast.Compare) and unparse(c.left) == discr and isinstance(c.ops[0], ast.Eq) \
                    and isinstance(c.comparators[0], ast.Constant):
                lits.append(c.comparators[0].value)
        if not lits:
            out[('other', unparse(node.test))] = node.body
        for l_ in lits:
            out[l_] = node.body
        if len(node.orelse) == 1 and isinstance(node.orelse[0], ast.If):
            node = node.orelse[0]
        else:
            if node.orelse:
                out[None] = node.orelse
            node = None
    return out


def equal(a, b) -> bool:
    d = sympy.simplify(sympy.together(a - b))
    return d == 0


class Undecidable(Exception):
    pass


def eval_pred(e, env):
    """evaluate a side-effect free predicate over a finite environment of python values (names -> values);
    supports comparisons (incl. in / not in / is / is not), and/or/not, constants, unary minus, tuples and sets"""
    if isinstance(e, ast.Constant):
        return e.value
    if isinstance(e, ast.Name):
        if e.id in env:
            return env[e.id]
        raise Undecidable(f'free name {e.id}')
    if isinstance(e, ast.UnaryOp):
        v = eval_pred(e.operand, env)
        if isinstance(e.op, ast.Not):
            return not v
        if isinstance(e.op, ast.USub):
            return -v
    if isinstance(e, ast.Attribute):
        key = ast.unparse(e)
        if key in env:
            return env[key]
        raise Undecidable(f'free attribute {key}')
    if isinstance(e, ast.BoolOp):
        # three-valued: a decidable dominating operand decides the whole expression
        vals, undec = [], None
        for v in e.values:
            try:
                vals.append(bool(eval_pred(v, env)))
            except Undecidable as u:
                undec = u
        if isinstance(e.op, ast.And):
            if any(v is False for v in vals):
                return False
            if undec is not None:
                raise undec
            return True
        if any(vals):
            return True
        if undec is not None:
            raise undec
        return False
    if isinstance(e, (ast.Tuple, ast.List, ast.Set)):
        return type({ast.Tuple: (), ast.List: [], ast.Set: set()}[type(e)])(eval_pred(x, env) for x in e.elts)
    if isinstance(e, ast.Subscript):
        return eval_pred(e.value, env)[eval_pred(e.slice, env)]
    if isinstance(e, ast.BinOp) and isinstance(e.op, (ast.Add, ast.Sub)):
        a, b = eval_pred(e.left, env), eval_pred(e.right, env)
        return a + b if isinstance(e.op, ast.Add) else a - b
    if isinstance(e, ast.Compare):
        left = eval_pred(e.left, env)
        for op, c in zip(e.ops, e.comparators):
            right = eval_pred(c, env)
            r = {ast.Eq: lambda a, b: a == b, ast.NotEq: lambda a, b: a != b, ast.Lt: lambda a, b: a < b,
                 ast.LtE: lambda a, b: a <= b, ast.Gt: lambda a, b: a > b, ast.GtE: lambda a, b: a >= b,
                 ast.In: lambda a, b: a in b, ast.NotIn: lambda a, b: a not in b, ast.Is: lambda a, b: a is b,
                 ast.IsNot: lambda a, b: a is not b}[type(op)](left, right)
            if not r:
                return False
            left = right
        return True
    raise Undecidable(ast.dump(e)[:80])


def const_dispatch(fnode, module=None, discr=None):
    """A dispatch on a constant key, in whichever of its forms the code uses, as {key: {variable: value node}}.

        if d == 'K': a = X; b = Y   elif d == 'L': ...          (if-chain; also `d in ('K', 'L')`)
        a, b = TABLE[d]  /  TABLE.get(d, default)                (TABLE a local or module-level dict literal of tuples)
        a = TABLE[d]  /  TABLE.get(d)                            (dict literal of scalars)
        match d: case 'K': a = X                                 (match statement)

    discr: source text of the discriminating expression, or None = any. A key may carry several variables; a variable
    assigned in the chain form only in some branches is simply absent from the others."""
    out = {}

    def add(key, var, val):
        out.setdefault(key, {})[var] = val

    def keys_of(test):
        ks = []
        for c in ([test] if isinstance(test, ast.Compare) else
                  (test.values if isinstance(test, ast.BoolOp) and isinstance(test.op, ast.Or) else [])):
            if not (isinstance(c, ast.Compare) and len(c.ops) == 1 and (discr is None or unparse(c.left) == discr)):
                return []
            if isinstance(c.ops[0], ast.Eq) and isinstance(c.comparators[0], ast.Constant):
                ks.append(c.comparators[0].value)
            elif isinstance(c.ops[0], ast.In) and isinstance(c.comparators[0], (ast.Tuple, ast.List, ast.Set)) \
                    and all(isinstance(e, ast.Constant) for e in c.comparators[0].elts):
                ks += [e.value for e in c.comparators[0].elts]
            else:
                return []
        return ks

    def assigns(stmts, keys):
        for s_ in stmts:
            if isinstance(s_, ast.Assign) and len(s_.targets) == 1:
                t = s_.targets[0]
                if isinstance(t, ast.Name):
                    for k in keys:
                        add(k, t.id, s_.value)
                elif isinstance(t, ast.Tuple) and isinstance(s_.value, ast.Tuple) and len(t.elts) == len(s_.value.elts):
                    for tt, vv in zip(t.elts, s_.value.elts):
                        if isinstance(tt, ast.Name):
                            for k in keys:
                                add(k, tt.id, vv)
            elif isinstance(s_, ast.Return) and s_.value is not None:
                for k in keys:
                    add(k, '<return>', s_.value)
            elif isinstance(s_, ast.Expr) and isinstance(s_.value, ast.Yield) and s_.value.value is not None:
                for k in keys:
                    add(k, '<yield>', s_.value.value)

    def literal(name_node):
        """dict literal a Name refers to: local assignment in fnode, else module global"""
        if isinstance(name_node, ast.Dict):
            return name_node
        if not isinstance(name_node, ast.Name):
            return None
        for n in ast.walk(fnode):
            if isinstance(n, ast.Assign) and len(n.targets) == 1 and isinstance(n.targets[0], ast.Name) \
                    and n.targets[0].id == name_node.id and isinstance(n.value, ast.Dict):
                return n.value
        if module is not None:
            v = module.globals_.get(name_node.id)
            if isinstance(v, ast.Dict):
                return v
        return None

    # a table lookup in any position (`yield (kind, TABLE[d])`, `f(TABLE.get(d))`): variable '<lookup>'
    for n in ast.walk(fnode):
        tbl = key = None
        if isinstance(n, ast.Subscript) and isinstance(n.ctx, ast.Load):
            tbl, key = n.value, n.slice
        elif isinstance(n, ast.Call) and isinstance(n.func, ast.Attribute) and n.func.attr == 'get' and n.args:
            tbl, key = n.func.value, n.args[0]
        if tbl is None or (discr is not None and unparse(key) != discr):
            continue
        d_ = literal(tbl) if isinstance(tbl, ast.Name) else None
        if d_ is not None and d_.keys and all(isinstance(k, ast.Constant) for k in d_.keys):
            for k, val in zip(d_.keys, d_.values):
                add(k.value, '<lookup>', val)
    for n in ast.walk(fnode):
        if isinstance(n, ast.If):
            ks = keys_of(n.test)
            if ks:
                assigns(n.body, ks)
        elif isinstance(n, getattr(ast, 'Match', ())):
            if discr is None or unparse(n.subject) == discr:
                for case in n.cases:
                    pats = case.pattern.patterns if isinstance(case.pattern, ast.MatchOr) else [case.pattern]
                    ks = [p.value.value for p in pats if isinstance(p, ast.MatchValue) and isinstance(p.value, ast.Constant)]
                    if ks:
                        assigns(case.body, ks)
        elif isinstance(n, (ast.Assign, ast.Return)) and n.value is not None:
            v = n.value
            tbl = key = None
            if isinstance(v, ast.Subscript):
                tbl, key = v.value, v.slice
            elif isinstance(v, ast.Call) and isinstance(v.func, ast.Attribute) and v.func.attr == 'get' and v.args:
                tbl, key = v.func.value, v.args[0]
            if tbl is None or (discr is not None and unparse(key) != discr):
                continue
            d_ = literal(tbl)
            if d_ is None or not d_.keys or not all(isinstance(k, ast.Constant) for k in d_.keys):
                continue
            if isinstance(n, ast.Return):
                tg = '<return>'
            elif len(n.targets) == 1:
                tg = n.targets[0]
            else:
                continue
            for k, val in zip(d_.keys, d_.values):
                if isinstance(tg, ast.Tuple) and isinstance(val, ast.Tuple) and len(tg.elts) == len(val.elts):
                    for tt, vv in zip(tg.elts, val.elts):
                        if isinstance(tt, ast.Name):
                            add(k.value, tt.id, vv)
                elif isinstance(tg, ast.Name):
                    add(k.value, tg.id, val)
                elif tg == '<return>':
                    add(k.value, '<return>', val)
    return out


def const_value(e, module=None, cls=None, _depth=5):
    """value of a constant expression: literals and arithmetic on them, module-level names bound to such expressions
    (`EXT_FINAL = -1000000000`), class-level constants through self./cls./ClassName. Returns None when not constant.
    Only literal arithmetic is folded (ast.literal_eval on the substituted expression); nothing of the analysed code runs."""
    import copy

    def subst(n, depth):
        if depth == 0:
            return n
        if isinstance(n, ast.Name) and module is not None and n.id in module.globals_:
            return subst(copy.deepcopy(module.globals_[n.id]), depth - 1)
        if isinstance(n, ast.Attribute) and isinstance(n.value, ast.Name) and cls is not None \
                and n.value.id in ('self', 'cls', cls.name):
            for st in cls.node.body:
                if isinstance(st, ast.Assign) and len(st.targets) == 1 and isinstance(st.targets[0], ast.Name) \
                        and st.targets[0].id == n.attr:
                    return subst(copy.deepcopy(st.value), depth - 1)
                if isinstance(st, ast.AnnAssign) and isinstance(st.target, ast.Name) and st.target.id == n.attr \
                        and st.value is not None:
                    return subst(copy.deepcopy(st.value), depth - 1)
            return n
        for fld, val in ast.iter_fields(n):
            if isinstance(val, ast.AST):
                setattr(n, fld, subst(val, depth))
            elif isinstance(val, list):
                setattr(n, fld, [subst(v, depth) if isinstance(v, ast.AST) else v for v in val])
        return n
    x = subst(copy.deepcopy(e), _depth)

    def fold(n):
        if isinstance(n, ast.Constant):
            return n.value
        if isinstance(n, ast.UnaryOp) and isinstance(n.op, (ast.USub, ast.UAdd)):
            v = fold(n.operand)
            return None if not isinstance(v, (int, float)) else (-v if isinstance(n.op, ast.USub) else v)
        if isinstance(n, ast.BinOp):
            a, b = fold(n.left), fold(n.right)
            if isinstance(a, (int, float)) and isinstance(b, (int, float)) and not isinstance(a, bool):
                try:
                    if isinstance(n.op, ast.Add):
                        return a + b
                    if isinstance(n.op, ast.Sub):
                        return a - b
                    if isinstance(n.op, ast.Mult):
                        return a * b
                    if isinstance(n.op, ast.Pow) and abs(b) < 64:
                        return a ** b
                    if isinstance(n.op, ast.FloorDiv) and b:
                        return a // b
                except Exception:
                    return None
        if isinstance(n, (ast.Tuple, ast.List)):
            vs = [fold(x_) for x_ in n.elts]
            return None if any(v is None for v in vs) else tuple(vs)
        return None
    return fold(x)
