"""E1e: comprehensions over a constant table, unrolled; `**d` of a local dict literal, spliced.

Table-driven code says the same as the spelled-out form:

    _COMPONENTS = {'parameters': Parameters, 'statements': Statements}
    parts = {k: getattr(self, f'_{k}').to_dict() for k in _COMPONENTS}          {'parameters': self._parameters.to_dict(),
    return {'name': self.name, **parts}                                  ->      'statements': self._statements.to_dict()}
    cls(**{k: c.from_dict(d[k]) for k, c in _COMPONENTS.items()})               cls(parameters=Parameters.from_dict(d['parameters']), ...)

Before the rules look at a module, every list / set / dict comprehension and generator expression with ONE generator, no
filter, whose iterable is a literal tuple / list / set of constants or a module-level constant table (tuple, list, set, dict;
also `.items()`, `.keys()`, `.values()` of a dict table) of at most 16 entries is replaced by the literal it denotes: the loop
variables are substituted by the entries, f-strings and `'a' + 'b'` of constants are folded, `getattr(x, 'name')` becomes
`x.name`. A generator expression becomes a tuple only where it is the sole argument of tuple() / list() / set() / dict() /
sorted() / any() / all() / sum() / max() / min() or starred (its laziness cannot matter for what the rules decide: which
elements are built from what). Then a local that is assigned once, to a dict literal with constant keys, and used only as
`**local` is spliced into those sites. Purely syntactic; nothing is evaluated except constant strings."""
from __future__ import annotations

import ast
import copy

MAX = 16


def _is_const(e):
    return isinstance(e, ast.Constant) or (isinstance(e, ast.UnaryOp) and isinstance(e.operand, ast.Constant))


class _Subst(ast.NodeTransformer):
    def __init__(self, m):
        self.m = m

    def visit_Name(self, n):
        if isinstance(n.ctx, ast.Load) and n.id in self.m:
            return ast.copy_location(copy.deepcopy(self.m[n.id]), n)
        return n


class _Fold(ast.NodeTransformer):
    def visit_JoinedStr(self, n):
        self.generic_visit(n)
        parts = []
        for v in n.values:
            if isinstance(v, ast.Constant) and isinstance(v.value, str):
                parts.append(v.value)
            elif isinstance(v, ast.FormattedValue) and isinstance(v.value, ast.Constant) and v.conversion == -1 \
                    and v.format_spec is None and isinstance(v.value.value, (str, int)):
                parts.append(str(v.value.value))
            else:
                return n
        return ast.copy_location(ast.Constant(value=''.join(parts)), n)

    def visit_BinOp(self, n):
        self.generic_visit(n)
        if isinstance(n.op, ast.Add) and isinstance(n.left, ast.Constant) and isinstance(n.right, ast.Constant) \
                and isinstance(n.left.value, str) and isinstance(n.right.value, str):
            return ast.copy_location(ast.Constant(value=n.left.value + n.right.value), n)
        return n

    def visit_Call(self, n):
        self.generic_visit(n)
        if isinstance(n.func, ast.Name) and n.func.id == 'getattr' and len(n.args) == 2 and not n.keywords \
                and isinstance(n.args[1], ast.Constant) and isinstance(n.args[1].value, str) and n.args[1].value.isidentifier():
            return ast.copy_location(ast.Attribute(value=n.args[0], attr=n.args[1].value, ctx=ast.Load()), n)
        if isinstance(n.func, ast.Attribute) and n.func.attr in ('upper', 'lower') and not n.args and not n.keywords \
                and isinstance(n.func.value, ast.Constant) and isinstance(n.func.value.value, str):
            return ast.copy_location(ast.Constant(value=getattr(n.func.value.value, n.func.attr)()), n)
        return n


def _bind(target, entry):
    """{name: node} for `for target in [entry, ..]`; None when the shapes do not fit"""
    if isinstance(target, ast.Name):
        return {target.id: entry}
    if isinstance(target, (ast.Tuple, ast.List)) and isinstance(entry, (ast.Tuple, ast.List)) \
            and len(target.elts) == len(entry.elts) and not any(isinstance(t, ast.Starred) for t in target.elts):
        out = {}
        for t, e in zip(target.elts, entry.elts):
            b = _bind(t, e)
            if b is None:
                return None
            out.update(b)
        return out
    return None


class Unroll(ast.NodeTransformer):
    GEN_CONSUMERS = ('tuple', 'list', 'set', 'dict', 'sorted', 'any', 'all', 'sum', 'max', 'min', 'frozenset')

    def __init__(self, consts):
        self.consts = consts
        self.count = 0

    # -- the entries of a constant table -------------------------------------------------------------------------
    def entries(self, it):
        def lit(x):
            if isinstance(x, ast.Name) and x.id in self.consts:
                return self.consts[x.id]
            if isinstance(x, ast.Attribute) and isinstance(x.value, ast.Name) and f'{x.value.id}.{x.attr}' in self.consts:
                return self.consts[f'{x.value.id}.{x.attr}']       # a class-level table: Cls.T / self.T / cls.T
            return x
        if isinstance(it, ast.Call) and isinstance(it.func, ast.Attribute) and not it.args and not it.keywords \
                and it.func.attr in ('items', 'keys', 'values'):
            d = lit(it.func.value)
            if isinstance(d, ast.Dict) and d.keys and all(k is not None and _is_const(k) for k in d.keys):
                if it.func.attr == 'items':
                    return [ast.Tuple(elts=[k, v], ctx=ast.Load()) for k, v in zip(d.keys, d.values)]
                return list(d.keys) if it.func.attr == 'keys' else list(d.values)
            return None
        x = lit(it)
        if isinstance(x, ast.Dict) and x.keys and all(k is not None and _is_const(k) for k in x.keys):
            return list(x.keys)
        if isinstance(x, (ast.Tuple, ast.List, ast.Set)) and x.elts and not any(isinstance(e, ast.Starred) for e in x.elts):
            def entry_ok(e):
                # a constant, or a row of a table: a tuple of constants / names with at least one constant in it
                return _is_const(e) or (isinstance(e, (ast.Tuple, ast.List)) and e.elts and any(_is_const(y) for y in e.elts)
                                        and all(_is_const(y) or isinstance(y, (ast.Name, ast.Attribute)) for y in e.elts))
            if all(entry_ok(e) for e in x.elts):
                return list(x.elts)
        return None

    def expand(self, comp, make):
        if len(comp.generators) != 1:
            return None
        g = comp.generators[0]
        if g.ifs or g.is_async:
            return None
        ents = self.entries(g.iter)
        if ents is None or len(ents) > MAX:
            return None
        out = []
        for e in ents:
            b = _bind(g.target, e)
            if b is None:
                return None
            out.append(make(b))
        self.count += 1
        return out

    @staticmethod
    def _inst(expr, b):
        return _Fold().visit(_Subst(b).visit(copy.deepcopy(expr)))

    def visit_FunctionDef(self, fn):
        # locals bound once to a literal tuple / list of constants are tables too (`keys = ('a', 'b')`)
        stores = {}
        for x in ast.walk(fn):
            if isinstance(x, ast.Name) and not isinstance(x.ctx, ast.Load):
                stores[x.id] = stores.get(x.id, 0) + 1
            elif isinstance(x, ast.Call) and isinstance(x.func, ast.Attribute) and isinstance(x.func.value, ast.Name) \
                    and x.func.attr in ('append', 'extend', 'insert', 'remove', 'pop', 'sort', 'reverse', 'clear'):
                stores[x.func.value.id] = stores.get(x.func.value.id, 0) + 2
        added = []
        for a_ in ast.walk(fn):
            if isinstance(a_, ast.Assign) and len(a_.targets) == 1 and isinstance(a_.targets[0], ast.Name) \
                    and isinstance(a_.value, (ast.Tuple, ast.List)) and a_.value.elts \
                    and all(_is_const(e) for e in a_.value.elts) and stores.get(a_.targets[0].id, 0) == 1 \
                    and a_.targets[0].id not in self.consts and a_.targets[0].id not in {p.arg for p in fn.args.args}:
                self.consts[a_.targets[0].id] = a_.value
                added.append(a_.targets[0].id)
        try:
            self.generic_visit(fn)
        finally:
            for k in added:
                self.consts.pop(k, None)
        return fn

    visit_AsyncFunctionDef = visit_FunctionDef

    def visit_ClassDef(self, c):
        # class-level tables of constants (`_EQ_ATTRIBUTES = ('parameters', ..)`) read as Cls.T, self.T or cls.T in the methods
        added = []
        assigned = {}
        for s_ in c.body:
            if isinstance(s_, ast.Assign) and len(s_.targets) == 1 and isinstance(s_.targets[0], ast.Name):
                assigned[s_.targets[0].id] = assigned.get(s_.targets[0].id, 0) + 1
        for s_ in c.body:
            if isinstance(s_, ast.Assign) and len(s_.targets) == 1 and isinstance(s_.targets[0], ast.Name) \
                    and assigned[s_.targets[0].id] == 1 and isinstance(s_.value, (ast.Tuple, ast.List)) and s_.value.elts \
                    and all(_is_const(e) for e in s_.value.elts):
                for pre in (c.name, 'self', 'cls'):
                    k = f'{pre}.{s_.targets[0].id}'
                    if k not in self.consts:
                        self.consts[k] = s_.value
                        added.append(k)
        try:
            self.generic_visit(c)
        finally:
            for k in added:
                self.consts.pop(k, None)
        return c

    def visit_For(self, n):
        """`for a, b in ((x1, y1), (x2, y2)): body` over a literal table of rows: the body once per row (statement form of the
        same idea: `for name, src, dst in (('K23', central, peripheral), ('K32', peripheral, central)): ...`)"""
        self.generic_visit(n)
        it = n.iter
        # `for attr in _TABLE: if getattr(a, attr) != getattr(b, attr): return False` over a table of constants
        is_items = isinstance(it, ast.Call) and isinstance(it.func, ast.Attribute) and it.func.attr in ('items', 'keys', 'values') \
            and not it.args
        if not n.orelse and (isinstance(it, (ast.Name, ast.Attribute)) or is_items) \
                and (isinstance(n.target, ast.Name) or (isinstance(n.target, ast.Tuple) and all(
                    isinstance(t, ast.Name) for t in n.target.elts))):
            ents = self.entries(it)
            tnames = {n.target.id} if isinstance(n.target, ast.Name) else {t.id for t in n.target.elts}
            binds = [_bind(n.target, e) for e in ents] if ents is not None else None
            if ents is not None and len(ents) <= 12 and all(b is not None and all(_is_const(v) for v in b.values()) for b in binds) \
                    and not any(
                    isinstance(x, (ast.Break, ast.Continue, ast.FunctionDef, ast.Lambda, ast.AsyncFunctionDef))
                    or (isinstance(x, ast.Name) and x.id in tnames and not isinstance(x.ctx, ast.Load))
                    for s_ in n.body for x in ast.walk(s_)) \
                    and sum(1 for s_ in n.body for x in ast.walk(s_) if isinstance(x, ast.stmt)) * len(ents) <= 60:
                out = []
                for b in binds:
                    for s_ in n.body:
                        out.append(ast.copy_location(_Fold().visit(_Subst(b).visit(copy.deepcopy(s_))), s_))
                self.count += 1
                return out
        if n.orelse or not isinstance(it, (ast.Tuple, ast.List)) or not it.elts or len(it.elts) > 6 \
                or not isinstance(n.target, (ast.Tuple, ast.List)) or not all(isinstance(t, ast.Name) for t in n.target.elts):
            return n

        def simple(e):
            return _is_const(e) or isinstance(e, ast.Name) or (isinstance(e, ast.Attribute) and simple(e.value)) or (
                isinstance(e, ast.Subscript) and simple(e.value) and _is_const(e.slice))
        if not all(isinstance(r, (ast.Tuple, ast.List)) and len(r.elts) == len(n.target.elts) and all(simple(e) for e in r.elts)
                   for r in it.elts):
            return n
        names = {t.id for t in n.target.elts}
        nstmts = sum(1 for s_ in n.body for x in ast.walk(s_) if isinstance(x, ast.stmt))
        if nstmts * len(it.elts) > 40:
            return n
        for s_ in n.body:
            for x in ast.walk(s_):
                if isinstance(x, (ast.Break, ast.Continue)) or (isinstance(x, ast.Name) and x.id in names
                                                                 and not isinstance(x.ctx, ast.Load)):
                    return n
                if isinstance(x, (ast.FunctionDef, ast.Lambda, ast.AsyncFunctionDef)):
                    return n
        # a row element that the body re-binds (model = f(model, ..)) would read the new value in the loop as well: fine, the
        # substituted name denotes the same variable
        out = []
        for r in it.elts:
            b = {t.id: e for t, e in zip(n.target.elts, r.elts)}
            for s_ in n.body:
                out.append(ast.copy_location(_Fold().visit(_Subst(b).visit(copy.deepcopy(s_))), s_))
        self.count += 1
        return out

    def visit_DictComp(self, n):
        self.generic_visit(n)
        r = self.expand(n, lambda b: (self._inst(n.key, b), self._inst(n.value, b)))
        if r is None:
            return n
        return ast.copy_location(ast.Dict(keys=[k for k, _ in r], values=[v for _, v in r]), n)

    def visit_ListComp(self, n):
        self.generic_visit(n)
        r = self.expand(n, lambda b: self._inst(n.elt, b))
        return n if r is None else ast.copy_location(ast.List(elts=r, ctx=ast.Load()), n)

    def visit_SetComp(self, n):
        self.generic_visit(n)
        r = self.expand(n, lambda b: self._inst(n.elt, b))
        return n if r is None else ast.copy_location(ast.Set(elts=r), n)

    def visit_Call(self, n):
        self.generic_visit(n)
        if isinstance(n.func, ast.Name) and n.func.id in self.GEN_CONSUMERS and len(n.args) == 1 \
                and isinstance(n.args[0], ast.GeneratorExp):
            ge = n.args[0]
            r = self.expand(ge, lambda b: self._inst(ge.elt, b))
            if r is not None:
                n.args[0] = ast.copy_location(ast.Tuple(elts=r, ctx=ast.Load()), ge)
        return n

    def visit_Starred(self, n):
        self.generic_visit(n)
        if isinstance(n.value, ast.GeneratorExp):
            ge = n.value
            r = self.expand(ge, lambda b: self._inst(ge.elt, b))
            if r is not None:
                n.value = ast.copy_location(ast.Tuple(elts=r, ctx=ast.Load()), ge)
        return n


def _splice_literal_splats(tree):
    """`f(**{'a': x, 'b': y})` is `f(a=x, b=y)`; `{**{'a': x}, 'c': z}` is `{'a': x, 'c': z}` (constant string keys only)"""
    n = 0
    for x in ast.walk(tree):
        if isinstance(x, ast.Call):
            for i in range(len(x.keywords) - 1, -1, -1):
                kw = x.keywords[i]
                if kw.arg is None and isinstance(kw.value, ast.Dict) and kw.value.keys and all(
                        k is not None and isinstance(k, ast.Constant) and isinstance(k.value, str) and k.value.isidentifier()
                        for k in kw.value.keys):
                    x.keywords[i:i + 1] = [ast.keyword(arg=k.value, value=v) for k, v in zip(kw.value.keys, kw.value.values)]
                    n += 1
        elif isinstance(x, ast.Dict):
            for i in range(len(x.keys) - 1, -1, -1):
                if x.keys[i] is None and isinstance(x.values[i], ast.Dict) and all(k is not None for k in x.values[i].keys):
                    inner = x.values[i]
                    x.keys[i:i + 1] = list(inner.keys)
                    x.values[i:i + 1] = list(inner.values)
                    n += 1
    return n


def _splice_function(fn):
    """`d = {..const keys..}` assigned once and used only as `**d`: spliced into the dict literals / calls"""
    n_spliced = 0
    assigns = {}
    for s in ast.walk(fn):
        if isinstance(s, (ast.FunctionDef, ast.AsyncFunctionDef, ast.Lambda)) and s is not fn:
            continue
        if isinstance(s, ast.Assign) and len(s.targets) == 1 and isinstance(s.targets[0], ast.Name):
            assigns.setdefault(s.targets[0].id, []).append(s)
    stores = {}
    for x in ast.walk(fn):
        if isinstance(x, ast.Name) and isinstance(x.ctx, (ast.Store, ast.Del)):
            stores[x.id] = stores.get(x.id, 0) + 1
    for name, al in assigns.items():
        if len(al) != 1 or stores.get(name, 0) != 1:
            continue
        v = al[0].value
        if not (isinstance(v, ast.Dict) and v.keys and all(k is not None and isinstance(k, ast.Constant)
                                                           and isinstance(k.value, str) for k in v.keys)):
            continue
        loads = [x for x in ast.walk(fn) if isinstance(x, ast.Name) and x.id == name and isinstance(x.ctx, ast.Load)]
        sites = []
        for x in ast.walk(fn):
            if isinstance(x, ast.Dict):
                sites += [(x, i) for i, (k, val) in enumerate(zip(x.keys, x.values)) if k is None and val in loads]
            elif isinstance(x, ast.Call):
                sites += [(x, i) for i, kw in enumerate(x.keywords) if kw.arg is None and kw.value in loads]
        if not loads or len(sites) != len(loads):
            continue
        for x, i in sorted(sites, key=lambda t: -t[1]):
            if isinstance(x, ast.Dict):
                x.keys[i:i + 1] = [copy.deepcopy(k) for k in v.keys]
                x.values[i:i + 1] = [copy.deepcopy(val) for val in v.values]
            else:
                if not all(k.value.isidentifier() for k in v.keys):
                    break
                x.keywords[i:i + 1] = [ast.keyword(arg=k.value, value=copy.deepcopy(val)) for k, val in zip(v.keys, v.values)]
        else:
            # the assignment itself is dropped (its value now lives at the use sites)
            for parent in ast.walk(fn):
                for fld in ('body', 'orelse', 'finalbody'):
                    b = getattr(parent, fld, None)
                    if isinstance(b, list) and al[0] in b:
                        b[b.index(al[0])] = ast.copy_location(ast.Pass(), al[0])
            n_spliced += 1
    return n_spliced


def unroll(tree):
    consts = {}
    for s in tree.body:
        if isinstance(s, ast.Assign) and len(s.targets) == 1 and isinstance(s.targets[0], ast.Name) \
                and isinstance(s.value, (ast.Tuple, ast.List, ast.Set, ast.Dict)):
            consts[s.targets[0].id] = s.value
        elif isinstance(s, ast.AnnAssign) and isinstance(s.target, ast.Name) and s.value is not None \
                and isinstance(s.value, (ast.Tuple, ast.List, ast.Set, ast.Dict)):
            consts[s.target.id] = s.value
    # one walk: comprehensions, `**name` sites, and the names that are rebound or mutated anywhere in the module (those are
    # not constant tables)
    stores = {}
    comps = []
    splat = False
    row_loops = False
    MUT = ('append', 'extend', 'update', 'add', 'pop', 'remove', 'insert', 'clear', 'setdefault')
    for x in ast.walk(tree):
        t = type(x)
        if t is ast.Name:
            if type(x.ctx) is not ast.Load:
                stores[x.id] = stores.get(x.id, 0) + 1
        elif t in (ast.DictComp, ast.ListComp, ast.SetComp, ast.GeneratorExp):
            if len(x.generators) == 1 and not x.generators[0].ifs:
                comps.append(x)
        elif t is ast.For:
            if type(x.iter) in (ast.Tuple, ast.List) and type(x.target) in (ast.Tuple, ast.List) and x.iter.elts \
                    and all(type(r) in (ast.Tuple, ast.List) for r in x.iter.elts):
                row_loops = True
            elif type(x.target) is ast.Name and (
                    (type(x.iter) is ast.Name and x.iter.id in consts) or (
                        type(x.iter) is ast.Attribute and type(x.iter.value) is ast.Name and x.iter.attr.isupper())):
                row_loops = True        # a statement loop over a (module- or class-level) table of constants
            elif type(x.iter) is ast.Call and type(x.iter.func) is ast.Attribute and x.iter.func.attr in ('items', 'keys', 'values') \
                    and type(x.iter.func.value) is ast.Name and x.iter.func.value.id in consts:
                row_loops = True        # ... or over the items of a constant dict
        elif t is ast.Subscript or t is ast.Attribute:
            if type(x.ctx) is not ast.Load and type(x.value) is ast.Name:
                stores[x.value.id] = stores.get(x.value.id, 0) + 2
        elif t is ast.Call:
            f = x.func
            if type(f) is ast.Attribute and type(f.value) is ast.Name and f.attr in MUT:
                stores[f.value.id] = stores.get(f.value.id, 0) + 2
            if not splat and any(kw.arg is None and type(kw.value) is ast.Name for kw in x.keywords):
                splat = True
        elif t is ast.Dict:
            if not splat and any(k is None and type(v) is ast.Name for k, v in zip(x.keys, x.values)):
                splat = True
    consts = {k: v for k, v in consts.items() if stores.get(k, 0) == 1}
    u = Unroll(consts)
    if row_loops or any(u.entries(c.generators[0].iter) is not None or isinstance(c.generators[0].iter, ast.Name) for c in comps):
        tree = u.visit(tree)
    n_spl = 0

    def has_splat(fn):
        for x in ast.walk(fn):
            if isinstance(x, ast.Dict) and any(k is None and isinstance(v, ast.Name) for k, v in zip(x.keys, x.values)):
                return True
            if isinstance(x, ast.Call) and any(kw.arg is None and isinstance(kw.value, ast.Name) for kw in x.keywords):
                return True
        return False
    if splat:
        for fn in ast.walk(tree):
            if isinstance(fn, (ast.FunctionDef, ast.AsyncFunctionDef)) and has_splat(fn):
                n_spl += _splice_function(fn)
    n_spl += _splice_literal_splats(tree)
    if u.count or n_spl:
        ast.fix_missing_locations(tree)
    return tree, u.count, n_spl
