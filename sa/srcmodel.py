"""E1: source model of /repo/src/pharmpy: modules, functions, classes, imports, hierarchy, call resolution."""
from __future__ import annotations

import ast
import os
import functools
from dataclasses import dataclass, field
from pathlib import Path

from .report import REPO, AnalysisError

SRC = REPO / 'src'
PKG = 'pharmpy'


def unparse(node) -> str:
    try:
        return ast.unparse(node)
    except Exception:  # pragma: no cover
        return ast.dump(node)


@dataclass
class Func:
    module: 'Module'
    qualname: str               # "f" or "Class.f" or "f.<locals>.g"
    node: ast.AST               # FunctionDef / AsyncFunctionDef
    cls: 'Class | None' = None
    parent: 'Func | None' = None

    @property
    def name(self):
        return self.node.name

    @property
    def fq(self):
        return f'{self.module.name}.{self.qualname}'

    @property
    def params(self) -> list[str]:
        a = self.node.args
        return [x.arg for x in a.posonlyargs + a.args]

    @property
    def all_params(self) -> list[str]:
        a = self.node.args
        r = [x.arg for x in a.posonlyargs + a.args + a.kwonlyargs]
        if a.vararg:
            r.append(a.vararg.arg)
        if a.kwarg:
            r.append(a.kwarg.arg)
        return r

    def decorators(self) -> list[str]:
        return [unparse(d) for d in self.node.decorator_list]

    def is_property(self):
        return any(d in ('property', 'functools.cached_property', 'cached_property') for d in self.decorators())

    def is_static(self):
        return 'staticmethod' in self.decorators()

    def is_classmethod(self):
        return 'classmethod' in self.decorators()

    def __hash__(self):
        return hash(self.fq)

    def __eq__(self, o):
        return isinstance(o, Func) and o.fq == self.fq

    def __repr__(self):
        return f'<Func {self.fq}>'


@dataclass
class Class:
    module: 'Module'
    name: str
    node: ast.ClassDef
    methods: dict = field(default_factory=dict)   # name -> Func
    base_exprs: list = field(default_factory=list)

    @property
    def fq(self):
        return f'{self.module.name}.{self.name}'

    def __hash__(self):
        return hash(self.fq)

    def __eq__(self, o):
        return isinstance(o, Class) and o.fq == self.fq

    def __repr__(self):
        return f'<Class {self.fq}>'


class FuncTable(dict):
    """functions of a module by qualified name. A function that was moved to another module of the package and is
    imported back under the same name (`from .context_insertion import insert_context`) is still found by get() / [] /
    `in`, so that a rule anchored on `module.function` follows the move; iteration lists only the functions defined here."""
    repo = None
    module = None

    def __init__(self, *a, **k):
        super().__init__(*a, **k)
        self.aliases = {}          # old qualified name -> Func of a renamed private helper (sa/renames.py)

    def _imported(self, key):
        if isinstance(key, str) and key in self.aliases:
            return self.aliases[key]
        if self.repo is None or not isinstance(key, str) or '#' in key:
            return None
        if '.' in key:
            # 'Class.method' of a class that was moved out and imported back
            head, rest = key.split('.', 1)
            c = self.module.classes.get(head)
            if c is not None and c.module is not self.module:
                return dict.get(c.module.functions, f'{c.name}.{rest}')
            return None
        imp = self.module.imports.get(key)
        if not (isinstance(imp, tuple) and imp[0] == 'attr'):
            return None
        r = self.repo.resolve(self.module, key)
        if r and r[0] == 'func' and r[1].module is not self.module:
            return r[1]
        return None

    def get(self, key, default=None):
        if dict.__contains__(self, key):
            return dict.__getitem__(self, key)
        f = self._imported(key)
        return f if f is not None else default

    def __missing__(self, key):
        f = self._imported(key)
        if f is None:
            raise KeyError(key)
        return f

    def __contains__(self, key):
        return dict.__contains__(self, key) or self._imported(key) is not None


class MethodTable(dict):
    """methods of a class by name. A private method that was turned into a module-level function of the same name in the
    same module (`Statements._graph(self)` -> `_graph(statements)`) is still found by get() / []; iteration lists only the
    real methods."""
    cls = None

    def __init__(self, *a, **k):
        super().__init__(*a, **k)
        self.aliases = {}          # old name -> Func of a renamed private method (sa/renames.py)

    def _moved(self, key):
        if isinstance(key, str) and key in self.aliases:
            return self.aliases[key]
        if self.cls is None or not isinstance(key, str) or not key.startswith('_') or key.startswith('__'):
            return None
        f = dict.get(self.cls.module.functions, key)
        if f is not None and f.cls is None and f.parent is None:
            return f
        return None

    def get(self, key, default=None):
        if dict.__contains__(self, key):
            return dict.__getitem__(self, key)
        f = self._moved(key)
        return f if f is not None else default

    def __missing__(self, key):
        f = self._moved(key)
        if f is None:
            raise KeyError(key)
        return f


class ClassTable(dict):
    """classes of a module by name; like FuncTable, a class moved to another module and imported back is still found"""
    repo = None
    module = None

    def _imported(self, key):
        if self.repo is None or not isinstance(key, str) or '.' in key:
            return None
        imp = self.module.imports.get(key)
        if not (isinstance(imp, tuple) and imp[0] == 'attr'):
            return None
        r = self.repo.resolve(self.module, key)
        if r and r[0] == 'class' and r[1].module is not self.module:
            return r[1]
        return None

    def get(self, key, default=None):
        if dict.__contains__(self, key):
            return dict.__getitem__(self, key)
        c = self._imported(key)
        return c if c is not None else default

    def __missing__(self, key):
        c = self._imported(key)
        if c is None:
            raise KeyError(key)
        return c

    def __contains__(self, key):
        return dict.__contains__(self, key) or self._imported(key) is not None


@dataclass
class Module:
    name: str
    path: Path
    tree: ast.Module
    source: str
    is_pkg: bool
    functions: dict = field(default_factory=dict)   # qualname -> Func (incl. methods, nested)
    classes: dict = field(default_factory=dict)     # name -> Class (top-level and nested by dotted name)
    imports: dict = field(default_factory=dict)     # local name -> ('mod', dotted) | ('attr', dotted_mod, attr)
    globals_: dict = field(default_factory=dict)    # name -> value node of top-level simple assignments

    @property
    def rel(self):
        return str(self.path.relative_to(REPO))


class Repo:
    def __init__(self, src: Path = SRC, pkg: str = PKG):
        self.src = src
        self.pkg = pkg
        self.modules: dict[str, Module] = {}
        root = src / pkg
        if not root.is_dir():
            raise AnalysisError(f'package directory {root} not found')
        for p in sorted(root.rglob('*.py')):
            rel = p.relative_to(src).with_suffix('')
            parts = list(rel.parts)
            is_pkg = parts[-1] == '__init__'
            if is_pkg:
                parts = parts[:-1]
            name = '.'.join(parts)
            text = p.read_text(encoding='utf-8')
            try:
                tree = ast.parse(text, filename=str(p))
            except SyntaxError as e:
                raise AnalysisError(f'{p}: does not parse: {e}')
            if 'match ' in text:
                from .desugar import desugar
                tree, _n = desugar(tree)
                self.n_match_desugared = getattr(self, 'n_match_desugared', 0) + _n
            if os.environ.get('VERIF_NO_UNROLL') != '1' and (' for ' in text):
                from .unroll import unroll
                tree, _nu, _ns = unroll(tree)
                self.n_unrolled = getattr(self, 'n_unrolled', 0) + _nu
                self.n_spliced = getattr(self, 'n_spliced', 0) + _ns
            m = Module(name, p, tree, text, is_pkg)
            m.functions = FuncTable()
            m.functions.repo, m.functions.module = self, m
            m.classes = ClassTable()
            m.classes.repo, m.classes.module = self, m
            self.modules[name] = m
            self._index(m)
        # module-level constants imported from another module of the package (`from .advan import RATE_NAMES`) are visible as
        # constants of the importing module too: a table that moves to a shared module stays a table
        for _ in range(2):
            for m in self.modules.values():
                for local, imp in m.imports.items():
                    if isinstance(imp, tuple) and imp[0] == 'attr' and local not in m.globals_:
                        src_m = self.modules.get(imp[1])
                        if src_m is not None and imp[2] in src_m.globals_:
                            m.globals_[local] = src_m.globals_[imp[2]]
        self._subclasses = None
        self.n_inlined = 0
        self.renamed = {}
        if os.environ.get('VERIF_NO_RENAMES') != '1':
            # private helpers of the confirmed tree that were renamed are found again under their old name (sa/renames.py)
            from .renames import resolve as _resolve_renames
            self.renamed = _resolve_renames(self)
        if os.environ.get('VERIF_NO_INLINE') != '1':
            # private helpers of the same module / class are expanded in place (sa/inline.py)
            from .inline import expand_repo
            self.n_inlined = expand_repo(self)

    # ------------------------------------------------------------------ indexing
    def _index(self, m: Module):
        def visit(body, prefix, cls, parent):
            for n in body:
                if isinstance(n, (ast.FunctionDef, ast.AsyncFunctionDef)):
                    q = f'{prefix}{n.name}'
                    f = Func(m, q, n, cls, parent)
                    # later definitions (e.g. property setters, overloads) do not replace the first
                    key = q
                    k = 1
                    while dict.__contains__(m.functions, key):
                        k += 1
                        key = f'{q}#{k}'
                    f.qualname = key
                    m.functions[key] = f
                    if cls is not None and parent is None:
                        cls.methods.setdefault(n.name, f)
                        if key != q:
                            cls.methods[key.split('.')[-1]] = f
                    visit(n.body, f'{q}.<locals>.', None, f)
                elif isinstance(n, ast.ClassDef):
                    cname = f'{prefix}{n.name}'
                    c = Class(m, cname, n, MethodTable(), list(n.bases))
                    c.methods.cls = c
                    m.classes[cname] = c
                    visit(n.body, f'{cname}.', c, None)
                elif isinstance(n, (ast.If, ast.Try, ast.With)):
                    # conditional definitions (TYPE_CHECKING imports, platform branches)
                    for sub in _sub_bodies(n):
                        visit(sub, prefix, cls, parent)
        visit(m.tree.body, '', None, None)
        # imports (module level, including under `if TYPE_CHECKING` / try)
        for n in ast.walk(m.tree):
            if isinstance(n, ast.Import):
                for a in n.names:
                    if a.asname:
                        m.imports[a.asname] = ('mod', a.name)
                    else:
                        top = a.name.split('.')[0]
                        m.imports.setdefault(top, ('mod', top))
            elif isinstance(n, ast.ImportFrom):
                base = self._abs_from(m, n)
                for a in n.names:
                    if a.name == '*':
                        m.imports.setdefault('*', []).append(base) if isinstance(m.imports.get('*'), list) \
                            else m.imports.__setitem__('*', [base])
                        continue
                    m.imports[a.asname or a.name] = ('attr', base, a.name)
        for n in m.tree.body:
            if isinstance(n, ast.Assign) and len(n.targets) == 1 and isinstance(n.targets[0], ast.Name):
                m.globals_[n.targets[0].id] = n.value
            elif isinstance(n, ast.AnnAssign) and isinstance(n.target, ast.Name) and n.value is not None:
                m.globals_[n.target.id] = n.value

    def _abs_from(self, m: Module, n: ast.ImportFrom) -> str:
        if n.level == 0:
            return n.module or ''
        parts = m.name.split('.')
        if not m.is_pkg:
            parts = parts[:-1]
        up = n.level - 1
        if up:
            parts = parts[:-up]
        if n.module:
            parts = parts + n.module.split('.')
        return '.'.join(parts)

    # ------------------------------------------------------------------ lookup
    def module(self, name: str) -> Module:
        if name not in self.modules:
            raise AnalysisError(f'anchor module {name} not found in the source tree')
        return self.modules[name]

    def func(self, fq: str) -> Func:
        """'pharmpy.x.y.func' or 'pharmpy.x.y.Class.method'"""
        parts = fq.split('.')
        for i in range(len(parts) - 1, 0, -1):
            mn = '.'.join(parts[:i])
            if mn in self.modules:
                q = '.'.join(parts[i:])
                m = self.modules[mn]
                if q in m.functions:
                    return m.functions[q]
        raise AnalysisError(f'anchor function {fq} not found')

    def has_func(self, fq: str) -> bool:
        try:
            self.func(fq)
            return True
        except AnalysisError:
            return False

    def cls(self, fq: str) -> Class:
        parts = fq.split('.')
        for i in range(len(parts) - 1, 0, -1):
            mn = '.'.join(parts[:i])
            if mn in self.modules:
                q = '.'.join(parts[i:])
                if q in self.modules[mn].classes:
                    return self.modules[mn].classes[q]
        raise AnalysisError(f'anchor class {fq} not found')

    def scope(self, m):
        """(classes, functions) a rule anchored on module m should look at: those defined in m plus the package's own
        classes / functions that m imports by name (a class moved to a helper module and imported back stays in scope)"""
        classes = list(dict.values(m.classes))
        funcs = list(dict.values(m.functions))
        for name, imp in m.imports.items():
            if not (isinstance(imp, tuple) and imp[0] == 'attr' and str(imp[1]).startswith(self.pkg)):
                continue
            r = self.resolve(m, name)
            if r and r[0] == 'class' and r[1] not in classes:
                classes.append(r[1])
                funcs += [f for f in dict.values(r[1].module.functions) if f.cls is r[1] or (
                    f.parent is not None and f.parent.cls is r[1])]
            elif r and r[0] == 'func' and r[1] not in funcs:
                funcs.append(r[1])
        return classes, funcs

    def all_funcs(self):
        for m in self.modules.values():
            yield from m.functions.values()

    def all_classes(self):
        for m in self.modules.values():
            yield from m.classes.values()

    # ------------------------------------------------------------------ name resolution
    def resolve(self, m: Module, name: str, _depth=0):
        """Resolve a (possibly dotted) name used at module scope of m.

        Returns ('func', Func) | ('class', Class) | ('module', Module) | ('ext', dotted) | None
        """
        if _depth > 12:
            return None
        parts = name.split('.')
        head, rest = parts[0], parts[1:]
        cur = None
        if dict.__contains__(m.classes, head):
            cur = ('class', dict.__getitem__(m.classes, head))
        elif dict.__contains__(m.functions, head):
            cur = ('func', dict.__getitem__(m.functions, head))
        elif head in m.imports and head != '*':
            imp = m.imports[head]
            if imp[0] == 'mod':
                cur = self._mod_or_ext(imp[1])
            else:
                cur = self._resolve_attr_of_module(imp[1], imp[2], _depth + 1)
        elif head in m.globals_:
            v = m.globals_[head]
            if isinstance(v, (ast.Name, ast.Attribute)):
                cur = self.resolve(m, unparse(v), _depth + 1)
        if cur is None:
            for star in (m.imports.get('*') or []):
                if star in self.modules:
                    cur = self._resolve_attr_of_module(star, head, _depth + 1)
                    if cur:
                        break
        if cur is None:
            return None
        for r in rest:
            cur = self._attr(cur, r, _depth + 1)
            if cur is None:
                return None
        return cur

    def _mod_or_ext(self, dotted):
        if dotted in self.modules:
            return ('module', self.modules[dotted])
        return ('ext', dotted)

    def _resolve_attr_of_module(self, modname, attr, depth):
        if modname in self.modules:
            sub = f'{modname}.{attr}'
            mm = self.modules[modname]
            if dict.__contains__(mm.classes, attr) or dict.__contains__(mm.functions, attr) or attr in mm.imports or attr in mm.globals_:
                r = self.resolve(mm, attr, depth)
                if r:
                    return r
            if sub in self.modules:
                return ('module', self.modules[sub])
            # lazy modules: pharmpy.deps etc.
            r = self.resolve(mm, attr, depth)
            return r
        return ('ext', f'{modname}.{attr}')

    def _attr(self, cur, attr, depth):
        kind, obj = cur
        if kind == 'module':
            return self._resolve_attr_of_module(obj.name, attr, depth)
        if kind == 'class':
            f = self.find_method(obj, attr)
            if f:
                return ('func', f)
            return None
        if kind == 'ext':
            return ('ext', f'{obj}.{attr}')
        return None

    # ------------------------------------------------------------------ hierarchy
    def bases(self, c: Class) -> list[Class]:
        out = []
        for b in c.base_exprs:
            if isinstance(b, ast.Subscript):  # Generic[...]
                b = b.value
            r = self.resolve(c.module, unparse(b))
            if r and r[0] == 'class':
                out.append(r[1])
        return out

    def ext_bases(self, c: Class) -> list[str]:
        out = []
        for b in c.base_exprs:
            if isinstance(b, ast.Subscript):
                b = b.value
            r = self.resolve(c.module, unparse(b))
            if r is None or r[0] != 'class':
                out.append(unparse(b))
        return out

    def mro(self, c: Class) -> list[Class]:
        seen, out = set(), []

        def go(k):
            if k.fq in seen:
                return
            seen.add(k.fq)
            out.append(k)
            for b in self.bases(k):
                go(b)
        go(c)
        return out

    def follow_delegation(self, f: Func, depth: int = 3) -> Func:
        """a thin wrapper `def f(..): return <expr>.m(..)` / `return g(..)` (docstring aside) stands for the function it
        hands over to, when that one is found unambiguously (a function of the same module, or the only method of that name
        in the package); f itself otherwise"""
        while depth > 0:
            body = [s for s in f.node.body if not (isinstance(s, ast.Expr) and isinstance(s.value, ast.Constant))]
            # plain assignments may fetch the receiver first: `rec = stream.get_records('MODEL')[0]; return rec.m()`
            if not body or not isinstance(body[-1], ast.Return) or not isinstance(body[-1].value, ast.Call) \
                    or not all(isinstance(s, (ast.Assign, ast.AnnAssign, ast.Import, ast.ImportFrom)) for s in body[:-1]) \
                    or len(body) > 3:
                return f
            fn = body[-1].value.func
            tgt = None
            if isinstance(fn, ast.Name):
                r = self.resolve(f.module, fn.id)
                if r and r[0] == 'func':
                    tgt = r[1]
                else:
                    # imported inside the wrapper (`from .x import g; return g(..)`)
                    for imp in body[:-1]:
                        if isinstance(imp, ast.ImportFrom) and any((a_.asname or a_.name) == fn.id for a_ in imp.names):
                            real = next(a_.name for a_ in imp.names if (a_.asname or a_.name) == fn.id)
                            m2 = self.modules.get(self._abs_from(f.module, imp))
                            if m2 is not None and dict.__contains__(m2.functions, real):
                                tgt = dict.__getitem__(m2.functions, real)
            elif isinstance(fn, ast.Attribute):
                cands = [c.methods[fn.attr] for c in self.all_classes() if dict.__contains__(c.methods, fn.attr)]
                if len(cands) == 1:
                    tgt = cands[0]
            if tgt is None or tgt is f:
                return f
            f = tgt
            depth -= 1
        return f

    def find_method(self, c: Class, name: str) -> Func | None:
        for k in self.mro(c):
            if name in k.methods:
                return k.methods[name]
        return None

    def is_subclass(self, c: Class, base_fq: str) -> bool:
        return any(k.fq == base_fq for k in self.mro(c))

    def subclasses(self, base_fq: str, strict=True) -> list[Class]:
        return [c for c in self.all_classes() if self.is_subclass(c, base_fq) and (not strict or c.fq != base_fq)]

    # ------------------------------------------------------------------ call resolution
    def resolve_call(self, f: Func, call: ast.Call, local_types: dict | None = None):
        """Resolve the callee of a call inside function f.

        Returns ('func', Func) | ('class', Class) | ('ext', dotted) | None.
        local_types: optional map local-variable-name -> Class for receiver typing.
        """
        fn = call.func
        m = f.module
        if isinstance(fn, ast.Name):
            # nested function defined in f (or its parents)?
            p = f
            while p is not None:
                q = f'{p.qualname}.<locals>.{fn.id}'
                if q in m.functions:
                    return ('func', m.functions[q])
                p = p.parent
            return self.resolve(m, fn.id)
        if isinstance(fn, ast.Attribute):
            recv = fn.value
            # self.method()
            if isinstance(recv, ast.Name) and recv.id in ('self', 'cls') and _owner_class(f):
                meth = self.find_method(_owner_class(f), fn.attr)
                if meth:
                    return ('func', meth)
                return None
            if isinstance(recv, ast.Call) and isinstance(recv.func, ast.Name) and recv.func.id == 'super' \
                    and _owner_class(f):
                for k in self.mro(_owner_class(f))[1:]:
                    if fn.attr in k.methods:
                        return ('func', k.methods[fn.attr])
                return None
            if isinstance(recv, ast.Name) and local_types and recv.id in local_types:
                meth = self.find_method(local_types[recv.id], fn.attr)
                if meth:
                    return ('func', meth)
            dotted = _dotted(fn)
            if dotted:
                r = self.resolve(m, dotted)
                if r:
                    return r
        return None

    def param_types(self, f: Func) -> dict:
        """local name -> Class from parameter annotations (simple names only)."""
        out = {}
        a = f.node.args
        for p in a.posonlyargs + a.args + a.kwonlyargs:
            if p.annotation is not None:
                ann = p.annotation
                if isinstance(ann, ast.Constant) and isinstance(ann.value, str):
                    try:
                        ann = ast.parse(ann.value, mode='eval').body
                    except SyntaxError:
                        continue
                if isinstance(ann, ast.Subscript) and unparse(ann.value) in ('Optional', 'typing.Optional'):
                    ann = ann.slice
                if isinstance(ann, (ast.Name, ast.Attribute)):
                    r = self.resolve(f.module, unparse(ann))
                    if r and r[0] == 'class':
                        out[p.arg] = r[1]
        return out


def _owner_class(f: Func):
    p = f
    while p is not None:
        if p.cls is not None:
            return p.cls
        p = p.parent
    return None


owner_class = _owner_class


def _dotted(node) -> str | None:
    parts = []
    while isinstance(node, ast.Attribute):
        parts.append(node.attr)
        node = node.value
    if isinstance(node, ast.Name):
        parts.append(node.id)
        return '.'.join(reversed(parts))
    return None


dotted = _dotted


def _sub_bodies(n):
    if isinstance(n, ast.If):
        return [n.body, n.orelse]
    if isinstance(n, ast.Try):
        return [n.body, n.orelse, n.finalbody] + [h.body for h in n.handlers]
    if isinstance(n, ast.With):
        return [n.body]
    return []


def is_real_copy(call) -> bool:
    """`x.copy()` / `copy.deepcopy(x)` that yields an independent object: networkx `g.copy(as_view=True)` is a live read-only
    VIEW of g, not a copy"""
    if not (isinstance(call, ast.Call) and isinstance(call.func, ast.Attribute) and call.func.attr in ('copy', 'deepcopy')):
        return False
    return not any(k.arg == 'as_view' and not (isinstance(k.value, ast.Constant) and k.value.value is False)
                   for k in call.keywords)


def walk_no_nested(node):
    """ast.walk over a function body that does not descend into nested function/class definitions
    (lambdas and comprehensions are descended)."""
    stack = list(ast.iter_child_nodes(node))
    while stack:
        n = stack.pop()
        yield n
        if isinstance(n, (ast.FunctionDef, ast.AsyncFunctionDef, ast.ClassDef)):
            continue
        stack.extend(ast.iter_child_nodes(n))


def calls_in(node):
    return [n for n in walk_no_nested(node) if isinstance(n, ast.Call)]


@functools.lru_cache(maxsize=1)
def load_repo() -> Repo:
    return Repo()
