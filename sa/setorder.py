"""Set-order leak analysis: where does the iteration order of a set (hash order) reach an ordered result?

Flow-sensitive over the CFG.  Facts: ('set', name) the local is a set; ('useq', name) the local is a
sequence whose order comes from a set.  `order_leaks` returns consumption points where such an order
becomes observable: positional use (return of a sequence, indexing, zip/enumerate, next(iter(..)),
set.pop()) or a for loop / comprehension whose result is order-sensitive.
"""
from __future__ import annotations

import ast

from . import dataflow
from .cfg import CFG
from .srcmodel import dotted, unparse, walk_no_nested

SET_FUNCS = {'set', 'frozenset'}
ORDERED_SINKS = {'list', 'tuple', 'iter'}
CANON = {'sorted', 'len', 'min', 'max', 'any', 'all', 'sum', 'set', 'frozenset', 'sort_alphanum'}
SET_METHODS = {'union', 'intersection', 'difference', 'symmetric_difference', 'copy'}
SET_ATTRS = {'free_symbols', 'rhs_symbols'}


class SetOrder:
    def __init__(self, fn_node, set_funcs=(), set_attrs=SET_ATTRS, set_params=()):
        self.fn = fn_node
        self.set_funcs = SET_FUNCS | set(set_funcs)
        self.set_attrs = set(set_attrs)
        self.cfg = CFG(fn_node)
        self.leaks = []   # (node, expr, kind, text)
        self.call_arg_kinds = {}   # id(call) -> (call, [kind of each positional arg])
        self.instances = 0
        self._seen = set()
        init = frozenset(('set', p) for p in set_params)
        self.states = dataflow.forward(self.cfg, init, self._transfer)

    # kind of an expression under facts: 'set' | 'useq' | None
    def kind(self, e, st):
        if isinstance(e, (ast.Set, ast.SetComp)):
            return 'set'
        if isinstance(e, ast.Name):
            if ('set', e.id) in st:
                return 'set'
            if ('useq', e.id) in st:
                return 'useq'
            return None
        if isinstance(e, ast.Attribute) and e.attr in self.set_attrs:
            return 'set'
        if isinstance(e, ast.Call):
            fn = dotted(e.func) or ''
            base = fn.split('.')[-1]
            if fn in self.set_funcs or base in self.set_funcs:
                return 'set'
            if isinstance(e.func, ast.Attribute) and e.func.attr in SET_METHODS and self.kind(e.func.value, st) == 'set':
                return 'set'
            if base in ORDERED_SINKS and e.args and self.kind(e.args[0], st) in ('set', 'useq'):
                return 'useq'
            if base in ('sorted',):
                return None
            if base in ('map', 'filter', 'reversed') and e.args and self.kind(e.args[-1], st) in ('set', 'useq'):
                return 'useq'
            return None
        if isinstance(e, ast.BinOp) and isinstance(e.op, (ast.Sub, ast.BitOr, ast.BitAnd, ast.BitXor)):
            if self.kind(e.left, st) == 'set' or self.kind(e.right, st) == 'set':
                return 'set'
        if isinstance(e, ast.BinOp) and isinstance(e.op, ast.Add):
            if 'useq' in (self.kind(e.left, st), self.kind(e.right, st)):
                return 'useq'
        if isinstance(e, (ast.ListComp, ast.GeneratorExp)):
            if any(self.kind(g.iter, st) in ('set', 'useq') for g in e.generators):
                return 'useq'
        if isinstance(e, ast.IfExp):
            return self.kind(e.body, st) or self.kind(e.orelse, st)
        if isinstance(e, ast.Dict):
            # a record holding a set-ordered sequence is itself order dependent
            if any(v is not None and self.kind(v, st) == 'useq' for v in e.values):
                return 'useq'
        if isinstance(e, (ast.List, ast.Tuple)):
            # [a, *s]: star-unpacking of a set (or of a sequence ordered by a set) into an ordered literal
            if any(isinstance(x, ast.Starred) and self.kind(x.value, st) in ('set', 'useq') for x in e.elts):
                return 'useq'
        return None

    def _leak(self, node, expr, why):
        key = (id(expr), why)
        if key in self._seen:
            return
        self._seen.add(key)
        self.leaks.append((node, expr, why, unparse(expr)))

    def _scan_expr(self, node, e, st):
        """positional consumption inside an expression"""
        parents = {}
        for p in ast.walk(e):
            for ch in ast.iter_child_nodes(p):
                parents[id(ch)] = p

        def canon_above(n):
            p = parents.get(id(n))
            while p is not None:
                if isinstance(p, ast.Call) and (dotted(p.func) or '').split('.')[-1] in CANON:
                    return True
                if isinstance(p, (ast.SetComp, ast.Set, ast.DictComp)):
                    return True
                p = parents.get(id(p))
            return False
        for n in [e, *walk_no_nested(e)]:
            if isinstance(n, ast.Call) and n.args:
                ks = [self.kind(a, st) for a in n.args]
                if any(ks):
                    self.call_arg_kinds[id(n)] = (n, ks)
            if isinstance(n, ast.Subscript) and isinstance(n.ctx, ast.Load) and self.kind(n.value, st) == 'useq':
                self.instances += 1
                if not canon_above(n):
                    self._leak(node, n, 'positional index into a set-ordered sequence')
            if isinstance(n, ast.Call):
                base = (dotted(n.func) or '').split('.')[-1]
                if base in ('zip', 'enumerate') and any(self.kind(a, st) in ('set', 'useq') for a in n.args):
                    self.instances += 1
                    if not canon_above(n):
                        self._leak(node, n, 'positional pairing with a set-ordered collection')
                if base == 'next' and n.args and (self.kind(n.args[0], st) in ('set', 'useq')):
                    self.instances += 1
                    g0 = n.args[0]
                    # next(x for x in s if x.key == k): a search by key (the spelled-out loop `for x in s: if ..: return x`
                    # is the same thing and is not an order leak), not "some element"
                    search = isinstance(g0, ast.GeneratorExp) and len(g0.generators) == 1 and any(
                        isinstance(c, ast.Compare) and len(c.ops) == 1 and isinstance(c.ops[0], (ast.Eq, ast.Is))
                        for c in g0.generators[0].ifs)
                    if not search:
                        self._leak(node, n, 'arbitrary element of a set')
                if isinstance(n.func, ast.Attribute) and n.func.attr == 'pop' and self.kind(n.func.value, st) in ('set', 'useq'):
                    self.instances += 1
                    self._leak(node, n, 'arbitrary element of a set')
                if base in ('join',) and n.args and self.kind(n.args[0], st) in ('set', 'useq'):
                    self.instances += 1
                    if not canon_above(n):
                        self._leak(node, n, 'string joined in set order')

    def _transfer(self, node, st):
        a = node.ast
        k = node.kind
        if a is None or k in ('with_exit', 'join', 'dispatch', 'except', 'with_enter'):
            return [(None, st)]
        if k == 'for':
            kd = self.kind(a.iter, st)
            self._scan_expr(node, a.iter, st)
            if kd in ('set', 'useq'):
                self.instances += 1
                if not _order_insensitive_body(a.body):
                    self._leak(node, a.iter, 'for loop over a set-ordered collection with an order-sensitive body')
            tg = {n.id for n in ast.walk(a.target) if isinstance(n, ast.Name)}
            st2 = frozenset(f for f in st if f[1] not in tg)
            return [(None, st2)]
        if k == 'test':
            self._scan_expr(node, a, st)
            return [(None, st)]
        if isinstance(a, (ast.FunctionDef, ast.ClassDef, ast.AsyncFunctionDef)):
            return [(None, st)]
        self._scan_expr(node, a, st)
        if isinstance(a, ast.Assign):
            kd = self.kind(a.value, st)
            new = set(st)
            for t in a.targets:
                if isinstance(t, ast.Name):
                    new = {f for f in new if f[1] != t.id}
                    if kd:
                        new.add((kd, t.id))
                elif isinstance(t, (ast.Tuple, ast.List)):
                    for el in t.elts:
                        if isinstance(el, ast.Name):
                            new = {f for f in new if f[1] != el.id}
            return [(None, frozenset(new))]
        if isinstance(a, ast.AugAssign) and isinstance(a.target, ast.Name):
            # x += list(S) / x |= S
            kd = self.kind(a.value, st)
            if kd == 'useq' and isinstance(a.op, ast.Add):
                return [(None, st | {('useq', a.target.id)})]
            return [(None, st)]
        if isinstance(a, ast.Expr) and isinstance(a.value, ast.Call) and isinstance(a.value.func, ast.Attribute) \
                and a.value.func.attr in ('extend', 'append') and isinstance(a.value.func.value, ast.Name) \
                and a.value.args:
            if a.value.func.attr == 'extend' and self.kind(a.value.args[0], st) in ('set', 'useq'):
                return [(None, st | {('useq', a.value.func.value.id)})]
        if isinstance(a, ast.Expr) and isinstance(a.value, ast.Call) and isinstance(a.value.func, ast.Attribute) \
                and a.value.func.attr == 'sort' and isinstance(a.value.func.value, ast.Name):
            nm = a.value.func.value.id
            return [(None, frozenset(f for f in st if f[1] != nm))]
        if isinstance(a, ast.Return) and a.value is not None:
            vals = a.value.elts if isinstance(a.value, ast.Tuple) else [a.value]
            for v in vals:
                if self.kind(v, st) == 'useq':
                    self.instances += 1
                    self._leak(node, v, 'a sequence in set order is returned')
                if isinstance(v, ast.Dict):
                    for dv in v.values:
                        if dv is not None and self.kind(dv, st) == 'useq':
                            self.instances += 1
                            self._leak(node, dv, 'a sequence in set order is stored in the returned dict')
        return [(None, st)]


def _order_insensitive_body(body) -> bool:
    """loop bodies whose effect does not depend on iteration order: set/dict updates, membership search
    that returns/breaks on the (unique) match, raising, counters"""
    for s in body:
        if isinstance(s, ast.AugAssign) and isinstance(s.op, (ast.BitOr, ast.BitAnd, ast.Add, ast.Sub)) \
                and not isinstance(s.value, (ast.List, ast.Tuple)):
            if isinstance(s.op, (ast.Add, ast.Sub)) and not isinstance(s.value, (ast.Constant, ast.Name, ast.Attribute,
                                                                               ast.BinOp, ast.Call)):
                return False
            continue
        if isinstance(s, ast.Expr) and isinstance(s.value, ast.Call) and isinstance(s.value.func, ast.Attribute) \
                and s.value.func.attr in ('add', 'update', 'discard', 'remove', 'setdefault', 'add_node', 'add_edge'):
            continue
        if isinstance(s, ast.Assign) and all(isinstance(t, ast.Subscript) for t in s.targets):
            continue      # d[key] = value
        if isinstance(s, ast.If):
            if _order_insensitive_body(s.body) and _order_insensitive_body(s.orelse):
                continue
            # search idiom: if cond: return/break/raise (unique match)
            if all(isinstance(x, (ast.Return, ast.Break, ast.Raise, ast.Continue)) or
                   (isinstance(x, ast.Assign) and all(isinstance(t, ast.Name) for t in x.targets))
                   for x in s.body) and not s.orelse:
                continue
            return False
        if isinstance(s, (ast.Raise, ast.Continue, ast.Pass, ast.Assert)):
            continue
        if isinstance(s, ast.For):
            if _order_insensitive_body(s.body):
                continue
            return False
        return False
    return True
