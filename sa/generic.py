"""Rule Y0: defect shapes in the modules a property is anchored in.

Every shape below is a construct that is wrong whenever it occurs (each has a witness recipe), was confirmed to have no
instance on the current tree apart from the listed exceptions, and carries a positive example that must fire on every
run (sa/lints.py). The shapes are those that the seeded changes of two rounds fell into repeatedly: they are run over
ALL functions of the anchored modules of the property, not only over the functions a specific rule names.

    late binding        a function created in a loop reads a loop variable and escapes the iteration
    index deletion      rows/items deleted by index in non-descending order
    stale position      a position in a re-bound container is used without being looked up again
    gen after kill      (live | used) - {defined} in a backward scan
    guard/use           `if x.find_assignment(A): ... Expr.symbol(B)` with B != A
    accumulator read    a conversion loop reads the dictionary it is writing as a whole
    sequential subst.   a mapping applied entry by entry to the object it rewrites
    discarded result    the result of subs/replace/reassign/... dropped
    yield then mutate   a generator mutates a container it has already yielded
    falsy replacement   replace()/create() written as kwargs.get(k) or old
    collector overwrite d = defaultdict(list); d[k] = ... inside a loop
    stale system        a builder created from the ODE system read before the model was re-bound
    lost update         statements = statements.reassign(..) / model = model.replace(..) never read on some path to a return
    loop-carried flag   (advisory) a flag tested and cleared in an inner loop but initialised outside the outer one
    visited break       `for x in neighbours: if x in seen: break` in a traversal that later does seen.add(x)
    stale compartment   cb.set_x(comp, ..) replaces the node; the old `comp` is handed to the builder again
    iterators compared  `c.append(product(..))` ... `x in c`: a collection of iterator objects is searched by identity
    unknown attribute   `self.x` read in a method although no class of the hierarchy (bases and subclasses, all inside the
                        package, no __getattr__ / setattr / __dict__ tricks) defines or assigns `x`
"""
from __future__ import annotations

import ast
import json

from . import lints
from .report import AnalysisError, VERIF
from .srcmodel import unparse, walk_no_nested, calls_in, dotted

PURE_METHODS = {'subs', 'xreplace', 'reassign', 'update_source', 'simplify', 'expand', 'set_initial_estimates',
                'remove_symbol_definitions', 'unjoin', 'derive'}
# confirmed harmless / intended (module, function, shape): reason
EXCEPTIONS = {
    ('pharmpy.model.external.nlmixr.model', 'convert_model', 'discarded result'):
        'update_source() result is never read; the code property regenerates the source',
    ('pharmpy.model.external.rxode.model', 'convert_model', 'discarded result'): 'same as nlmixr',
    ('pharmpy.model.external.nonmem.update', 'define_parameter', 'index tested for truth'):
        'index 0 only changes where the new assignment is placed (end of the $PK block instead of before the output rate)',
    ('pharmpy.model.external.nonmem.update', 'update_needed_pk_parameters', 'index tested for truth'):
        'index 0 only leaves an unused K<i><j> = ... assignment of a removed flow in the code',
}


def anchored_modules(repo, pid):
    for l in (VERIF / 'properties.jsonl').read_text().splitlines():
        if not l.strip():
            continue
        p = json.loads(l)
        if p['id'] != pid:
            continue
        mods = []
        for fp in p['anchors']['files']:
            if not fp.startswith('src/pharmpy'):
                continue
            dotted_ = fp[len('src/'):].rstrip('/').replace('/', '.')
            if dotted_.endswith('.py'):
                dotted_ = dotted_[:-3]
            if dotted_.endswith(('.lark', '.rst')):
                continue
            for name in repo.modules:
                if name == dotted_ or name.startswith(dotted_ + '.'):
                    mods.append(name)
        return sorted(set(mods))
    raise AnalysisError(f'{pid} not in properties.jsonl')


def run(chk, repo, pid):
    st = lints.self_test()
    if not all(st.values()):
        raise AnalysisError(f'lint self-test failed: {st}')
    mods = anchored_modules(repo, pid)
    if not mods:
        raise AnalysisError(f'Y0: no anchored python module for {pid}')
    Y0 = chk.rule('Y0', 'defect shapes (late binding, ascending index deletion, stale position, gen-after-kill, guard/use '
                        'mismatch, accumulator read, sequential substitution, discarded result) in all functions of the '
                        'anchored modules', floor=10)
    nfun = 0
    SAFE_EXT = {'object', 'ABC', 'Generic', 'Protocol', 'abc.ABC', 'typing.Generic', 'typing.Protocol'}
    subs, cn_cache = {}, {}
    for c_ in repo.all_classes():
        for k_ in repo.mro(c_)[1:]:
            subs.setdefault(k_.fq, []).append(c_)

    def family_names(c_):
        # names defined anywhere in the hierarchy of c_ (its bases, its subclasses and their bases); None = cannot be known
        if c_.fq in cn_cache:
            return cn_cache[c_.fq]
        fam = list(repo.mro(c_))
        for s_ in subs.get(c_.fq, []):
            fam += repo.mro(s_)
        known, ok_ = set(), True
        for k_ in fam:
            if set(repo.ext_bases(k_)) - SAFE_EXT:
                ok_ = False
                break
            a_, dyn_ = lints.class_names(k_.node)
            known |= a_
            ok_ = ok_ and not dyn_
        cn_cache[c_.fq] = known if ok_ else None
        return cn_cache[c_.fq]

    for f in repo.all_funcs():
        if f.module.name not in mods:
            continue
        nfun += 1
        found = []
        if f.cls is not None and f.parent is None and (kn_ := family_names(f.cls)) is not None:
            for x_ in lints.unknown_self_reads(f.node, kn_):
                found.append(('unknown attribute', x_.lineno, unparse(x_),
                              f'nothing in the hierarchy of {f.cls.name} defines `{x_.attr}`: reaching this line raises '
                              f'AttributeError'))
        for node, L, cap, how in lints.late_binding(f.node):
            found.append(('late binding', node.lineno, f'{getattr(node, "name", "lambda")} reads {", ".join(cap)} ({how})',
                          'all functions collected from the loop use the values of the last iteration'))
        for L, dels, ok in lints.index_deletes(f.node):
            if not ok:
                found.append(('index deletion', L.lineno, f'for {unparse(L.target)} in {unparse(L.iter)}: {unparse(dels[0])}',
                              'after the first deletion the remaining indices are shifted'))
        if any(isinstance(c.func, ast.Attribute) and c.func.attr in lints.INDEX_METHODS for c in calls_in(f.node)):
            for cont, iv, d, r, u in lints.stale_indices(f.node):
                found.append(('stale position', u.line, f'{d.text()[:40]} ... {r.text()[:40]} ... {u.text()[:40]}',
                              f'`{iv}` is a position in `{cont}` from before `{cont}` was re-bound'))
        for n, txt in lints.gen_after_kill(f.node):
            found.append(('gen after kill', n.lineno, txt, 'a statement that uses the symbol it defines drops it from the set'))
        for I in [x for x in walk_no_nested(f.node) if isinstance(x, ast.If)]:
            for c in [c for c in ast.walk(I.test) if isinstance(c, ast.Call) and isinstance(c.func, ast.Attribute)
                      and c.func.attr in ('find_assignment', 'find_assignment_index') and c.args]:
                tested = unparse(c.args[0])
                syms = [unparse(s_.args[0]) for b in I.body for s_ in ast.walk(b) if isinstance(s_, ast.Call)
                        and unparse(s_.func) in ('Expr.symbol', 'sympy.Symbol') and s_.args
                        and isinstance(s_.args[0], (ast.Name, ast.Constant))]
                if syms and tested not in syms:
                    found.append(('guard/use', I.lineno, f'if ...find_assignment({tested}): ... Expr.symbol({syms[0]})',
                                  'the branch is entered for one symbol and uses another'))
        hits, _accs = lints.accumulator_reads(f.node)
        for acc, src, L, n in hits:
            found.append(('accumulator read', n.lineno, unparse(n)[:80],
                          f'`{acc}` is being overwritten by this loop; read `{src}` instead'))
        for L, a in lints.sequential_substitution(f.node):
            found.append(('sequential subst.', a.lineno, unparse(a)[:80], 'a value that is also a key is substituted twice'))
        for s_ in walk_no_nested(f.node):
            if isinstance(s_, ast.Expr) and isinstance(s_.value, ast.Call) and isinstance(s_.value.func, ast.Attribute) \
                    and s_.value.func.attr in PURE_METHODS and not any(k.arg == 'inplace' for k in s_.value.keywords):
                found.append(('discarded result', s_.lineno, unparse(s_)[:80],
                              'pharmpy objects are immutable: the call has no effect'))
        for v, y, mnode in lints.yield_then_mutate(f.node):
            found.append(('yield then mutate', mnode.line, f'yield ... {v} ... ; {mnode.text()[:50]}',
                          f'the yielded `{v}` is mutated afterwards: a consumer that kept it sees the later content'))
        if 'CompartmentalSystemBuilder' in unparse(f.node) and 'model' in f.all_params:
            for var, d, r, u in lints.stale_system_after_model_rebind(f.node):
                found.append(('stale system', u.line, f'{d.text()[:40]} ... {r.text()[:40]} ... {u.text()[:50]}',
                              f'`{var}` was read before the model was re-bound to a changed system'))
        for dname, a in lints.defaultdict_overwrites(f.node)[0]:
            found.append(('collector overwritten', a.lineno, unparse(a)[:80],
                          f'`{dname}` collects values per key; the assignment replaces what earlier iterations collected'))
        for L_, b_, sn_ in lints.visited_breaks(f.node):
            found.append(('visited break', b_.lineno, f'for {unparse(L_.target)} in {unparse(L_.iter)[:40]}: if .. in {sn_}: break',
                          f'the first neighbour that was already visited ends the loop: the neighbours after it are never '
                          f'examined (continue was meant)'))
        for L_, c_ in lints.position_by_equality(f.node):
            found.append(('position by equality', c_.lineno, f'for {L_.target.id} in {unparse(L_.iter)[:40]}: .. {unparse(c_)[:50]}',
                          f'the backward scan stands at `{L_.target.id}`, but its position is looked up by equality: with two equal '
                          f'elements the position of the FIRST one is returned, not of the one reached'))
        for rs_, rd_, v_, at_ in lints.reads_reset_attribute(f.node):
            found.append(('reset attribute read back', rd_.lineno, f'{unparse(rs_)[:60]} ... {v_}.{at_}',
                          f'`{v_}.{at_}` is read after `{v_}` was re-bound to the compartment whose {at_} was just reset to a '
                          f'constant: the constant is transferred, the original {at_} is lost'))
        for mut_, use_, nm_ in lints.stale_compartment_handles(f.node):
            found.append(('stale compartment', use_.line, f'{mut_.text()[:50]} ... {use_.text()[:50]}',
                          f'`{nm_}` was replaced in the builder by the first call (which returns the new compartment); the second '
                          f'call addresses a compartment that is not in the graph any more and changes nothing'))
        for ap_, cmp_ in lints.membership_among_iterators(f.node):
            found.append(('iterators compared', cmp_.lineno, f'{unparse(ap_)[:60]} ... {unparse(cmp_)[:40]}',
                          'the collection holds iterator objects (compared by identity): the membership test is False for '
                          'every value; extend()/update() with the items was meant'))
        for d_, v_, how_ in lints.dead_pure_updates(f.node):
            found.append(('lost update', d_.line, f'{d_.text()[:60]} ... {how_}',
                          f'the new value of `{v_}` is never read on that path: the change it carries is dropped'))
        # an index (result of a *_index function) tested for truth: 0 is a valid position
        idxvars = {}
        for a_ in ast.walk(f.node):
            if isinstance(a_, (ast.Assign, ast.NamedExpr)):
                tg = a_.targets[0] if isinstance(a_, ast.Assign) else a_.target
                if isinstance(tg, ast.Name) and isinstance(a_.value, ast.Call) \
                        and (dotted(a_.value.func) or '').split('.')[-1].endswith('_index'):
                    idxvars[tg.id] = a_
        if idxvars:
            for t_ in ast.walk(f.node):
                if not isinstance(t_, (ast.If, ast.While, ast.IfExp)):
                    continue
                leaves = [t_.test] + [v for b_ in ast.walk(t_.test) if isinstance(b_, ast.BoolOp) for v in b_.values] + \
                    [u.operand for u in ast.walk(t_.test) if isinstance(u, ast.UnaryOp) and isinstance(u.op, ast.Not)]
                for x in leaves:
                    if isinstance(x, ast.NamedExpr):
                        x = x.target
                    if isinstance(x, ast.Name) and x.id in idxvars:
                        found.append(('index tested for truth', t_.lineno, f'if {unparse(t_.test)[:60]}',
                                      f'`{x.id}` is a position ({unparse(idxvars[x.id].value)[:50]}): position 0 is taken for '
                                      f'"not found"; test `is not None`'))
                        break
        # zip(xs, ys, ..) after only xs was filtered: the companions no longer line up
        filtered = {}
        for a_ in ast.walk(f.node):
            if isinstance(a_, ast.Assign) and len(a_.targets) == 1 and isinstance(a_.targets[0], ast.Name) \
                    and isinstance(a_.value, (ast.ListComp, ast.GeneratorExp)) and len(a_.value.generators) == 1 \
                    and a_.value.generators[0].ifs and isinstance(a_.value.generators[0].iter, ast.Name) \
                    and a_.value.generators[0].iter.id == a_.targets[0].id:
                filtered[a_.targets[0].id] = a_
        if filtered:
            for c_ in ast.walk(f.node):
                if isinstance(c_, ast.Call) and dotted(c_.func) == 'zip' and len(c_.args) >= 2:
                    argn = [x.id for x in c_.args if isinstance(x, ast.Name)]
                    hit = [x for x in argn if x in filtered and filtered[x].lineno < c_.lineno]
                    others = [x for x in argn if x not in filtered]
                    if hit and others:
                        found.append(('zip after one-sided filter', c_.lineno, unparse(c_)[:80],
                                      f'`{hit[0]}` was filtered ({unparse(filtered[hit[0]].value)[:50]}) but {others} were not: the '
                                      f'tuples pair an element with the companion of another position'))
        # a position found in a filtered copy used to subscript another sequence
        filt = {}
        for a_ in ast.walk(f.node):
            if isinstance(a_, ast.Assign) and len(a_.targets) == 1 and isinstance(a_.targets[0], ast.Name) \
                    and isinstance(a_.value, (ast.ListComp, ast.GeneratorExp)) and len(a_.value.generators) == 1 \
                    and a_.value.generators[0].ifs and isinstance(a_.value.generators[0].iter, ast.Name) \
                    and a_.value.generators[0].iter.id != a_.targets[0].id:
                filt[a_.targets[0].id] = a_.value.generators[0].iter.id
        if filt:
            pos = {}
            for a_ in ast.walk(f.node):
                if isinstance(a_, ast.Assign) and len(a_.targets) == 1 and isinstance(a_.targets[0], ast.Name):
                    for c_ in ast.walk(a_.value):
                        if isinstance(c_, ast.Call) and ((dotted(c_.func) or '').split('.')[-1] in (
                                'argmin', 'argmax', 'nanargmin', 'nanargmax') and c_.args and isinstance(c_.args[0], ast.Name)
                                and c_.args[0].id in filt):
                            pos[a_.targets[0].id] = c_.args[0].id
                        if isinstance(c_, ast.Call) and isinstance(c_.func, ast.Attribute) and c_.func.attr == 'index' \
                                and isinstance(c_.func.value, ast.Name) and c_.func.value.id in filt:
                            pos[a_.targets[0].id] = c_.func.value.id
            for sub in ast.walk(f.node):
                if isinstance(sub, ast.Subscript) and isinstance(sub.slice, ast.Name) and sub.slice.id in pos:
                    base = [x.id for x in ast.walk(sub.value) if isinstance(x, ast.Name)]
                    if base and pos[sub.slice.id] not in base:
                        found.append(('position from a filtered copy', sub.lineno, unparse(sub)[:60],
                                      f'`{sub.slice.id}` is a position in `{pos[sub.slice.id]}` (a filtered copy of '
                                      f'`{filt[pos[sub.slice.id]]}`); it is used to subscript another sequence: every element '
                                      f'dropped by the filter shifts it'))
        # the result of a helper that can return None is used as a subscript without a test for None
        for a_ in ast.walk(f.node):
            if isinstance(a_, ast.Assign) and isinstance(a_.value, ast.Call) and isinstance(a_.value.func, ast.Name) \
                    and isinstance(a_.targets[0], ast.Name):
                g_ = dict.get(f.module.functions, a_.value.func.id)
                if g_ is None or g_.cls is not None or g_.parent is not None:
                    continue
                rets_ = [x for x in walk_no_nested(g_.node) if isinstance(x, ast.Return)]
                none_ = [x for x in rets_ if x.value is None or (isinstance(x.value, ast.Constant) and x.value.value is None)]
                if not none_ or len(none_) == len(rets_):
                    continue
                v_ = a_.targets[0].id
                uses_ = [s_ for s_ in ast.walk(f.node) if isinstance(s_, ast.Subscript) and isinstance(s_.slice, ast.Name)
                         and s_.slice.id == v_ and isinstance(s_.ctx, ast.Load)]
                tested_ = any(isinstance(t_, ast.Compare) and isinstance(t_.left, ast.Name) and t_.left.id == v_
                              and isinstance(t_.comparators[0], ast.Constant) and t_.comparators[0].value is None
                              for t_ in ast.walk(f.node)) or any(
                    isinstance(t_, (ast.If, ast.IfExp, ast.While)) and v_ in {x.id for x in ast.walk(t_.test)
                                                                              if isinstance(x, ast.Name)} for t_ in ast.walk(f.node))
                if uses_ and not tested_:
                    found.append(('None used as key', uses_[0].lineno, f'{v_} = {g_.name}(..); {unparse(uses_[0])[:40]}',
                                  f'`{g_.name}` returns None on some path (line {none_[0].lineno}); the result is used as a key '
                                  f'without a test'))
        # memoisation that cannot be right: a cache on a generator function hands the same (exhausted) generator to every later
        # caller; a cache keyed by a Model merges models that compare equal but differ in what __eq__ ignores (name, dataset)
        decos = [(dotted(d.func) if isinstance(d, ast.Call) else dotted(d)) or '' for d in getattr(f.node, 'decorator_list', [])]
        if any(d.split('.')[-1] in ('lru_cache', 'cache', 'cached', 'memoize') for d in decos):
            if any(isinstance(y, (ast.Yield, ast.YieldFrom)) for y in walk_no_nested(f.node)):
                found.append(('cached generator', f.node.lineno, f'@{decos[0]} def {f.name}(..): yield',
                              'the cache stores the generator object: the second call with the same arguments gets it exhausted'))
            for a_ in f.node.args.args:
                ann = unparse(a_.annotation) if a_.annotation is not None else ''
                if ann.split('.')[-1].strip('"\'') in ('Model', 'ModelEntry') or a_.arg in ('model', 'model_entry'):
                    found.append(('cache keyed by a model', f.node.lineno, f'@{decos[0]} def {f.name}({a_.arg}: {ann or "?"})',
                                  'Model.__eq__ / __hash__ ignore the name, the description and the dataset: models that differ '
                                  'only there share one cache entry'))
        for b in ast.walk(f.node):
            if f.name in ('replace', 'create', 'derive') and isinstance(b, ast.BoolOp) and isinstance(b.op, ast.Or) \
                    and isinstance(b.values[0], ast.Call) and isinstance(b.values[0].func, ast.Attribute) \
                    and b.values[0].func.attr == 'get':
                found.append(('falsy replacement ignored', b.lineno, unparse(b)[:80],
                              'a replacement value that is falsy ((), 0, "", False) is silently replaced by the old value'))
        for shape, line, construct, why in found:
            exc = EXCEPTIONS.get((f.module.name, f.name, shape))
            chk.violation(Y0, f.module.rel, f.qualname, f'{shape}: {construct}', why + (f' [listed: {exc}]' if exc else ''),
                          line=line, advisory=bool(exc),
                          witness='see the shape description in sa/generic.py; the seeded changes *_r2_* in /verif/seeded show '
                                  'one concrete failing input per shape')
        for L, M, v, reinit in lints.loop_carried_flags(f.node):
            if not reinit:
                chk.violation(Y0, f.module.rel, f.qualname, f'loop-carried flag `{v}`',
                              'tested and cleared in an inner loop, initialised outside the outer loop', line=M.lineno,
                              advisory=True)
    chk.instance(Y0, f'{nfun} functions of {len(mods)} anchored modules scanned for 26 defect shapes', n=nfun)
