"""Template propagation for small text-building functions (constant / template propagation over a finite table of
guard cases). Values: Sym (named placeholder, optional number for guards), str (template text), list, number, bool.
Statements outside the supported forms that touch a tracked variable make the result Undecidable (never a guess)."""
from __future__ import annotations

import ast
from dataclasses import dataclass

from .tables import Undecidable
from .srcmodel import unparse, dotted


@dataclass(frozen=True)
class Sym:
    name: str
    num: float | None = None

    def render(self):
        return '{' + self.name + '}'


def render(v):
    if isinstance(v, Sym):
        return v.render()
    if isinstance(v, str):
        return v
    if isinstance(v, bool):
        return str(v)
    if isinstance(v, (int, float)):
        return str(v)
    raise Undecidable(f'cannot render {v!r}')


def num(v):
    if isinstance(v, Sym):
        if v.num is None:
            raise Undecidable(f'{v.name} has no numeric value')
        return v.num
    if isinstance(v, (int, float)) and not isinstance(v, bool):
        return v
    raise Undecidable(f'not numeric: {v!r}')


class Eval:
    def __init__(self, attrs: dict, names: dict | None = None):
        self.attrs = attrs          # 'param.lower' -> value
        self.env = dict(names or {})
        self.calls = []             # (callee, [arg values]) of unknown calls in statement position / assignments

    def expr(self, e):
        if isinstance(e, ast.Constant):
            return e.value
        if isinstance(e, ast.Name):
            if e.id in self.env:
                return self.env[e.id]
            raise Undecidable(f'unbound {e.id}')
        if isinstance(e, ast.Attribute):
            k = unparse(e)
            if k in self.attrs:
                return self.attrs[k]
            raise Undecidable(f'unknown attribute {k}')
        if isinstance(e, ast.JoinedStr):
            out = ''
            for v in e.values:
                if isinstance(v, ast.Constant):
                    out += v.value
                else:
                    if v.format_spec is not None or v.conversion != -1:
                        raise Undecidable('format spec')
                    out += render(self.expr(v.value))
            return out
        if isinstance(e, (ast.List, ast.Tuple)):
            return [self.expr(x) for x in e.elts]
        if isinstance(e, ast.UnaryOp) and isinstance(e.op, ast.USub):
            return -num(self.expr(e.operand))
        if isinstance(e, ast.UnaryOp) and isinstance(e.op, ast.Not):
            return not self.truth(e.operand)
        if isinstance(e, ast.BinOp) and isinstance(e.op, ast.Add):
            a, b = self.expr(e.left), self.expr(e.right)
            if isinstance(a, list) and isinstance(b, list):
                return a + b
            if isinstance(a, (str, Sym)) and isinstance(b, (str, Sym)) and (isinstance(a, str) or isinstance(b, str)):
                return render(a) + render(b)
            return num(a) + num(b)
        if isinstance(e, ast.IfExp):
            return self.expr(e.body) if self.truth(e.test) else self.expr(e.orelse)
        if isinstance(e, ast.Subscript):
            v = self.expr(e.value)
            if isinstance(v, list) and isinstance(e.slice, ast.Constant):
                return v[e.slice.value]
            raise Undecidable('subscript')
        if isinstance(e, ast.Compare) or isinstance(e, ast.BoolOp):
            return self.truth(e)
        if isinstance(e, ast.Call):
            f = e.func
            if isinstance(f, ast.Attribute) and f.attr == 'join' and len(e.args) == 1:
                sep = self.expr(f.value)
                lst = self.expr(e.args[0])
                if isinstance(sep, str) and isinstance(lst, list):
                    return sep.join(render(x) for x in lst)
            if dotted(f) == 'len' and len(e.args) == 1:
                v = self.expr(e.args[0])
                if isinstance(v, (list, str)):
                    return len(v)
            if dotted(f) == 'str' and len(e.args) == 1:
                return render(self.expr(e.args[0]))
            raise Undecidable(f'call {unparse(e)[:40]}')
        raise Undecidable(type(e).__name__)

    def truth(self, t):
        if isinstance(t, ast.BoolOp):
            vals = [self.truth(v) for v in t.values]
            return all(vals) if isinstance(t.op, ast.And) else any(vals)
        if isinstance(t, ast.UnaryOp) and isinstance(t.op, ast.Not):
            return not self.truth(t.operand)
        if isinstance(t, ast.Compare) and len(t.ops) == 1:
            a, b = self.expr(t.left), self.expr(t.comparators[0])
            op = t.ops[0]
            if isinstance(op, (ast.Is, ast.IsNot)):
                r = (a is b) if not isinstance(a, Sym) else False
                return r if isinstance(op, ast.Is) else not r
            a, b = num(a), num(b)
            return {ast.Lt: a < b, ast.LtE: a <= b, ast.Gt: a > b, ast.GtE: a >= b, ast.Eq: a == b,
                    ast.NotEq: a != b}[type(op)]
        v = self.expr(t)
        if isinstance(v, (bool, list, str)):
            return bool(v)
        if isinstance(v, (int, float)):
            return bool(v)
        raise Undecidable(f'truth of {unparse(t)}')

    def run(self, stmts):
        for s in stmts:
            if isinstance(s, ast.Assign) and len(s.targets) == 1 and isinstance(s.targets[0], ast.Name):
                try:
                    self.env[s.targets[0].id] = self.expr(s.value)
                except Undecidable:
                    if isinstance(s.value, ast.Call):
                        self.calls.append((dotted(s.value.func) or unparse(s.value.func),
                                           [self._try(a) for a in s.value.args]))
                    self.env.pop(s.targets[0].id, None)
            elif isinstance(s, ast.AugAssign) and isinstance(s.target, ast.Name) and isinstance(s.op, ast.Add):
                cur = self.env.get(s.target.id)
                if cur is None:
                    raise Undecidable(f'{s.target.id} += on unknown value')
                v = self.expr(s.value)
                if isinstance(cur, list):
                    self.env[s.target.id] = cur + list(v)
                else:
                    self.env[s.target.id] = render(cur) + render(v)
            elif isinstance(s, ast.If):
                self.run(s.body if self.truth(s.test) else s.orelse)
            elif isinstance(s, ast.Expr) and isinstance(s.value, ast.Call) and isinstance(s.value.func, ast.Attribute) \
                    and isinstance(s.value.func.value, ast.Name) and s.value.func.value.id in self.env \
                    and isinstance(self.env[s.value.func.value.id], list):
                lst = self.env[s.value.func.value.id]
                m = s.value.func.attr
                args = [self.expr(a) for a in s.value.args]
                if m == 'append' and len(args) == 1:
                    self.env[s.value.func.value.id] = lst + [args[0]]
                elif m == 'insert' and len(args) == 2 and isinstance(args[0], int):
                    new = list(lst)
                    new.insert(args[0], args[1])
                    self.env[s.value.func.value.id] = new
                elif m == 'extend' and len(args) == 1 and isinstance(args[0], list):
                    self.env[s.value.func.value.id] = lst + args[0]
                else:
                    raise Undecidable(f'list method {m}')
            elif isinstance(s, (ast.Return, ast.Pass, ast.Assert)):
                continue
            elif isinstance(s, ast.Expr) and isinstance(s.value, ast.Constant):
                continue
            else:
                raise Undecidable(f'statement {unparse(s)[:60]}')
        return self.env

    def _try(self, a):
        try:
            return self.expr(a)
        except Undecidable:
            return None
