"""E2b: reaching definitions of local names on the statement CFG, and resolution of local temporaries.

The commonest behaviour-preserving edit is "introduce / inline a local variable" (`x = e.subs(d); out.append(f(x))` for
`out.append(f(e.subs(d)))`). Rules that ask "does this expression contain ...?" therefore ask it of the expression with
its local temporaries resolved: a Name is replaced by the right-hand sides of the plain assignments that reach the use.

    defs(cfg, name)            CFG nodes that (re)bind the local `name`
    reaching(cfg, nid, name)   (definition nodes reaching node nid, True if a path from the entry reaches nid undefined)
    values(cfg, nid, name)     right-hand sides of the reaching definitions, or None when one of them is not a plain
                               `name = value` (loop target, with-as, augmented assignment, unpacking, parameter)
    holds(cfg, nid, expr, p)   p holds for expr, or expr mentions a local temporary all of whose reaching values satisfy
                               `holds` (depth bounded)
"""
from __future__ import annotations

import ast

from .srcmodel import walk_no_nested


def _targets(node):
    """names bound by the statement a CFG node stands for"""
    a = node.ast
    out = set()
    if a is None:
        return out
    if node.kind == 'for':
        tg = [a.target]
    elif node.kind == 'with_enter':
        item = node.item
        tg = [item.optional_vars] if item is not None and item.optional_vars is not None else []
    elif node.kind == 'except':
        return {a.name} if getattr(a, 'name', None) else out
    elif isinstance(a, ast.Assign):
        tg = a.targets
    elif isinstance(a, (ast.AugAssign, ast.AnnAssign)):
        tg = [a.target] if getattr(a, 'value', None) is not None or isinstance(a, ast.AugAssign) else []
    elif isinstance(a, (ast.Import, ast.ImportFrom)):
        return {(al.asname or al.name).split('.')[0] for al in a.names}
    elif isinstance(a, (ast.FunctionDef, ast.AsyncFunctionDef, ast.ClassDef)):
        return {a.name}
    else:
        tg = []
    for t in tg:
        for x in ast.walk(t):
            if isinstance(x, ast.Name) and isinstance(x.ctx, ast.Store):
                out.add(x.id)
    # walrus inside the statement / test
    if isinstance(a, ast.AST) and node.kind in ('stmt', 'test', 'return', 'for'):
        for x in walk_no_nested(a) if isinstance(a, ast.stmt) else ast.walk(a):
            if isinstance(x, ast.NamedExpr) and isinstance(x.target, ast.Name):
                out.add(x.target.id)
    return out


def defs(cfg, name):
    return {n.id for n in cfg.nodes.values() if name in _targets(n)}


def reaching(cfg, nid, name):
    ds = defs(cfg, name)
    seen, stack, found, entry = set(), list(cfg.g.predecessors(nid)), set(), False
    while stack:
        n = stack.pop()
        if n in seen:
            continue
        seen.add(n)
        if n in ds:
            found.add(n)
            continue
        if n == cfg.entry:
            entry = True
            continue
        stack.extend(cfg.g.predecessors(n))
    return found, entry


def values(cfg, nid, name):
    found, entry = reaching(cfg, nid, name)
    if entry or not found:
        return None
    out = []
    for d in found:
        a = cfg.nodes[d].ast
        if cfg.nodes[d].kind == 'stmt' and isinstance(a, ast.Assign) and len(a.targets) == 1 \
                and isinstance(a.targets[0], ast.Name) and a.targets[0].id == name:
            out.append((d, a.value))
        elif cfg.nodes[d].kind == 'stmt' and isinstance(a, ast.AnnAssign) and isinstance(a.target, ast.Name) \
                and a.target.id == name and a.value is not None:
            out.append((d, a.value))
        else:
            return None
    return out


def holds(cfg, nid, expr, pred, depth=4, _seen=None):
    """pred(expr), or some local temporary read by expr has pred on every reaching value"""
    if pred(expr):
        return True
    if depth == 0:
        return False
    _seen = _seen or set()
    for x in ast.walk(expr):
        if isinstance(x, ast.Name) and isinstance(x.ctx, ast.Load) and (nid, x.id) not in _seen:
            vs = values(cfg, nid, x.id)
            if vs and all(holds(cfg, d, v, pred, depth - 1, _seen | {(nid, x.id)}) for d, v in vs):
                return True
    return False


def node_of(cfg, stmt):
    ids = cfg.ids(stmt)
    return ids[0] if ids else None


def local_callables(fnode):
    """{name: node} of functions defined inside fnode (nested def, or `name = lambda ...`)"""
    out = {}
    for n in ast.walk(fnode):
        if n is fnode:
            continue
        if isinstance(n, (ast.FunctionDef, ast.AsyncFunctionDef)):
            out[n.name] = n
        elif isinstance(n, ast.Assign) and len(n.targets) == 1 and isinstance(n.targets[0], ast.Name) \
                and isinstance(n.value, ast.Lambda):
            out[n.targets[0].id] = n.value
    return out


def stmt_or_local_callee(fnode, stmt, pred, _depth=3):
    """pred(node) holds for some node of the statement itself, or of a locally defined function the statement names
    (passed as a callback or called): `df.apply(lambda x: x.explode())` == `def f(x): return x.explode()` + `df.apply(f)`"""
    if isinstance(stmt, (ast.FunctionDef, ast.AsyncFunctionDef, ast.ClassDef)):
        return False
    if any(pred(x) for x in ast.walk(stmt)):
        return True
    if _depth == 0:
        return False
    loc = local_callables(fnode)
    for x in ast.walk(stmt):
        if isinstance(x, ast.Name) and isinstance(x.ctx, ast.Load) and x.id in loc:
            body = loc[x.id]
            if any(pred(y) for y in ast.walk(body)):
                return True
            for y in ast.walk(body):
                if isinstance(y, ast.Name) and y.id in loc and y.id != x.id \
                        and any(pred(z) for z in ast.walk(loc[y.id])):
                    return True
    return False


def _unpacked_value(cfg, d, name):
    """value bound to `name` by a tuple-unpacking assignment at node d (`a, name = x, y` or `a, name = t` with t a tuple
    built by a reaching plain assignment), else None"""
    a = cfg.nodes[d].ast
    if not (cfg.nodes[d].kind == 'stmt' and isinstance(a, ast.Assign) and len(a.targets) == 1
            and isinstance(a.targets[0], (ast.Tuple, ast.List))):
        return None
    tg = a.targets[0].elts
    idx = [i for i, t in enumerate(tg) if isinstance(t, ast.Name) and t.id == name]
    if len(idx) != 1 or any(isinstance(t, ast.Starred) for t in tg):
        return None
    rhs = a.value
    if isinstance(rhs, ast.Name):
        vs = values(cfg, d, rhs.id)
        if not vs:
            return None
        # a None cannot be unpacked: a reaching `t = None` belongs to a path that a guard has excluded
        tup = [(dd, v) for dd, v in vs if not (isinstance(v, ast.Constant) and v.value is None)]
        if len(tup) != 1:
            return None
        d, rhs = tup[0]
    if isinstance(rhs, (ast.Tuple, ast.List)) and len(rhs.elts) == len(tg) \
            and not any(isinstance(e, ast.Starred) for e in rhs.elts):
        return d, rhs.elts[idx[0]]
    return None


def expand_expr(cfg, nid, expr, depth=10):
    """expr with every local temporary replaced by its defining expression (recursively), where that definition is unique:
    a plain assignment or a tuple unpacking of a tuple built by a plain assignment. Names with several reaching
    definitions, parameters, loop variables stay as they are. The result is an AST (compare with ast.unparse)."""
    import copy

    class T(ast.NodeTransformer):
        def visit_Name(self, node):
            if not isinstance(node.ctx, ast.Load) or depth <= 0:
                return node
            found, entry = reaching(cfg, nid, node.id)
            if entry or len(found) != 1:
                return node
            d = next(iter(found))
            a = cfg.nodes[d].ast
            val = None
            if cfg.nodes[d].kind == 'stmt' and isinstance(a, ast.Assign) and len(a.targets) == 1 \
                    and isinstance(a.targets[0], ast.Name) and a.targets[0].id == node.id:
                val = (d, a.value)
            elif cfg.nodes[d].kind == 'stmt' and isinstance(a, ast.AnnAssign) and isinstance(a.target, ast.Name) \
                    and a.value is not None:
                val = (d, a.value)
            else:
                val = _unpacked_value(cfg, d, node.id)
            if val is None:
                return node
            dd, v = val
            # a definition that reads the name it defines (x = x + 1) is not expanded
            if any(isinstance(x, ast.Name) and x.id == node.id for x in ast.walk(v)):
                return node
            return expand_expr(cfg, dd, copy.deepcopy(v), depth - 1)

        def visit_Lambda(self, node):
            return node

        def visit_ListComp(self, node):
            return node
        visit_SetComp = visit_DictComp = visit_GeneratorExp = visit_ListComp
    return T().visit(copy.deepcopy(expr))


def node_containing(cfg, sub):
    """id of the CFG node whose statement / test / iterator contains the AST node `sub` (innermost: fewest nodes)"""
    best = None
    for n in cfg.nodes.values():
        a = n.ast
        if a is None or isinstance(a, (ast.FunctionDef, ast.AsyncFunctionDef, ast.ClassDef)):
            continue
        root = a.iter if n.kind == 'for' else a
        size = 0
        hit = False
        for x in ast.walk(root):
            size += 1
            if x is sub:
                hit = True
        if hit and (best is None or size < best[0]):
            best = (size, n.id)
    return best[1] if best else None


def alias_root(cfg, nid, name, depth=6):
    """follow `a = b` chains: the name whose object `name` refers to at node nid (unique reaching plain-name assignments)"""
    while depth > 0:
        vs = values(cfg, nid, name)
        if not vs or len(vs) != 1 or not isinstance(vs[0][1], ast.Name):
            return name
        nid, name = vs[0][0], vs[0][1].id
        depth -= 1
    return name


def positional_args(cfg, nid, call):
    """positional arguments of a call with `*name` expanded when `name` is (uniquely) a tuple / list literal at node nid
    (`args = (a, b); f(*args)` is `f(a, b)`); None when a starred argument cannot be resolved"""
    out = []
    for a in call.args:
        if isinstance(a, ast.Starred):
            v = a.value
            if isinstance(v, ast.Name):
                vs = values(cfg, nid, v.id)
                if vs and len(vs) == 1:
                    v = vs[0][1]
            if isinstance(v, (ast.Tuple, ast.List)) and not any(isinstance(e, ast.Starred) for e in v.elts):
                out += list(v.elts)
            else:
                return None
        else:
            out.append(a)
    return out


def mapping_stores(fn):
    """(statement, value expression) for every way a function stores a value into a mapping: `d[k] = v`, `d.update({k: v})`,
    `d.update((k, v) for ..)` / a list of pairs, `d |= {..}`, `d.setdefault(k, v)`, `d = {k: v for ..}` and dict literals
    assigned to a name. The value expression is the `v` part (for comprehensions: the element's value with the loop variables
    left as they are)."""
    out = []

    def from_iterable(st, e):
        if isinstance(e, ast.Dict):
            out.extend((st, v) for k, v in zip(e.keys, e.values) if k is not None)
        elif isinstance(e, ast.DictComp):
            out.append((st, e.value))
        elif isinstance(e, (ast.GeneratorExp, ast.ListComp)) and isinstance(e.elt, ast.Tuple) and len(e.elt.elts) == 2:
            out.append((st, e.elt.elts[1]))
        elif isinstance(e, (ast.List, ast.Tuple)):
            out.extend((st, x.elts[1]) for x in e.elts if isinstance(x, ast.Tuple) and len(x.elts) == 2)
    for st in ast.walk(fn):
        if isinstance(st, ast.Assign):
            if isinstance(st.targets[0], ast.Subscript):
                out.append((st, st.value))
            elif isinstance(st.targets[0], ast.Name) and isinstance(st.value, (ast.Dict, ast.DictComp)):
                from_iterable(st, st.value)
        elif isinstance(st, ast.AugAssign) and isinstance(st.op, ast.BitOr):
            from_iterable(st, st.value)
        elif isinstance(st, ast.Expr) and isinstance(st.value, ast.Call) and isinstance(st.value.func, ast.Attribute):
            c = st.value
            if c.func.attr == 'update' and c.args:
                from_iterable(st, c.args[0])
            elif c.func.attr == 'setdefault' and len(c.args) == 2:
                out.append((st, c.args[1]))
    return out
