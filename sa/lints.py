"""Small shape lints used by several property rules. Each returns facts; the rule modules decide what is a violation.

search_loops         loops of the form `for x in xs: ... result = x; break` and, for every break that leaves the loop,
                     whether an assignment to the result variable reaches it within the iteration
late_binding         functions/lambdas defined in a loop body that read a variable re-bound by the loop and escape
                     the iteration (yield / return / stored / passed on) without binding it (default argument, partial)
index_deletes        loops that delete by index from a sequence while iterating over indices in non-descending order
accumulator_reads    `acc = src.copy()` ... loop writes acc[k] = ... and reads acc as a whole inside the same loop
"""
from __future__ import annotations

import ast

from .cfg import CFG
from .srcmodel import unparse, walk_no_nested, dotted


def _names(node, ctx=None):
    return {n.id for n in ast.walk(node) if isinstance(n, ast.Name) and (ctx is None or isinstance(n.ctx, ctx))}


def own_breaks(loop):
    out = []

    def walk(stmts):
        for s in stmts:
            if isinstance(s, ast.Break):
                out.append(s)
            elif isinstance(s, (ast.For, ast.While)):
                walk(s.orelse)
            elif isinstance(s, (ast.FunctionDef, ast.ClassDef, ast.AsyncFunctionDef)):
                pass
            else:
                for fld in ('body', 'orelse', 'finalbody'):
                    walk(getattr(s, fld, []) or [])
                for h in getattr(s, 'handlers', []) or []:
                    walk(h.body)
    walk(loop.body)
    return out


def _own_blocks(loop):
    """statement lists that belong to this loop's iteration (nested loops contribute only their else clause)"""
    out = []

    def walk(stmts):
        out.append(stmts)
        for s in stmts:
            if isinstance(s, (ast.For, ast.While)):
                walk(s.orelse)
            elif isinstance(s, (ast.FunctionDef, ast.ClassDef, ast.AsyncFunctionDef)):
                pass
            else:
                for fld in ('body', 'orelse', 'finalbody'):
                    b = getattr(s, fld, None)
                    if isinstance(b, list) and b:
                        walk(b)
                for h in getattr(s, 'handlers', []) or []:
                    walk(h.body)
    walk(loop.body)
    return out


def search_loops(fnode):
    """[(loop, result_vars, [(break_stmt, ok)])] for loops with `result = ...; break`"""
    out = []
    cfg = None
    for L in [x for x in walk_no_nested(fnode) if isinstance(x, ast.For)]:
        res = set()
        for b in _own_blocks(L):
            for i in range(len(b) - 1):
                if isinstance(b[i], ast.Assign) and len(b[i].targets) == 1 and isinstance(b[i].targets[0], ast.Name) \
                        and isinstance(b[i + 1], ast.Break):
                    res.add(b[i].targets[0].id)
        if not res:
            continue
        if cfg is None:
            cfg = CFG(fnode)
        heads = [i for i in cfg.ids(L) if cfg.nodes[i].kind == 'for']
        if not heads:
            continue
        head = heads[0]
        assigns = {n.id for n in cfg.nodes.values() if n.kind == 'stmt' and isinstance(n.ast, ast.Assign)
                   and any(isinstance(t, ast.Name) and t.id in res for t in n.ast.targets)}
        starts = list(cfg.succ(head, ['true']))
        free = set()
        for s in starts:
            if s not in assigns:
                free |= cfg.reachable(s, avoid=assigns | {head})
        brs = []
        for br in own_breaks(L):
            ids = cfg.ids(br)
            ok = not any(i in free for i in ids)
            brs.append((br, ok))
        out.append((L, res, brs))
    return out


def _loop_bound_names(loop):
    bound = _names(loop.target, ast.Store) if isinstance(loop, ast.For) else set()
    for s in loop.body:
        for n in ast.walk(s):
            if isinstance(n, (ast.FunctionDef, ast.Lambda, ast.AsyncFunctionDef)):
                continue
            if isinstance(n, ast.Name) and isinstance(n.ctx, ast.Store):
                bound.add(n.id)
    return bound


def _free_reads(fn):
    """names read inside a nested function / lambda that are not its parameters or locals"""
    a = fn.args
    params = {x.arg for x in a.posonlyargs + a.args + a.kwonlyargs} | ({a.vararg.arg} if a.vararg else set()) \
        | ({a.kwarg.arg} if a.kwarg else set())
    body = fn.body if isinstance(fn.body, list) else [fn.body]
    local = set()
    for s in body:
        for n in ast.walk(s):
            if isinstance(n, ast.Name) and isinstance(n.ctx, ast.Store):
                local.add(n.id)
            if isinstance(n, ast.comprehension):
                local |= _names(n.target)
    reads = set()
    for s in body:
        reads |= _names(s, ast.Load)
    return reads - params - local


IMMEDIATE_CONSUMERS = {'sorted', 'min', 'max', 'filter', 'map', 'any', 'all', 'sum', 'next', 'list', 'tuple', 'set',
                       'reduce', 'sort', 'groupby', 'apply', 'applymap', 'agg', 'transform', 'pipe', 'subs', 'replace',
                       'xreplace'}


def late_binding(fnode):
    """[(closure node, innermost loop, captured names, how it escapes)]"""
    out = []
    parent = {}
    for n in ast.walk(fnode):
        for c in ast.iter_child_nodes(n):
            parent[c] = n
    for n in ast.walk(fnode):
        if n is fnode or not isinstance(n, (ast.FunctionDef, ast.Lambda)):
            continue
        # enclosing loops up to the next function boundary (the closure must be in the loop body, not its iterable)
        loops, p, child = [], parent.get(n), n
        while p is not None and not isinstance(p, (ast.FunctionDef, ast.Lambda, ast.AsyncFunctionDef)):
            if isinstance(p, (ast.For, ast.While)) and any(child is s for s in p.body):
                loops.append(p)
            child, p = p, parent.get(p)
        if p is not fnode and p is not None:
            continue    # closure belongs to a nested function: analysed when that function is the root
        if not loops:
            continue
        L = loops[0]
        bound = set()
        for lp in loops:
            bound |= _loop_bound_names(lp)
        cap = _free_reads(n) & bound
        if isinstance(n, ast.FunctionDef):
            cap.discard(n.name)
        if not cap:
            continue
        how = None
        if isinstance(n, ast.Lambda):
            p = parent.get(n)
            if isinstance(p, ast.keyword):
                p = parent.get(p)
            if isinstance(p, ast.Call):
                callee = (dotted(p.func) or unparse(p.func)).split('.')[-1]
                if callee in IMMEDIATE_CONSUMERS:
                    continue
                how = f'passed to {callee}()'
            else:
                how = type(p).__name__.lower() if p is not None else '?'
        else:
            uses = []
            for s2 in L.body:
                for m in ast.walk(s2):
                    if isinstance(m, ast.Name) and m.id == n.name and isinstance(m.ctx, ast.Load):
                        pp = parent.get(m)
                        if isinstance(pp, ast.Call) and pp.func is m:
                            uses.append('called')
                        else:
                            uses.append('escapes')
            if not uses or all(u == 'called' for u in uses):
                continue
            how = 'name escapes the iteration (yield / store / argument)'
        out.append((n, L, sorted(cap), how))
    return out


def index_deletes(fnode):
    """[(loop, [delete statements], descending: bool)] for `for i in <iter>: del seq[i]` (or .pop(i)/.row_del(i)/.col_del(i))"""
    out = []
    # .pop(i) counts only on names bound to a list in this function (dict.pop(key) is not an index deletion)
    lists = {n.targets[0].id for n in walk_no_nested(fnode) if isinstance(n, ast.Assign) and len(n.targets) == 1
             and isinstance(n.targets[0], ast.Name)
             and (isinstance(n.value, (ast.List, ast.ListComp))
                  or (isinstance(n.value, ast.Call) and dotted(n.value.func) == 'list'))}
    for L in [x for x in walk_no_nested(fnode) if isinstance(x, ast.For) and isinstance(x.target, ast.Name)]:
        i = L.target.id
        dels = []
        for s in L.body:
            for n in ast.walk(s):
                if isinstance(n, ast.Delete):
                    for t in n.targets:
                        if isinstance(t, ast.Subscript) and isinstance(t.slice, ast.Name) and t.slice.id == i \
                                and isinstance(t.value, ast.Name):
                            dels.append(n)
                elif isinstance(n, ast.Call) and isinstance(n.func, ast.Attribute) \
                        and n.func.attr in ('pop', 'row_del', 'col_del') and len(n.args) == 1 \
                        and isinstance(n.args[0], ast.Name) and n.args[0].id == i and isinstance(n.func.value, ast.Name) \
                        and (n.func.attr != 'pop' or n.func.value.id in lists):
                    dels.append(n)
        if not dels:
            continue
        it = L.iter
        desc = False
        if isinstance(it, ast.Call):
            fn = dotted(it.func) or ''
            if fn == 'reversed':
                desc = True
            elif fn == 'sorted' and any(k.arg == 'reverse' and isinstance(k.value, ast.Constant) and k.value.value is True
                                        for k in it.keywords):
                desc = True
            elif fn == 'range' and len(it.args) == 3 and isinstance(it.args[2], ast.UnaryOp):
                desc = True
        # a loop that leaves after the first deletion is fine
        single = any(isinstance(x, (ast.Break, ast.Return)) for s in L.body for x in ast.walk(s))
        out.append((L, dels, desc or single))
    return out


def accumulator_reads(fnode):
    """[(acc, src, loop, read node)]: acc = src.copy() (or dict(src)); inside a loop acc[...] is written and acc is read as
    a whole (passed as argument / .subs(acc)) in the same loop"""
    out = []
    accs = {}
    for n in walk_no_nested(fnode):
        if isinstance(n, ast.Assign) and len(n.targets) == 1 and isinstance(n.targets[0], ast.Name):
            v = n.value
            if isinstance(v, ast.Call) and isinstance(v.func, ast.Attribute) and v.func.attr == 'copy' \
                    and isinstance(v.func.value, ast.Name) and not v.args:
                accs[n.targets[0].id] = v.func.value.id
            elif isinstance(v, ast.Call) and dotted(v.func) == 'dict' and len(v.args) == 1 and isinstance(v.args[0], ast.Name):
                accs[n.targets[0].id] = v.args[0].id
    if not accs:
        return out, accs
    for L in [x for x in walk_no_nested(fnode) if isinstance(x, (ast.For, ast.While))]:
        for acc, src in accs.items():
            writes = [n for s in L.body for n in ast.walk(s) if isinstance(n, ast.Subscript) and isinstance(n.ctx, ast.Store)
                      and isinstance(n.value, ast.Name) and n.value.id == acc]
            if not writes:
                continue
            for s in L.body:
                for n in ast.walk(s):
                    if isinstance(n, ast.Call):
                        for a in list(n.args) + [k.value for k in n.keywords]:
                            if isinstance(a, ast.Name) and a.id == acc:
                                out.append((acc, src, L, n))
    return out, accs


POSITIVE_EXAMPLES = {
    'search_loops': """
def f(xs):
    r = None
    for x in xs:
        if x.bad:
            break
        if x.good:
            r = x
            break
    return r
""",
    'late_binding': """
def f(xs):
    for x in xs:
        def g(m):
            return m + x
        yield x, g
""",
    'index_deletes': """
def f(names, remove):
    for i in remove:
        del names[i]
""",
    'accumulator_reads': """
def f(values, ms):
    new = dict(values)
    for m in ms:
        s = m.subs(new)
        new[m.name] = s
    return new
""",
}


def self_test():
    """every lint must fire on its positive example (a lint that matches nothing passes vacuously)"""
    t = {k: ast.parse(v).body[0] for k, v in POSITIVE_EXAMPLES.items()}
    ok = {
        'search_loops': any(not o for _, _, brs in search_loops(t['search_loops']) for _, o in brs),
        'late_binding': bool(late_binding(t['late_binding'])),
        'index_deletes': any(not o for _, _, o in index_deletes(t['index_deletes'])),
        'accumulator_reads': bool(accumulator_reads(t['accumulator_reads'])[0]),
    }
    return ok


def sequential_substitution(fnode):
    """[(loop, statement)]: `for k, v in m.items(): x = x.replace/subs(k, v)` or `frame.loc[frame[c] == k, c] = v`:
    a mapping applied one entry at a time (wrong when a value is also a key)"""
    out = []
    for L in [x for x in walk_no_nested(fnode) if isinstance(x, ast.For)]:
        it = L.iter
        if not (isinstance(it, ast.Call) and isinstance(it.func, ast.Attribute) and it.func.attr == 'items'
                and isinstance(L.target, ast.Tuple) and len(L.target.elts) == 2
                and all(isinstance(e, ast.Name) for e in L.target.elts)):
            continue
        k, v = [e.id for e in L.target.elts]
        for s in L.body:
            for a in ast.walk(s):
                if not (isinstance(a, ast.Assign) and len(a.targets) == 1):
                    continue
                t = a.targets[0]
                if isinstance(t, ast.Name) and isinstance(a.value, ast.Call) and isinstance(a.value.func, ast.Attribute) \
                        and a.value.func.attr in ('replace', 'subs', 'xreplace', 'rename') \
                        and isinstance(a.value.func.value, ast.Name) and a.value.func.value.id == t.id:
                    nm = _names(a.value)
                    if k in nm and v in nm:
                        out.append((L, a))
                if isinstance(t, ast.Subscript) and k in _names(t) and v in _names(a.value) \
                        and any(isinstance(x, ast.Compare) for x in ast.walk(t)):
                    out.append((L, a))
    return out


POSITIVE_EXAMPLES['sequential_substitution'] = """
def f(df, remap):
    for old, new in remap.items():
        df.loc[df['CMT'] == old, 'CMT'] = new
    return df
"""
_self_test_base = self_test


def self_test():  # noqa: F811
    ok = _self_test_base()
    t = ast.parse(POSITIVE_EXAMPLES['sequential_substitution']).body[0]
    ok['sequential_substitution'] = bool(sequential_substitution(t))
    return ok


def dependence(stmts):
    """flow-insensitive data+control dependence inside a statement list: name -> names it may depend on
    (assignments, augmented assignments, mutating method calls on a name, loop targets; enclosing tests add control deps)"""
    deps: dict[str, set[str]] = {}

    def visit(body, ctrl):
        for s_ in body:
            if isinstance(s_, ast.Assign):
                for t in s_.targets:
                    for nm in _names(t):
                        deps.setdefault(nm, set()).update(_names(s_.value) | ctrl)
            elif isinstance(s_, ast.AnnAssign) and s_.value is not None:
                for nm in _names(s_.target):
                    deps.setdefault(nm, set()).update(_names(s_.value) | ctrl)
            elif isinstance(s_, ast.AugAssign):
                for nm in _names(s_.target):
                    deps.setdefault(nm, set()).update(_names(s_.value) | ctrl)
            elif isinstance(s_, ast.Expr) and isinstance(s_.value, ast.Call) and isinstance(s_.value.func, ast.Attribute) \
                    and isinstance(s_.value.func.value, ast.Name):
                deps.setdefault(s_.value.func.value.id, set()).update(
                    set().union(*[_names(a) for a in s_.value.args], set()) | ctrl)
            elif isinstance(s_, ast.If):
                c = ctrl | _names(s_.test)
                visit(s_.body, c)
                visit(s_.orelse, c)
            elif isinstance(s_, ast.For):
                for nm in _names(s_.target):
                    deps.setdefault(nm, set()).update(_names(s_.iter) | ctrl)
                visit(s_.body, ctrl)
                visit(s_.orelse, ctrl)
            elif isinstance(s_, ast.While):
                visit(s_.body, ctrl | _names(s_.test))
            elif isinstance(s_, (ast.With,)):
                visit(s_.body, ctrl)
            elif isinstance(s_, ast.Try):
                visit(s_.body, ctrl)
                for h in s_.handlers:
                    visit(h.body, ctrl)
                visit(s_.orelse, ctrl)
                visit(s_.finalbody, ctrl)
    visit(stmts, set())
    return deps


def closure(deps, names_):
    out, stack = set(), list(names_)
    while stack:
        x = stack.pop()
        if x in out:
            continue
        out.add(x)
        stack.extend(deps.get(x, ()))
    return out


def exec_under(stmts, env, target):
    """Structured abstract execution of a statement list under a partial environment (names -> python values).
    Returns (may, must): may/must a statement satisfying `target(stmt)` be executed before the list is left.
    If-tests decidable with tables.eval_pred are pruned; loops bodies contribute to `may` only; continue / break /
    return / raise end the path."""
    from .tables import eval_pred, Undecidable

    def run(body):
        # returns (may, must, falls_through)
        may = must = False
        for s_ in body:
            if target(s_):
                may = must = True
            if isinstance(s_, ast.If):
                try:
                    v = bool(eval_pred(s_.test, env))
                    branches = [s_.body if v else s_.orelse]
                except (Undecidable, KeyError, TypeError, IndexError):
                    branches = [s_.body, s_.orelse]
                res = [run(b) for b in branches]
                may = may or any(r[0] for r in res)
                live = [r for r in res if r[2]]
                if not live:
                    # every branch leaves: must only if all branches executed it
                    return may, must or all(r[1] for r in res), False
                if not must:
                    must = all(r[1] for r in res)     # branches that leave without it break `must`
                    if any((not r[2]) and (not r[1]) for r in res):
                        must = False
            elif isinstance(s_, (ast.For, ast.While)):
                r = run(s_.body)
                may = may or r[0]
                r2 = run(s_.orelse)
                may = may or r2[0]
            elif isinstance(s_, (ast.With,)):
                r = run(s_.body)
                may, must = may or r[0], must or r[1]
                if not r[2]:
                    return may, must, False
            elif isinstance(s_, ast.Try):
                r = run(s_.body)
                may = may or r[0] or any(run(h.body)[0] for h in s_.handlers)
                rf = run(s_.finalbody)
                may, must = may or rf[0], must or rf[1]
            elif isinstance(s_, (ast.Continue, ast.Break, ast.Return, ast.Raise)):
                return may, must, False
        return may, must, True
    m = run(stmts)
    return m[0], m[1]


def loop_carried_flags(fnode):
    """[(outer loop, inner loop, var)]: a flag that is tested and re-assigned a constant inside an inner loop, but whose
    (constant) initialisation is outside the outer loop and not repeated in the outer loop's body: its meaning
    ("first item", "found") then spans all iterations of the outer loop instead of one"""
    out = []

    def const_assign(s_, v=None):
        return isinstance(s_, ast.Assign) and len(s_.targets) == 1 and isinstance(s_.targets[0], ast.Name) \
            and isinstance(s_.value, ast.Constant) and (v is None or s_.targets[0].id == v)
    for L in [x for x in ast.walk(fnode) if isinstance(x, (ast.For, ast.While))]:
        inner = [m for s_ in L.body for m in ast.walk(s_) if isinstance(m, (ast.For, ast.While))]
        for M in inner:
            tested, sentinels = set(), set()
            for n in ast.walk(M):
                if isinstance(n, ast.If):
                    t = n.test
                    if isinstance(t, ast.UnaryOp) and isinstance(t.op, ast.Not):
                        t = t.operand
                    if isinstance(t, ast.Name):
                        tested.add(t.id)
                    # sentinel form of the same flag: `if keep is None:` ... `keep = build(...)`
                    if isinstance(t, ast.Compare) and len(t.ops) == 1 and isinstance(t.ops[0], (ast.Is, ast.IsNot)) \
                            and isinstance(t.left, ast.Name) and isinstance(t.comparators[0], ast.Constant) \
                            and t.comparators[0].value is None:
                        sentinels.add(t.left.id)
            for v in sorted(tested | sentinels):
                sets_in_M = [n for n in ast.walk(M) if const_assign(n, v) or (
                    v in sentinels and isinstance(n, ast.Assign) and len(n.targets) == 1
                    and isinstance(n.targets[0], ast.Name) and n.targets[0].id == v)]
                if not sets_in_M:
                    continue
                # initialised (anywhere) in L's body outside M?
                reinit = False
                for s_ in L.body:
                    for n in ast.walk(s_):
                        if n is M:
                            continue
                        if isinstance(n, ast.Assign) and any(isinstance(t, ast.Name) and t.id == v for t in n.targets) \
                                and not any(n is x for x in ast.walk(M)):
                            reinit = True
                out.append((L, M, v, reinit))
    return out


POSITIVE_EXAMPLES['loop_carried_flags'] = """
def f(dists, inds):
    first = True
    for dist in dists:
        for i in dist:
            if first:
                first = False
                build(i)
"""
_self_test_base2 = self_test


def self_test():  # noqa: F811
    ok = _self_test_base2()
    t = ast.parse(POSITIVE_EXAMPLES['loop_carried_flags']).body[0]
    ok['loop_carried_flags'] = any(not r for *_x, r in loop_carried_flags(t))
    return ok


def gen_after_kill(fnode):
    """[(assign, text)]: liveness-style updates written as (live | uses) - {defined}: the defined symbol is removed AFTER the
    uses are added, so a statement that uses the symbol it defines (X = X*2) drops it from the tracked set.
    The correct transfer is (live - {defined}) | uses."""
    out = []
    for n in ast.walk(fnode):
        val = None
        if isinstance(n, ast.Assign):
            val = n.value
        elif isinstance(n, ast.AugAssign) and isinstance(n.op, ast.Sub) and isinstance(n.target, ast.Name):
            continue
        if not (isinstance(val, ast.BinOp) and isinstance(val.op, ast.Sub)):
            continue
        left, right = val.left, val.right
        if isinstance(left, ast.BinOp) and isinstance(left.op, ast.BitOr):
            uses = any(isinstance(a, ast.Attribute) and a.attr in ('free_symbols', 'rhs_symbols') for a in ast.walk(left))
            defd = any(isinstance(a, ast.Attribute) and a.attr in ('symbol', 'lhs_symbols') for a in ast.walk(right))
            if uses and defd:
                out.append((n, unparse(n)))
    return out


POSITIVE_EXAMPLES['gen_after_kill'] = """
def f(stats, live):
    for s in reversed(stats):
        live = (live | s.expression.free_symbols) - {s.symbol}
    return live
"""
_self_test_base3 = self_test


def self_test():  # noqa: F811
    ok = _self_test_base3()
    t = ast.parse(POSITIVE_EXAMPLES['gen_after_kill']).body[0]
    ok['gen_after_kill'] = bool(gen_after_kill(t))
    return ok


INDEX_METHODS = {'find_assignment_index', 'index', 'find_index'}


def stale_indices(fnode):
    """[(container, index var, def node, rebind node, use node)]: a position in `container` is computed, `container` is
    re-bound (statements inserted/removed) and the old position is then used to subscript the new container.
    Positions cached in a list (L.append(i) ... i = L[k]) keep the node where they were computed."""
    cfg = CFG(fnode)
    # taint: var -> set of (container, def node id)
    taint: dict[str, set] = {}
    changed = True
    stmt_nodes = [n for n in cfg.nodes.values() if n.kind == 'stmt' and n.ast is not None]
    while changed:
        changed = False
        for n in stmt_nodes:
            a = n.ast
            if isinstance(a, ast.Assign) and len(a.targets) == 1 and isinstance(a.targets[0], ast.Name):
                v, val = a.targets[0].id, a.value
                new = set()
                if isinstance(val, ast.Call) and isinstance(val.func, ast.Attribute) and val.func.attr in INDEX_METHODS \
                        and isinstance(val.func.value, ast.Name):
                    new.add((val.func.value.id, n.id))
                elif isinstance(val, ast.Subscript) and isinstance(val.value, ast.Name) and val.value.id in taint:
                    new |= taint[val.value.id]
                elif isinstance(val, ast.Name) and val.id in taint:
                    new |= taint[val.id]
                if new - taint.get(v, set()):
                    taint.setdefault(v, set()).update(new)
                    changed = True
            if isinstance(a, ast.Expr) and isinstance(a.value, ast.Call) and isinstance(a.value.func, ast.Attribute) \
                    and a.value.func.attr == 'append' and isinstance(a.value.func.value, ast.Name) and a.value.args:
                L = a.value.func.value.id
                arg = a.value.args[0]
                src = set()
                if isinstance(arg, ast.Name) and arg.id in taint:
                    src = taint[arg.id]
                elif isinstance(arg, ast.Call) and isinstance(arg.func, ast.Attribute) and arg.func.attr in INDEX_METHODS \
                        and isinstance(arg.func.value, ast.Name):
                    src = {(arg.func.value.id, n.id)}
                if src - taint.get(L, set()):
                    taint.setdefault(L, set()).update(src)
                    changed = True
    out = []
    seen = set()
    for n in cfg.nodes.values():
        a = n.ast
        if a is None or n.kind not in ('stmt', 'test', 'return'):
            continue
        for sub in ast.walk(a):
            if not (isinstance(sub, ast.Subscript) and isinstance(sub.value, ast.Name)):
                continue
            cont = sub.value.id
            idx_names = {x.id for x in ast.walk(sub.slice) if isinstance(x, ast.Name)} & set(taint)
            for iv in idx_names:
                for (c, d) in taint[iv]:
                    if c != cont:
                        continue
                    rebinds = [r for r in stmt_nodes if isinstance(r.ast, ast.Assign)
                               and any(isinstance(t, ast.Name) and t.id == cont for t in r.ast.targets)]
                    # direct definitions of the index variable kill the old position
                    kills = {k.id for k in stmt_nodes if isinstance(k.ast, ast.Assign)
                             and any(isinstance(t, ast.Name) and t.id == iv for t in k.ast.targets)
                             and isinstance(k.ast.value, ast.Call) and isinstance(k.ast.value.func, ast.Attribute)
                             and k.ast.value.func.attr in INDEX_METHODS}
                    for r in rebinds:
                        if r.id == n.id:
                            continue
                        after_r = set()
                        for s_ in cfg.g.successors(r.id):
                            if s_ not in kills:
                                after_r |= cfg.reachable(s_, avoid=kills)
                        if r.id in cfg.reachable(d) and n.id in after_r:
                            # the position computed at d survives the rebind r and is used at n
                            key = (cont, iv, d, n.id)
                            if key not in seen:
                                seen.add(key)
                                out.append((cont, iv, cfg.nodes[d], r, n))
    return out


POSITIVE_EXAMPLES['stale_indices'] = """
def f(sset, names):
    indices = []
    for name in names:
        indices.append(sset.find_assignment_index(name))
    for i in range(len(names)):
        index = indices[i]
        statement = sset[index]
        sset = sset[0:index] + new(statement) + sset[index + 1:]
    return sset
"""
_self_test_base4 = self_test


def self_test():  # noqa: F811
    ok = _self_test_base4()
    t = ast.parse(POSITIVE_EXAMPLES['stale_indices']).body[0]
    ok['stale_indices'] = bool(stale_indices(t))
    return ok


MUTATING = {'clear', 'update', 'append', 'extend', 'pop', 'popitem', 'insert', 'remove', 'setdefault', 'add', 'discard', 'sort',
            'reverse'}


def yield_then_mutate(fnode):
    """[(var, yield node, mutation node)]: a generator yields a mutable container it built and mutates the same object
    afterwards without re-binding the name: the consumer that kept the yielded object sees it change"""
    if not any(isinstance(n, (ast.Yield, ast.YieldFrom)) for n in walk_no_nested(fnode)):
        return []
    cfg = CFG(fnode)
    built = {n.targets[0].id for n in walk_no_nested(fnode) if isinstance(n, ast.Assign) and len(n.targets) == 1
             and isinstance(n.targets[0], ast.Name)
             and (isinstance(n.value, (ast.Dict, ast.List, ast.Set))
                  or (isinstance(n.value, ast.Call) and dotted(n.value.func) in ('dict', 'list', 'set', 'OrderedDict')))}
    out = []
    for y in [n for n in cfg.nodes.values() if n.kind == 'yield' and n.ast is not None]:
        yv = y.ast.value if isinstance(y.ast, (ast.Yield, ast.YieldFrom)) else getattr(getattr(y.ast, 'value', None), 'value', None)
        if yv is None:
            continue
        for v in sorted(_names(yv) & built):
            kills = {n.id for n in cfg.nodes.values() if n.kind == 'stmt' and isinstance(n.ast, ast.Assign)
                     and any(isinstance(t, ast.Name) and t.id == v for t in n.ast.targets)}
            reach = set()
            for s_ in cfg.g.successors(y.id):
                if s_ not in kills:
                    reach |= cfg.reachable(s_, avoid=kills)
            for r in sorted(reach):
                nd = cfg.nodes[r]
                a = nd.ast
                if a is None or nd.kind != 'stmt':
                    continue
                mut = False
                for c in ast.walk(a):
                    if isinstance(c, ast.Call) and isinstance(c.func, ast.Attribute) and c.func.attr in MUTATING \
                            and isinstance(c.func.value, ast.Name) and c.func.value.id == v:
                        mut = True
                if isinstance(a, ast.Assign) and any(isinstance(t, ast.Subscript) and isinstance(t.value, ast.Name)
                                                    and t.value.id == v for t in a.targets):
                    mut = True
                if isinstance(a, ast.Delete) and any(isinstance(t, ast.Subscript) and isinstance(t.value, ast.Name)
                                                    and t.value.id == v for t in a.targets):
                    mut = True
                if mut:
                    out.append((v, y, nd))
                    break
    return out


POSITIVE_EXAMPLES['yield_then_mutate'] = """
def f(rows):
    block = {}
    for name, content in rows:
        if name == 'T':
            if block:
                yield (1, block)
                block.clear()
        else:
            block[name] = content
"""
_self_test_base5 = self_test


def self_test():  # noqa: F811
    ok = _self_test_base5()
    t = ast.parse(POSITIVE_EXAMPLES['yield_then_mutate']).body[0]
    ok['yield_then_mutate'] = bool(yield_then_mutate(t))
    return ok


def stale_system_after_model_rebind(fnode, model_name='model'):
    """[(var, def node, rebind node, use node)]: `var` is the ODE system (or statements) read from `model`; `model` is then
    re-bound to a model with new statements; afterwards a builder is created from the old `var`
    (CompartmentalSystemBuilder(var)): the changes made in between are thrown away / the old structure is re-created."""
    cfg = CFG(fnode)
    srcs = ('get_and_check_odes', 'ode_system', 'get_odes')
    defs = {}
    for n in cfg.nodes.values():
        if n.kind == 'stmt' and isinstance(n.ast, ast.Assign) and len(n.ast.targets) == 1 and isinstance(n.ast.targets[0], ast.Name):
            v = n.ast.value
            txt = unparse(v)
            if model_name in _names(v) and any(s_ in txt for s_ in srcs) and not isinstance(v, ast.IfExp):
                defs.setdefault(n.ast.targets[0].id, []).append(n)
    if not defs:
        return []
    # names bound to statements that contain a newly built system
    newsys = {n.targets[0].id for n in walk_no_nested(fnode) if isinstance(n, ast.Assign) and len(n.targets) == 1
              and isinstance(n.targets[0], ast.Name) and n.targets[0].id != model_name
              and 'CompartmentalSystem(' in unparse(n.value)}
    rebinds = [n for n in cfg.nodes.values() if n.kind == 'stmt' and isinstance(n.ast, ast.Assign)
               and any(isinstance(t, ast.Name) and t.id == model_name for t in n.ast.targets)
               and isinstance(n.ast.value, ast.Call)
               and any(k.arg == 'statements' and ('CompartmentalSystem(' in unparse(k.value) or _names(k.value) & newsys)
                       for c in ast.walk(n.ast.value) if isinstance(c, ast.Call) for k in c.keywords)]
    out = []
    for var, dnodes in defs.items():
        kills = {d.id for d in dnodes}
        uses = [n for n in cfg.nodes.values() if n.ast is not None and n.kind in ('stmt', 'test', 'return')
                and any(isinstance(c, ast.Call) and (dotted(c.func) or '').endswith('CompartmentalSystemBuilder') and c.args
                        and isinstance(c.args[0], ast.Name) and c.args[0].id == var for c in ast.walk(n.ast))]
        for d in dnodes:
            for r in rebinds:
                if r.id not in cfg.reachable(d.id, avoid=kills - {d.id}):
                    continue
                after = set()
                for s_ in cfg.g.successors(r.id):
                    if s_ not in kills:
                        after |= cfg.reachable(s_, avoid=kills)
                for u in uses:
                    if u.id in after:
                        out.append((var, d, r, u))
    seen, res = set(), []
    for t in out:
        k = (t[0], t[3].id)
        if k not in seen:
            seen.add(k)
            res.append(t)
    return res


POSITIVE_EXAMPLES['stale_system_after_model_rebind'] = """
def f(model):
    cs = get_and_check_odes(model)
    if cs.find_depot(model.statements):
        cb = CompartmentalSystemBuilder(cs)
        model = model.replace(statements=model.statements.before_odes + CompartmentalSystem(cb))
    if has_zero_order_absorption(model):
        cb = CompartmentalSystemBuilder(cs)
    return model
"""
_self_test_base6 = self_test


def self_test():  # noqa: F811
    ok = _self_test_base6()
    t = ast.parse(POSITIVE_EXAMPLES['stale_system_after_model_rebind']).body[0]
    ok['stale_system_after_model_rebind'] = bool(stale_system_after_model_rebind(t))
    return ok


def defaultdict_overwrites(fnode):
    """[(name, assign)]: a defaultdict(list|set) collects values per key; `d[k] = value` inside a loop replaces what earlier
    iterations collected for that key"""
    dds = set()
    for a in ast.walk(fnode):
        if isinstance(a, ast.Assign) and len(a.targets) == 1 and isinstance(a.targets[0], ast.Name) \
                and isinstance(a.value, ast.Call) and (dotted(a.value.func) or '').split('.')[-1] == 'defaultdict' \
                and a.value.args and unparse(a.value.args[0]) in ('list', 'set'):
            dds.add(a.targets[0].id)
    # ... or a dict literal that gives every key an empty collection to be filled: {"MET": set(), "DRUG": set()}
    lits = set()
    for a in ast.walk(fnode):
        if isinstance(a, ast.Assign) and len(a.targets) == 1 and isinstance(a.targets[0], ast.Name) \
                and isinstance(a.value, ast.Dict) and a.value.values and all(
                (isinstance(v, ast.Call) and isinstance(v.func, ast.Name) and v.func.id in ('set', 'list') and not v.args)
                or (isinstance(v, (ast.List, ast.Set)) and not v.elts) for v in a.value.values):
            lits.add(a.targets[0].id)
    out = []
    if not dds and not lits:
        return out, dds
    for L in [x for x in ast.walk(fnode) if isinstance(x, (ast.For, ast.While))]:
        for a in ast.walk(L):
            if isinstance(a, ast.Assign) and isinstance(a.targets[0], ast.Subscript) \
                    and isinstance(a.targets[0].value, ast.Name) and a.targets[0].value.id in dds:
                if not any(a is x[1] for x in out):
                    out.append((a.targets[0].value.id, a))
            # the literal form: only an assignment that does not read the collector back, or a dict-level update()
            if isinstance(a, ast.Assign) and isinstance(a.targets[0], ast.Subscript) \
                    and isinstance(a.targets[0].value, ast.Name) and a.targets[0].value.id in lits \
                    and not any(isinstance(x, ast.Name) and x.id == a.targets[0].value.id for x in ast.walk(a.value)):
                if not any(a is x[1] for x in out):
                    out.append((a.targets[0].value.id, a))
            if isinstance(a, ast.Expr) and isinstance(a.value, ast.Call) and isinstance(a.value.func, ast.Attribute) \
                    and a.value.func.attr == 'update' and isinstance(a.value.func.value, ast.Name) \
                    and a.value.func.value.id in lits:
                if not any(a is x[1] for x in out):
                    out.append((a.value.func.value.id, a))
    return out, dds


POSITIVE_EXAMPLES['defaultdict_overwrites'] = """
def f(statements):
    d = defaultdict(list)
    for s in statements:
        for a in s.names:
            d[a] = list(s.values)
    return d
"""
_self_test_base7 = self_test


def self_test():  # noqa: F811
    ok = _self_test_base7()
    t = ast.parse(POSITIVE_EXAMPLES['defaultdict_overwrites']).body[0]
    ok['defaultdict_overwrites'] = bool(defaultdict_overwrites(t)[0])
    return ok


PURE_UPDATES = {'reassign', 'subs', 'replace', 'remove_symbol_definitions', 'xreplace', 'update_source', 'set_initial_estimates',
                'unjoin', 'join'}


def dead_pure_updates(fnode):
    """[(def node, var, how)]: `v = v.reassign(...)` / `v = v.subs(...)` (a new value of an immutable object bound to the same
    local) after which some path leaves the function, or re-binds v, without ever reading v: the update is lost on that path"""
    from .cfg import CFG
    from .report import AnalysisError
    try:
        cfg = CFG(fnode)
    except AnalysisError:
        return []
    out = []

    def reads(n, v):
        a = n.ast
        if a is None or isinstance(a, (ast.FunctionDef, ast.AsyncFunctionDef, ast.ClassDef)):
            return False
        root = a.iter if n.kind == 'for' else a
        for x in ast.walk(root):
            if isinstance(x, ast.Name) and x.id == v and isinstance(x.ctx, ast.Load):
                return True
        return False

    def writes_only(n, v):
        a = n.ast
        if n.kind == 'stmt' and isinstance(a, ast.Assign) and any(isinstance(t, ast.Name) and t.id == v for t in a.targets):
            return not reads(n, v)
        return False
    for d in cfg.nodes.values():
        a = d.ast
        if not (d.kind == 'stmt' and isinstance(a, ast.Assign) and len(a.targets) == 1 and isinstance(a.targets[0], ast.Name)
                and isinstance(a.value, ast.Call) and isinstance(a.value.func, ast.Attribute)
                and a.value.func.attr in PURE_UPDATES and isinstance(a.value.func.value, ast.Name)
                and a.value.func.value.id == a.targets[0].id):
            continue
        v = a.targets[0].id
        # precise enough to arm: updates of the statement list / model under their usual names, or methods that only
        # exist on them; `expr = expr.subs(..)` in search loops is read by the loop test or not at all (harmless)
        if a.value.func.attr not in ('reassign', 'remove_symbol_definitions') and not (
                'statement' in v or v in ('sset', 'model', 'stats')):
            continue
        # nested functions that read v keep it alive (closures)
        if any(isinstance(x, (ast.FunctionDef, ast.Lambda)) and any(
                isinstance(y, ast.Name) and y.id == v for y in ast.walk(x)) for x in ast.walk(fnode) if x is not fnode):
            continue
        seen, stack = set(), [m for m in cfg.g.successors(d.id) if not (cfg.g[d.id][m]['labels'] <= {'exc'})]
        while stack:
            n = stack.pop()
            if n in seen:
                continue
            seen.add(n)
            node = cfg.nodes[n]
            if n == cfg.exit:
                out.append((d, v, 'the function returns'))
                break
            if n == cfg.raise_exit:
                continue
            if reads(node, v):
                continue
            if writes_only(node, v):
                out.append((d, v, f'`{node.text()[:50]}` re-binds it'))
                break
            if node.kind == 'return':
                out.append((d, v, f'`{node.text()[:40]}`'))
                break
            for m in cfg.g.successors(n):
                if cfg.g[n][m]['labels'] <= {'exc', 'fexc'}:
                    continue
                stack.append(m)
    return out


POSITIVE_EXAMPLES['dead_pure_updates'] = """
def f(model, statements):
    changed = False
    for x in model:
        statements = statements.reassign(x, 1)
    if not changed:
        return model
    return model.replace(statements=statements)
"""
_self_test_base_dpu = self_test


def self_test():  # noqa: F811
    ok = _self_test_base_dpu()
    t = ast.parse(POSITIVE_EXAMPLES['dead_pure_updates']).body[0]
    ok['dead_pure_updates'] = bool(dead_pure_updates(t))
    return ok


# ---------------------------------------------------------------- predicate that falls off its end
def _boolish(e):
    if isinstance(e, ast.Constant):
        return isinstance(e.value, bool)
    if isinstance(e, ast.Compare) or (isinstance(e, ast.UnaryOp) and isinstance(e.op, ast.Not)):
        return True
    if isinstance(e, ast.BoolOp):
        return all(_boolish(v) for v in e.values)
    if isinstance(e, ast.IfExp):
        return _boolish(e.body) and _boolish(e.orelse)
    return isinstance(e, ast.Call) and isinstance(e.func, ast.Name) and e.func.id in (
        'all', 'any', 'isinstance', 'bool', 'callable', 'hasattr', 'issubclass')


def is_predicate(fnode):
    """a function that answers yes/no: at least two returns, all with a value that is a truth value by construction
    (True/False, comparison, not, all/any/isinstance, and/or/conditional of those), at least one the literal True or False"""
    rets = [r for r in ast.walk(fnode) if isinstance(r, ast.Return) and _owner(fnode, r)]
    if len(rets) < 2 or any(r.value is None for r in rets):
        return False
    if any(isinstance(y, (ast.Yield, ast.YieldFrom)) for y in ast.walk(fnode)):
        return False
    return all(_boolish(r.value) for r in rets) and any(
        isinstance(r.value, ast.Constant) and isinstance(r.value.value, bool) for r in rets)


def _owner(fnode, node):
    # node belongs to fnode itself, not to a nested function / lambda / class
    stack = [(fnode, True)]
    while stack:
        n, top = stack.pop()
        for c in ast.iter_child_nodes(n):
            if c is node:
                return True
            if isinstance(c, (ast.FunctionDef, ast.AsyncFunctionDef, ast.Lambda, ast.ClassDef)):
                continue
            stack.append((c, False))
    return False


def predicate_falls_off(fnode):
    """[(cfg node)] last nodes of paths on which a predicate (is_predicate) reaches its end without a return: the caller
    gets None, i.e. "no", whatever the right answer on that path is"""
    if not is_predicate(fnode):
        return []
    from .cfg import CFG
    cfg = CFG(fnode)
    reach = cfg.reachable(cfg.entry)
    return [cfg.nodes[p] for p in cfg.g.predecessors(cfg.exit)
            if p in reach and cfg.nodes[p].kind != 'return' and not (cfg.nodes[p].cont or '').startswith(('ret', 'fret'))]


POSITIVE_EXAMPLES['predicate_falls_off'] = """
def contains(a, b, strict=False):
    if a.kind == b.kind:
        if not strict:
            return all(x in a.items for x in b.items)
        else:
            if not all(x in a.items for x in b.items):
                return False
            if a.extra or b.extra:
                return a.extra == b.extra
    else:
        return False
"""


# ---------------------------------------------------------------- attribute of self that nothing defines
def class_names(cnode):
    """(names a class body / its methods define on the class or on self, dynamic?)"""
    out, dyn = set(), False
    for s in cnode.body:
        if isinstance(s, (ast.FunctionDef, ast.AsyncFunctionDef, ast.ClassDef)):
            out.add(s.name)
        elif isinstance(s, ast.Assign):
            out |= {n.id for t in s.targets for n in ast.walk(t) if isinstance(n, ast.Name)}
        elif isinstance(s, ast.AnnAssign) and isinstance(s.target, ast.Name):
            out.add(s.target.id)
    for n in ast.walk(cnode):
        if isinstance(n, ast.Attribute):
            if n.attr == '__dict__':
                dyn = True
            if isinstance(n.ctx, (ast.Store, ast.Del)) and isinstance(n.value, ast.Name):
                out.add(n.attr)
        elif isinstance(n, ast.Call):
            fn = n.func
            nm = fn.attr if isinstance(fn, ast.Attribute) else fn.id if isinstance(fn, ast.Name) else ''
            if nm in ('__setattr__', 'setattr'):
                lit = [a.value for a in n.args if isinstance(a, ast.Constant) and isinstance(a.value, str)]
                if lit:
                    out.add(lit[0])
                else:
                    dyn = True
    if out & {'__getattr__', '__getattribute__', '__slots__'} - {'__slots__'}:
        dyn = True
    return out, dyn


def unknown_self_reads(mnode, known):
    """[Attribute] reads `self.x` in a method where x is not among `known` (dunder names aside)"""
    if not mnode.args.args or any(isinstance(d, ast.Name) and d.id == 'staticmethod' for d in mnode.decorator_list):
        return []
    me = mnode.args.args[0].arg
    rebinds = any(isinstance(n, ast.Name) and n.id == me and isinstance(n.ctx, ast.Store) for n in ast.walk(mnode))
    if rebinds:
        return []
    return [x for x in ast.walk(mnode) if isinstance(x, ast.Attribute) and isinstance(x.ctx, ast.Load)
            and isinstance(x.value, ast.Name) and x.value.id == me and x.attr not in known
            and not (x.attr.startswith('__') and x.attr.endswith('__'))]


POSITIVE_EXAMPLES['unknown_self_reads'] = """
class A:
    def __init__(self, key):
        self.key = key

    def _subset_covariates(self, other):
        return self.key == other.key

    def check(self, other):
        return self._subset_covariate(other)
"""
_self_test_base_pfo = self_test


def self_test():  # noqa: F811
    ok = _self_test_base_pfo()
    ok['predicate_falls_off'] = len(predicate_falls_off(ast.parse(POSITIVE_EXAMPLES['predicate_falls_off']).body[0])) == 1
    c = ast.parse(POSITIVE_EXAMPLES['unknown_self_reads']).body[0]
    known, dyn = class_names(c)
    hits = [x.attr for m in c.body for x in unknown_self_reads(m, known)]
    ok['unknown_self_reads'] = hits == ['_subset_covariate'] and not dyn
    return ok


# ---------------------------------------------------------------- membership test against a collection of iterator objects
LAZY = {'product', 'zip', 'map', 'filter', 'chain', 'permutations', 'combinations', 'combinations_with_replacement',
        'islice', 'starmap', 'zip_longest', 'accumulate', 'groupby', 'reversed', 'enumerate', 'iter'}


def membership_among_iterators(fnode):
    """[(append call, compare)]: `c.append(product(..))` (or c[k].append / c.add) and later `x in c` / `x in c[k]`: the
    collection holds one-shot iterator objects, which compare by identity - the test is False for every x that is not
    the very same object (`extend` / `update` was meant)"""
    holders = {}
    for c in ast.walk(fnode):
        if isinstance(c, ast.Call) and isinstance(c.func, ast.Attribute) and c.func.attr in ('append', 'add') \
                and len(c.args) == 1 and isinstance(c.args[0], ast.Call):
            g = c.args[0].func
            gname = g.id if isinstance(g, ast.Name) else g.attr if isinstance(g, ast.Attribute) else ''
            base = c.func.value
            while isinstance(base, ast.Subscript):
                base = base.value
            if gname in LAZY and isinstance(base, ast.Name):
                holders.setdefault(base.id, c)
    out = []
    if holders:
        for t in ast.walk(fnode):
            if isinstance(t, ast.Compare) and len(t.ops) == 1 and isinstance(t.ops[0], (ast.In, ast.NotIn)):
                base = t.comparators[0]
                while isinstance(base, ast.Subscript):
                    base = base.value
                if isinstance(base, ast.Name) and base.id in holders:
                    out.append((holders[base.id], t))
    return out


POSITIVE_EXAMPLES['membership_among_iterators'] = """
def subset(lhs_items, rhs_items):
    lhs, rhs = {}, {}
    for k, a, b in lhs_items:
        lhs.setdefault(k, []).append(1)
        lhs[k].append(product(a, b))
    for k, a, b in rhs_items:
        rhs.setdefault(k, [])
        rhs[k].append(product(a, b))
    return all(p in lhs[k] for k in rhs for p in rhs[k])
"""
_self_test_base_mai = self_test


def self_test():  # noqa: F811
    ok = _self_test_base_mai()
    ok['membership_among_iterators'] = len(membership_among_iterators(
        ast.parse(POSITIVE_EXAMPLES['membership_among_iterators']).body[0])) == 1
    return ok


# ---------------------------------------------------------------- stale compartment handle
REPLACING = {'set_dose', 'add_dose', 'remove_dose', 'set_lag_time', 'set_bioavailability', 'set_input'}


def stale_compartment_handles(fnode):
    """[(mutating node, use node, name)]: `cb.set_bioavailability(comp, f)` replaces the node `comp` of the builder's graph
    by a new Compartment (and returns it); a later `cb.<anything>(comp, ..)` with the same, not re-bound name hands the
    builder a compartment that is no longer in the graph (networkx relabels nothing, silently)"""
    if not any(isinstance(c, ast.Call) and isinstance(c.func, ast.Attribute) and c.func.attr in REPLACING
               for c in ast.walk(fnode)):
        return []
    from .cfg import CFG
    cfg = CFG(fnode)
    out = []

    def calls(nd):
        a = nd.ast
        if a is None or nd.kind not in ('stmt', 'return', 'test'):
            return []
        return [c for c in ast.walk(a) if isinstance(c, ast.Call) and isinstance(c.func, ast.Attribute)
                and isinstance(c.func.value, ast.Name)]

    def rebinds(nd, name):
        a = nd.ast
        if a is None:
            return False
        if nd.kind == 'for':
            return any(isinstance(x, ast.Name) and x.id == name for x in ast.walk(a.target))
        if isinstance(a, (ast.Assign, ast.AnnAssign, ast.AugAssign)):
            tg = a.targets if isinstance(a, ast.Assign) else [a.target]
            return any(isinstance(x, ast.Name) and x.id == name and isinstance(x.ctx, ast.Store) for t in tg for x in ast.walk(t))
        return any(isinstance(x, ast.NamedExpr) and isinstance(x.target, ast.Name) and x.target.id == name
                   for x in ast.walk(a) if isinstance(a, ast.AST))
    for nd in cfg.nodes.values():
        for c in calls(nd):
            if c.func.attr not in REPLACING or not c.args or not isinstance(c.args[0], ast.Name):
                continue
            builder, name = c.func.value.id, c.args[0].id
            if rebinds(nd, name):
                continue                       # comp = cb.set_x(comp, ..)
            seen, stack = set(), [m for m in cfg.g.successors(nd.id) if not (cfg.g[nd.id][m]['labels'] <= {'exc', 'fexc'})]
            while stack:
                m = stack.pop()
                if m in seen:
                    continue
                seen.add(m)
                mn = cfg.nodes[m]
                use = next((u for u in calls(mn) if u.func.value.id == builder and any(
                    isinstance(x, ast.Name) and x.id == name for x in u.args)), None)
                if use is not None:
                    out.append((nd, mn, name))
                    break
                if rebinds(mn, name):
                    continue
                for k in cfg.g.successors(m):
                    if not (cfg.g[m][k]['labels'] <= {'exc', 'fexc'}):
                        stack.append(k)
    return out


POSITIVE_EXAMPLES['stale_compartment_handles'] = """
def f(cb, name, bio, alag):
    comp = cb.find_compartment(name)
    cb.set_bioavailability(comp, bio)
    cb.set_lag_time(comp, alag)
"""
_self_test_base_sch = self_test


def self_test():  # noqa: F811
    ok = _self_test_base_sch()
    ok['stale_compartment_handles'] = len(stale_compartment_handles(
        ast.parse(POSITIVE_EXAMPLES['stale_compartment_handles']).body[0])) == 1
    return ok


# ---------------------------------------------------------------- traversal that gives up at the first visited node
def visited_breaks(fnode):
    """[(loop, break/return node, visited-set name)]: `for x in neighbours: if x in seen: break ... seen.add(x)`: meeting one
    node that was already visited abandons the remaining neighbours (continue was meant) - nodes behind them are never reached"""
    out = []
    for L in [x for x in ast.walk(fnode) if isinstance(x, ast.For) and isinstance(x.target, ast.Name)]:
        v = L.target.id
        added = {c.func.value.id for c in ast.walk(L) if isinstance(c, ast.Call) and isinstance(c.func, ast.Attribute)
                 and c.func.attr == 'add' and isinstance(c.func.value, ast.Name) and c.args
                 and isinstance(c.args[0], ast.Name) and c.args[0].id == v}
        if not added:
            continue
        for I in [s for s in L.body if isinstance(s, ast.If)]:
            t = I.test
            if isinstance(t, ast.Compare) and len(t.ops) == 1 and isinstance(t.ops[0], ast.In) and isinstance(t.left, ast.Name) \
                    and t.left.id == v and isinstance(t.comparators[0], ast.Name) and t.comparators[0].id in added:
                if I.body and isinstance(I.body[0], ast.Break):
                    out.append((L, I.body[0], t.comparators[0].id))
    return out


POSITIVE_EXAMPLES['visited_breaks'] = """
def reach(graph, start, targets):
    seen, stack = {start}, [start]
    while stack:
        for dep in graph.get(stack.pop(), ()):
            if dep in seen:
                break
            if dep in targets:
                return True
            seen.add(dep)
            stack.append(dep)
    return False
"""
_self_test_base_vb = self_test


def self_test():  # noqa: F811
    ok = _self_test_base_vb()
    ok['visited_breaks'] = len(visited_breaks(ast.parse(POSITIVE_EXAMPLES['visited_breaks']).body[0])) == 1
    return ok


def position_by_equality(fnode):
    """[(loop, call)]: `for x in reversed(S): ... S.index(x)` - the position of the element the scan is at is looked up by
    equality: when S holds two equal elements the first one's position is returned, not that of the element the scan reached.
    Only scans that run backwards (reversed(S), S[::-1]) are reported: there the first equal element is never the one reached."""
    out = []
    for L in [x for x in ast.walk(fnode) if isinstance(x, (ast.For, ast.comprehension)) and isinstance(x.target, ast.Name)]:
        it = L.iter
        back = None
        if isinstance(it, ast.Call) and isinstance(it.func, ast.Name) and it.func.id == 'reversed' and len(it.args) == 1:
            back = it.args[0]
        elif isinstance(it, ast.Subscript) and isinstance(it.slice, ast.Slice) and it.slice.lower is None and it.slice.upper is None \
                and isinstance(it.slice.step, ast.UnaryOp) and isinstance(it.slice.step.op, ast.USub):
            back = it.value
        if back is None:
            continue
        coll = ast.unparse(back)
        scope = L if isinstance(L, ast.For) else fnode
        for c in ast.walk(scope):
            if isinstance(c, ast.Call) and isinstance(c.func, ast.Attribute) and c.func.attr == 'index' and len(c.args) == 1 \
                    and isinstance(c.args[0], ast.Name) and c.args[0].id == L.target.id and ast.unparse(c.func.value) == coll:
                out.append((L, c))
    return out


POSITIVE_EXAMPLES['position_by_equality'] = """
def last(stats, symbol):
    for s in reversed(stats):
        if s.symbol == symbol:
            return stats.index(s), s
    return None, None
"""
_self_test_base_pe = self_test


def self_test():  # noqa: F811
    ok = _self_test_base_pe()
    ok['position_by_equality'] = len(position_by_equality(ast.parse(POSITIVE_EXAMPLES['position_by_equality']).body[0])) == 1
    return ok


def reads_reset_attribute(fnode):
    """[(reset stmt, read node, var, attr)]: `v = cb.set_<attr>(v, <constant>)` resets one attribute of a compartment to its
    neutral value and re-binds v to the new compartment; a later `v.<attr>` in the same block (before v is bound to something
    else) reads the neutral value, not the one the compartment had - a 'move the attribute' that was written in the wrong order
    transfers the constant."""
    out = []

    def const_like(e):
        return isinstance(e, ast.Constant) and isinstance(e.value, (int, float)) or (
            isinstance(e, ast.Call) and isinstance(e.func, ast.Attribute) and e.func.attr in ('integer', 'Integer', 'float')
            and len(e.args) == 1 and isinstance(e.args[0], ast.Constant))
    for holder in ast.walk(fnode):
        for fld in ('body', 'orelse', 'finalbody'):
            stmts = getattr(holder, fld, None)
            if not isinstance(stmts, list):
                continue
            for i, s in enumerate(stmts):
                if not (isinstance(s, ast.Assign) and len(s.targets) == 1 and isinstance(s.targets[0], ast.Name)
                        and isinstance(s.value, ast.Call) and isinstance(s.value.func, ast.Attribute)
                        and s.value.func.attr.startswith('set_') and len(s.value.args) == 2
                        and isinstance(s.value.args[0], ast.Name) and s.value.args[0].id == s.targets[0].id
                        and const_like(s.value.args[1])):
                    continue
                v, attr = s.targets[0].id, s.value.func.attr[len('set_'):]
                for t in stmts[i + 1:]:
                    hit = [a for a in ast.walk(t) if isinstance(a, ast.Attribute) and a.attr == attr
                           and isinstance(a.value, ast.Name) and a.value.id == v and isinstance(a.ctx, ast.Load)]
                    out.extend((s, a, v, attr) for a in hit)
                    rebound = [a for a in ast.walk(t) if isinstance(a, (ast.Assign, ast.AugAssign, ast.AnnAssign, ast.For))
                               and any(isinstance(n, ast.Name) and n.id == v
                                       for tg in (a.targets if isinstance(a, ast.Assign) else [a.target]) for n in ast.walk(tg))]
                    if any(not (isinstance(a, ast.Assign) and isinstance(a.value, ast.Call) and isinstance(a.value.func, ast.Attribute)
                                and a.value.func.attr.startswith('set_') and a.value.func.attr != 'set_' + attr
                                and a.value.args and isinstance(a.value.args[0], ast.Name) and a.value.args[0].id == v)
                           for a in rebound):
                        break
    return out


POSITIVE_EXAMPLES['reads_reset_attribute'] = """
def f(cb, dosing_comp, comp):
    dosing_comp = cb.set_bioavailability(dosing_comp, Expr.integer(1))
    comp = cb.set_bioavailability(comp, dosing_comp.bioavailability)
    return comp
"""
_self_test_base_rr = self_test


def self_test():  # noqa: F811
    ok = _self_test_base_rr()
    ok['reads_reset_attribute'] = len(reads_reset_attribute(ast.parse(POSITIVE_EXAMPLES['reads_reset_attribute']).body[0])) == 1
    return ok
