"""Iteration space of a small loop nest for a fixed size (finite evaluation of side-effect free loop headers).

    for row in range(n):
        for col in range(0, row + 1):        ->  [(0,0), (1,0), (1,1), (2,0), (2,1), (2,2)]   for n = 3
    for row, col in combinations_with_replacement(range(n), 2)   ->  [(0,0), (0,1), (0,2), (1,1), ...]

Only loop headers are evaluated, with integers and these pure builtins: range, enumerate, zip, reversed, len (of a range),
itertools.product / combinations / combinations_with_replacement / permutations, numpy tril_indices / triu_indices (as
index pair lists). Nothing of the analysed program runs. Raises Unknown for anything else."""
from __future__ import annotations

import ast
import itertools


class Unknown(Exception):
    pass


def _tril(n, k=0):
    return [(i, j) for i in range(n) for j in range(n) if j <= i + k]


def _triu(n, k=0):
    return [(i, j) for i in range(n) for j in range(n) if j >= i + k]


FUNCS = {
    'range': range, 'enumerate': lambda x, start=0: list(enumerate(x, start)), 'zip': lambda *a: list(zip(*a)),
    'reversed': lambda x: list(reversed(list(x))), 'len': lambda x: len(list(x)), 'list': list, 'tuple': tuple,
    'product': lambda *a, repeat=1: list(itertools.product(*a, repeat=repeat)),
    'combinations': lambda x, r: list(itertools.combinations(x, r)),
    'combinations_with_replacement': lambda x, r: list(itertools.combinations_with_replacement(x, r)),
    'permutations': lambda x, r=None: list(itertools.permutations(x, r)),
    'min': min, 'max': max, 'sorted': sorted,
}


def ev(e, env):
    if isinstance(e, ast.Constant) and isinstance(e.value, (int, bool)):
        return e.value
    if isinstance(e, ast.Name):
        if e.id in env:
            return env[e.id]
        raise Unknown(e.id)
    if isinstance(e, ast.UnaryOp) and isinstance(e.op, ast.USub):
        return -ev(e.operand, env)
    if isinstance(e, ast.BinOp):
        a, b = ev(e.left, env), ev(e.right, env)
        if isinstance(e.op, ast.Add):
            return a + b
        if isinstance(e.op, ast.Sub):
            return a - b
        if isinstance(e.op, ast.Mult):
            return a * b
        if isinstance(e.op, ast.FloorDiv):
            return a // b
        raise Unknown(ast.dump(e.op))
    if isinstance(e, (ast.Tuple, ast.List)):
        return [ev(x, env) for x in e.elts]
    if isinstance(e, ast.Call):
        name = e.func.attr if isinstance(e.func, ast.Attribute) else getattr(e.func, 'id', None)
        if name in ('tril_indices', 'triu_indices'):
            n = ev(e.args[0], env)
            k = ev(e.args[1], env) if len(e.args) > 1 else 0
            return _tril(n, k) if name == 'tril_indices' else _triu(n, k)
        if name in FUNCS:
            args = [ev(a, env) for a in e.args]
            kw = {k.arg: ev(k.value, env) for k in e.keywords}
            return FUNCS[name](*args, **kw)
        raise Unknown(name)
    if isinstance(e, (ast.ListComp, ast.GeneratorExp)):
        out = []

        def rec(gens, env_):
            if not gens:
                out.append(ev(e.elt, env_))
                return
            g = gens[0]
            for item in ev(g.iter, env_):
                env2 = dict(env_)
                bind(g.target, item, env2)
                if all(ev_bool(c, env2) for c in g.ifs):
                    rec(gens[1:], env2)
        rec(e.generators, env)
        return out
    raise Unknown(type(e).__name__)


def ev_bool(e, env):
    if isinstance(e, ast.Compare) and len(e.ops) == 1:
        a, b = ev(e.left, env), ev(e.comparators[0], env)
        import operator as op
        table = {ast.Lt: op.lt, ast.LtE: op.le, ast.Gt: op.gt, ast.GtE: op.ge, ast.Eq: op.eq, ast.NotEq: op.ne}
        if type(e.ops[0]) in table:
            return table[type(e.ops[0])](a, b)
    raise Unknown('condition')


def bind(target, value, env):
    if isinstance(target, ast.Name):
        env[target.id] = value
    elif isinstance(target, (ast.Tuple, ast.List)):
        vals = list(value)
        if len(vals) != len(target.elts):
            raise Unknown('unpack')
        for t, v in zip(target.elts, vals):
            bind(t, v, env)
    else:
        raise Unknown('target')


def iterations(loops, env):
    """environments of the innermost body, in execution order, for a nest of ast.For (outermost first)"""
    out = []

    def rec(ls, env_):
        if not ls:
            out.append(dict(env_))
            return
        for item in ev(ls[0].iter, env_):
            env2 = dict(env_)
            bind(ls[0].target, item, env2)
            rec(ls[1:], env2)
    rec(list(loops), dict(env))
    return out
