"""Iteration space of a small loop nest for a fixed size (finite evaluation of side-effect free loop headers).

    for row in range(n):
        for col in range(0, row + 1):        ->  [(0,0), (1,0), (1,1), (2,0), (2,1), (2,2)]   for n = 3
    for row, col in combinations_with_replacement(range(n), 2)   ->  [(0,0), (0,1), (0,2), (1,1), ...]

Only loop headers are evaluated, with integers and these pure builtins: range, enumerate, zip, reversed, len (of a range),
itertools.product / combinations / combinations_with_replacement / permutations, numpy tril_indices / triu_indices (as
index pair lists). Nothing of the analysed program runs. Raises Unknown for anything else."""
from __future__ import annotations

import ast
import itertools


class Unknown(Exception):
    pass


def _tril(n, k=0):
    return [(i, j) for i in range(n) for j in range(n) if j <= i + k]


def _triu(n, k=0):
    return [(i, j) for i in range(n) for j in range(n) if j >= i + k]


FUNCS = {
    'range': range, 'enumerate': lambda x, start=0: list(enumerate(x, start)), 'zip': lambda *a: list(zip(*a)),
    'reversed': lambda x: list(reversed(list(x))), 'len': lambda x: len(list(x)), 'list': list, 'tuple': tuple,
    'product': lambda *a, repeat=1: list(itertools.product(*a, repeat=repeat)),
    'combinations': lambda x, r: list(itertools.combinations(x, r)),
    'combinations_with_replacement': lambda x, r: list(itertools.combinations_with_replacement(x, r)),
    'permutations': lambda x, r=None: list(itertools.permutations(x, r)),
    'min': min, 'max': max, 'sorted': sorted,
}


def ev(e, env):
    if isinstance(e, ast.Constant) and isinstance(e.value, (int, bool)):
        return e.value
    if isinstance(e, ast.Name):
        if e.id in env:
            return env[e.id]
        raise Unknown(e.id)
    if isinstance(e, ast.UnaryOp) and isinstance(e.op, ast.USub):
        return -ev(e.operand, env)
    if isinstance(e, ast.BinOp):
        a, b = ev(e.left, env), ev(e.right, env)
        if isinstance(e.op, ast.Add):
            return a + b
        if isinstance(e.op, ast.Sub):
            return a - b
        if isinstance(e.op, ast.Mult):
            return a * b
        if isinstance(e.op, ast.FloorDiv):
            return a // b
        raise Unknown(ast.dump(e.op))
    if isinstance(e, (ast.Tuple, ast.List)):
        return [ev(x, env) for x in e.elts]
    if isinstance(e, ast.Call):
        name = e.func.attr if isinstance(e.func, ast.Attribute) else getattr(e.func, 'id', None)
        if name in ('tril_indices', 'triu_indices'):
            n = ev(e.args[0], env)
            k = ev(e.args[1], env) if len(e.args) > 1 else 0
            return _tril(n, k) if name == 'tril_indices' else _triu(n, k)
        if name in FUNCS:
            args = [ev(a, env) for a in e.args]
            kw = {k.arg: ev(k.value, env) for k in e.keywords}
            return FUNCS[name](*args, **kw)
        raise Unknown(name)
    if isinstance(e, (ast.ListComp, ast.GeneratorExp)):
        out = []

        def rec(gens, env_):
            if not gens:
                out.append(ev(e.elt, env_))
                return
            g = gens[0]
            for item in ev(g.iter, env_):
                env2 = dict(env_)
                bind(g.target, item, env2)
                if all(ev_bool(c, env2) for c in g.ifs):
                    rec(gens[1:], env2)
        rec(e.generators, env)
        return out
    raise Unknown(type(e).__name__)


def ev_bool(e, env):
    if isinstance(e, ast.Compare) and len(e.ops) == 1:
        a, b = ev(e.left, env), ev(e.comparators[0], env)
        import operator as op
        table = {ast.Lt: op.lt, ast.LtE: op.le, ast.Gt: op.gt, ast.GtE: op.ge, ast.Eq: op.eq, ast.NotEq: op.ne}
        if type(e.ops[0]) in table:
            return table[type(e.ops[0])](a, b)
    raise Unknown('condition')


def bind(target, value, env):
    if isinstance(target, ast.Name):
        env[target.id] = value
    elif isinstance(target, (ast.Tuple, ast.List)):
        vals = list(value)
        if len(vals) != len(target.elts):
            raise Unknown('unpack')
        for t, v in zip(target.elts, vals):
            bind(t, v, env)
    else:
        raise Unknown('target')


def iterations(loops, env):
    """environments of the innermost body, in execution order, for a nest of ast.For (outermost first)"""
    out = []

    def rec(ls, env_):
        if not ls:
            out.append(dict(env_))
            return
        for item in ev(ls[0].iter, env_):
            env2 = dict(env_)
            bind(ls[0].target, item, env2)
            rec(ls[1:], env2)
    rec(list(loops), dict(env))
    return out


def ev_x(e, env):
    """ev() extended with booleans, comparisons, membership, subscripts, list.index, any/all over generators, sets - still only
    over values placed in env by the rule (small integers / strings / lists). Expressions are looked up in env by their source
    text first, so a rule can bind `rhs.eval.modes` to a concrete list."""
    key = ast.unparse(e)
    if key in env:
        return env[key]
    if isinstance(e, ast.Constant):
        return e.value
    if isinstance(e, ast.UnaryOp) and isinstance(e.op, ast.Not):
        return not ev_x(e.operand, env)
    if isinstance(e, ast.BoolOp):
        if isinstance(e.op, ast.And):
            r = True
            for v in e.values:
                r = ev_x(v, env)
                if not r:
                    return r
            return r
        r = False
        for v in e.values:
            r = ev_x(v, env)
            if r:
                return r
        return r
    if isinstance(e, ast.Compare):
        import operator as op
        table = {ast.Lt: op.lt, ast.LtE: op.le, ast.Gt: op.gt, ast.GtE: op.ge, ast.Eq: op.eq, ast.NotEq: op.ne,
                 ast.In: lambda a, b: a in b, ast.NotIn: lambda a, b: a not in b, ast.Is: op.is_, ast.IsNot: op.is_not}
        left = ev_x(e.left, env)
        for o, c in zip(e.ops, e.comparators):
            right = ev_x(c, env)
            if type(o) not in table:
                raise Unknown('compare')
            if not table[type(o)](left, right):
                return False
            left = right
        return True
    if isinstance(e, ast.IfExp):
        return ev_x(e.body, env) if ev_x(e.test, env) else ev_x(e.orelse, env)
    if isinstance(e, ast.Dict) and all(k is not None for k in e.keys):
        return {ev_x(k, env): ev_x(v, env) for k, v in zip(e.keys, e.values)}
    if isinstance(e, ast.Set):
        return {ev_x(x, env) for x in e.elts}
    if isinstance(e, ast.Subscript):
        v = ev_x(e.value, env)
        if isinstance(e.slice, ast.Slice):
            lo = ev_x(e.slice.lower, env) if e.slice.lower is not None else None
            hi = ev_x(e.slice.upper, env) if e.slice.upper is not None else None
            return v[lo:hi]
        return v[ev_x(e.slice, env)]
    if isinstance(e, (ast.GeneratorExp, ast.ListComp, ast.SetComp)):
        out = []

        def rec(gens, env_):
            if not gens:
                out.append(ev_x(e.elt, env_))
                return
            g = gens[0]
            for item in ev_x(g.iter, env_):
                env2 = dict(env_)
                bind(g.target, item, env2)
                if all(ev_x(c, env2) for c in g.ifs):
                    rec(gens[1:], env2)
        rec(e.generators, env)
        return set(out) if isinstance(e, ast.SetComp) else out
    if isinstance(e, ast.Attribute):
        v = ev_x(e.value, env)
        if isinstance(v, dict) and e.attr in v:
            return v[e.attr]
        raise Unknown(f'attribute {e.attr}')
    if isinstance(e, ast.Call) and isinstance(e.func, ast.Attribute) and isinstance(e.func.value, ast.Name) \
            and e.func.value.id == 'operator' and len(e.args) == 2 and not e.keywords \
            and e.func.attr in ('lt', 'le', 'gt', 'ge', 'eq', 'ne', 'contains', 'is_', 'is_not'):
        # operator.lt(a, b) is a < b
        import operator as _op
        return getattr(_op, e.func.attr)(ev_x(e.args[0], env), ev_x(e.args[1], env))
    if isinstance(e, ast.Call) and isinstance(e.func, ast.Name) and callable(env.get(e.func.id)):
        return env[e.func.id](*[ev_x(a, env) for a in e.args])
    if isinstance(e, ast.Call):
        if isinstance(e.func, ast.Attribute) and e.func.attr in ('index', 'isdisjoint', 'issubset', 'intersection', 'count'):
            recv = ev_x(e.func.value, env)
            args = [ev_x(a, env) for a in e.args]
            if e.func.attr == 'index':
                return list(recv).index(*args)
            if e.func.attr == 'count':
                return list(recv).count(*args)
            return getattr(set(recv), e.func.attr)(*[set(a) for a in args])
        name = getattr(e.func, 'id', None)
        if name in ('any', 'all', 'set', 'len', 'max', 'min', 'sorted', 'list', 'tuple', 'bool', 'sum'):
            args = [ev_x(a, env) for a in e.args]
            kw = {k.arg: ev_x(k.value, env) for k in e.keywords}
            return {'any': any, 'all': all, 'set': set, 'len': len, 'max': max, 'min': min, 'sorted': sorted, 'list': list,
                    'tuple': tuple, 'bool': bool, 'sum': sum}[name](*args, **kw)
    if isinstance(e, (ast.Name, ast.BinOp, ast.Tuple, ast.List)) or (isinstance(e, ast.UnaryOp)):
        if isinstance(e, (ast.Tuple, ast.List)):
            return [ev_x(x, env) for x in e.elts]
        if isinstance(e, ast.BinOp):
            a, b = ev_x(e.left, env), ev_x(e.right, env)
            if isinstance(e.op, ast.Add):
                return a + b
            if isinstance(e.op, ast.Sub):
                return a - b
            if isinstance(e.op, ast.BitAnd):
                return set(a) & set(b)
            if isinstance(e.op, ast.BitOr):
                return set(a) | set(b)
        return ev(e, env)
    raise Unknown(type(e).__name__)


def run_tail(stmts, env):
    """value returned by a straight-line / if-structured statement list under env (assignments to plain names, if, return)"""
    env = dict(env)

    class Ret(Exception):
        pass

    def run(body):
        for s_ in body:
            if isinstance(s_, ast.Return):
                raise Ret(ev_x(s_.value, env) if s_.value is not None else None)
            if isinstance(s_, ast.Assign) and len(s_.targets) == 1 and isinstance(s_.targets[0], ast.Name):
                env[s_.targets[0].id] = ev_x(s_.value, env)
            elif isinstance(s_, ast.Assign) and len(s_.targets) == 1 and isinstance(s_.targets[0], ast.Tuple) \
                    and all(isinstance(t, ast.Name) for t in s_.targets[0].elts):
                vals = list(ev_x(s_.value, env))
                for t, v in zip(s_.targets[0].elts, vals):
                    env[t.id] = v
            elif isinstance(s_, ast.Assign) and len(s_.targets) == 1 and isinstance(s_.targets[0], ast.Subscript) \
                    and isinstance(s_.targets[0].value, ast.Name):
                env.setdefault(s_.targets[0].value.id, {})[ev_x(s_.targets[0].slice, env)] = ev_x(s_.value, env)
            elif isinstance(s_, ast.AugAssign) and isinstance(s_.target, ast.Name):
                cur, val = env[s_.target.id], ev_x(s_.value, env)
                if isinstance(s_.op, ast.Add):
                    env[s_.target.id] = cur + val
                elif isinstance(s_.op, ast.Sub):
                    env[s_.target.id] = cur - val
                else:
                    raise Unknown('augmented assignment')
            elif isinstance(s_, ast.For):
                for item in ev_x(s_.iter, env):
                    bind(s_.target, item, env)
                    run(s_.body)
            elif isinstance(s_, ast.If):
                run(s_.body if ev_x(s_.test, env) else s_.orelse)
            elif isinstance(s_, (ast.Expr, ast.Pass)):
                continue
            else:
                raise Unknown(type(s_).__name__)
    try:
        run(stmts)
    except Ret as r:
        return r.args[0]
    return env
