"""E3: may-alias / mutation analysis for "no API call mutates the DataFrame of a model it was given".

Abstract tags of a local value (i = index of a parameter of the current function):
  ('V', i)          the value IS parameter i
  ('D', i, a)       the value IS the object stored in attribute a ('dataset' |
                    'initial_individual_estimates') of parameter i
  ('C', i, a)       the value is another model object that carries parameter i's attribute-a object
                    (result of p.replace(...) without that keyword)
  ('CV', i, a)      the value is a model whose attribute a IS parameter i (p passed as dataset=...)
Everything else is FRESH (no tag).  Flow-sensitive over the CFG, joins are unions; interprocedural
summaries (mut / mut_attr / ret) are iterated to a fixpoint over the call graph.
"""
from __future__ import annotations

import ast
from collections import defaultdict, deque
from dataclasses import dataclass, field

from .cfg import CFG
from .srcmodel import Func, Repo, unparse, walk_no_nested, owner_class

ATTRS = {'dataset': 'dataset', '_dataset': 'dataset',
         'initial_individual_estimates': 'initial_individual_estimates',
         '_initial_individual_estimates': 'initial_individual_estimates',
         # plain dict kept in the NONMEM internals of a model and shared by every model derived from it
         'compartment_map': 'compartment_map', '_compartment_map': 'compartment_map'}
PASS_ATTRS = {'model', '_model', 'internals', '_internals'}   # model_entry.model / model.internals carry the same objects
ALWAYS_MUTATING = {'insert', 'pop', 'update', 'clear', 'popitem', 'setdefault', '__setitem__', '__delitem__',
                   'append_inplace', 'sort', 'extend', 'append', 'remove', 'put', 'itemset', 'fill', 'resize'}
# list-like mutators only count on D-tagged (DataFrame) values for pandas names:
PANDAS_ALWAYS = {'insert', 'pop', 'update', '__setitem__', '__delitem__'}
INDEXERS = {'loc', 'iloc', 'at', 'iat'}
NP_MUTATORS = {'place', 'put', 'copyto', 'putmask', 'fill_diagonal'}


@dataclass
class Summary:
    mut: set = field(default_factory=set)          # i: parameter i itself is mutated
    mut_attr: set = field(default_factory=set)     # (i, a): object in attribute a of parameter i is mutated
    ret: set = field(default_factory=set)          # tags of returned values

    def key(self):
        return (frozenset(self.mut), frozenset(self.mut_attr), frozenset(self.ret))


@dataclass
class Sink:
    func: Func
    node: object          # ast statement / call
    line: int
    text: str
    tag: tuple            # the tag that was hit
    via: str              # 'direct' or callee fq
    chain: list           # description of the alias chain


def attr_of(tags, a):
    out = set()
    for t in tags:
        if t[0] == 'V':
            out.add(('D', t[1], a))
        elif t[0] == 'C' and t[2] == a:
            out.add(('D', t[1], a))
        elif t[0] == 'CV' and t[2] == a:
            out.add(('V', t[1]))
    return out


def carry(tags):
    """tags of `x.replace(<no attr keyword>)` for model-ish x"""
    out = set()
    for t in tags:
        if t[0] == 'V':
            for a in ('dataset', 'initial_individual_estimates'):
                out.add(('C', t[1], a))
        elif t[0] in ('C', 'CV'):
            out.add(t)
    return out


class AliasAnalysis:
    def __init__(self, repo: Repo):
        self.repo = repo
        self.summ: dict[str, Summary] = defaultdict(Summary)
        self.sinks: dict[str, list[Sink]] = {}
        self.callers: dict[str, set] = defaultdict(set)   # callee fq -> caller fqs
        self.call_args: dict[str, list] = defaultdict(list)   # callee fq -> [(caller Func, {param idx: tags})]
        self.resolved = 0
        self.unresolved = 0
        self._cfgs = {}
        self._ptypes = {}

    # ------------------------------------------------------------------ driver
    def run(self, funcs=None):
        funcs = list(funcs if funcs is not None else self.repo.all_funcs())
        byfq = {f.fq: f for f in funcs}
        work = deque(funcs)
        inq = set(byfq)
        rounds = 0
        while work:
            f = work.popleft()
            inq.discard(f.fq)
            rounds += 1
            if rounds > 20 * len(funcs) + 1000:
                break
            old = self.summ[f.fq].key()
            self._analyse(f)
            if self.summ[f.fq].key() != old:
                for c in self.callers.get(f.fq, ()):
                    if c in byfq and c not in inq:
                        work.append(byfq[c])
                        inq.add(c)
        self.rounds = rounds

    def cfg(self, f):
        if f.fq not in self._cfgs:
            self._cfgs[f.fq] = CFG(f.node)
        return self._cfgs[f.fq]

    # ------------------------------------------------------------------ one function
    def _analyse(self, f: Func):
        cfg = self.cfg(f)
        params = f.all_params
        pidx = {p: i for i, p in enumerate(params)}
        if f.fq not in self._ptypes:
            self._ptypes[f.fq] = self.repo.param_types(f)
        ltypes = self._ptypes[f.fq]
        init = {p: frozenset({('V', i)}) for p, i in pidx.items()}
        summ = Summary()
        sinks = []
        call_args_local = []
        envs = {cfg.entry: init}
        work = deque([cfg.entry])
        visits = 0

        def tags(e, env):
            if e is None:
                return set()
            if isinstance(e, ast.Name):
                return set(env.get(e.id, ()))
            if isinstance(e, ast.Attribute):
                if e.attr in ATTRS:
                    return attr_of(tags(e.value, env), ATTRS[e.attr])
                if e.attr in PASS_ATTRS:
                    return tags(e.value, env)
                return set()
            if isinstance(e, ast.IfExp):
                return tags(e.body, env) | tags(e.orelse, env)
            if isinstance(e, ast.BoolOp):
                out = set()
                for v in e.values:
                    out |= tags(v, env)
                return out
            if isinstance(e, ast.NamedExpr):
                return tags(e.value, env)
            if isinstance(e, ast.Call):
                return call_result(e, env)
            if isinstance(e, ast.Starred):
                return tags(e.value, env)
            return set()

        def arg_map(call, callee: Func, has_recv):
            """param index of callee -> argument expression"""
            cp = callee.all_params
            m = {}
            off = 0
            if has_recv is not None:
                m[0] = has_recv
                off = 1
            elif callee.cls is not None and not callee.is_static() and cp and cp[0] in ('self', 'cls'):
                off = 1    # Class.method(...) via class / constructor: no receiver expression
            for k, a in enumerate(call.args):
                if isinstance(a, ast.Starred):
                    break
                if k + off < len(cp):
                    m[k + off] = a
            for kw in call.keywords:
                if kw.arg and kw.arg in cp:
                    m[cp.index(kw.arg)] = kw.value
            return m

        def resolve(call):
            r = self.repo.resolve_call(f, call, ltypes)
            if r is None:
                return None, None
            kind, obj = r
            recv = None
            if kind == 'func':
                if isinstance(call.func, ast.Attribute) and obj.cls is not None and not obj.is_static():
                    # bound call: receiver is call.func.value unless called through the class name
                    rv = call.func.value
                    rr = self.repo.resolve(f.module, unparse(rv)) if isinstance(rv, (ast.Name, ast.Attribute)) else None
                    if not (rr and rr[0] == 'class'):
                        recv = rv
                    if obj.is_classmethod():
                        recv = None
                return obj, recv
            if kind == 'class':
                init_ = self.repo.find_method(obj, '__init__')
                return init_, None
            return None, None

        def call_result(call, env):
            fn = call.func
            # model.replace(...)
            if isinstance(fn, ast.Attribute) and fn.attr == 'replace':
                base = tags(fn.value, env)
                modelish = {t for t in base if t[0] in ('V', 'C', 'CV')}
                if modelish:
                    out = set()
                    kws = {kw.arg: kw.value for kw in call.keywords if kw.arg}
                    given = {ATTRS[k] for k in kws if k in ATTRS}
                    for t in carry(modelish):
                        if t[2] not in given:
                            out.add(t)
                    for k, v in kws.items():
                        if k in ATTRS:
                            for t in tags(v, env):
                                if t[0] == 'D' and t[2] == ATTRS[k]:
                                    out.add(('C', t[1], ATTRS[k]))
                                elif t[0] == 'V':
                                    out.add(('CV', t[1], ATTRS[k]))
                    return out
            if isinstance(fn, ast.Attribute) and fn.attr in ('copy', 'deepcopy'):
                if any(k.arg == 'as_view' and not (isinstance(k.value, ast.Constant) and k.value.value is False)
                       for k in call.keywords):
                    return tags(fn.value, env)          # networkx g.copy(as_view=True) is a live view of g, not a copy
                return set()
            callee, recv = resolve(call)
            if callee is None:
                return set()
            s = self.summ[callee.fq]
            if not s.ret:
                return set()
            am = arg_map(call, callee, recv)
            out = set()
            for t in s.ret:
                j = t[1]
                at = tags(am.get(j), env) if j in am else set()
                if t[0] == 'V':
                    out |= at
                elif t[0] == 'D':
                    out |= attr_of(at, t[2])
                elif t[0] == 'C':
                    out |= {x for x in carry(at) if x[2] == t[2]}
                elif t[0] == 'CV':
                    for x in at:
                        if x[0] == 'V':
                            out.add(('CV', x[1], t[2]))
                        elif x[0] == 'D' and x[2] == t[2]:
                            out.add(('C', x[1], t[2]))
            return out

        def hit(tagset, node, text, via, how):
            for t in tagset:
                if t[0] == 'V':
                    summ.mut.add(t[1])
                elif t[0] == 'D':
                    summ.mut_attr.add((t[1], t[2]))
                    sinks.append(Sink(f, node, getattr(node, 'lineno', 0), text, t, via, how))
                elif t[0] in ('C', 'CV'):
                    pass    # a fresh model object: attribute stores on it are M2's business

        def base_of_target(t):
            """object mutated by a store to target t, or None"""
            if isinstance(t, ast.Subscript):
                v = t.value
                if isinstance(v, ast.Attribute) and v.attr in INDEXERS:
                    return v.value
                return v
            if isinstance(t, ast.Attribute):
                return t.value
            return None

        def do_calls(node_ast, env):
            for c in [x for x in [node_ast, *walk_no_nested(node_ast)] if isinstance(x, ast.Call)]:
                fn = c.func
                # inplace=True on a method call
                if isinstance(fn, ast.Attribute):
                    recv_tags = None
                    inplace = any(kw.arg == 'inplace' and isinstance(kw.value, ast.Constant) and kw.value.value is True
                                  for kw in c.keywords)
                    if inplace:
                        recv_tags = tags(fn.value, env)
                        hit(recv_tags, c, unparse(c), 'direct', f'{unparse(fn.value)}.{fn.attr}(..., inplace=True)')
                    elif fn.attr in ALWAYS_MUTATING:
                        recv_tags = tags(fn.value, env)
                        dt = {t for t in recv_tags if t[0] == 'D'} if fn.attr not in PANDAS_ALWAYS else \
                            {t for t in recv_tags if t[0] == 'D'}
                        vt = {t for t in recv_tags if t[0] == 'V'}
                        if fn.attr in PANDAS_ALWAYS:
                            hit(dt | vt, c, unparse(c), 'direct', f'mutating method .{fn.attr}()')
                        else:
                            hit(vt, c, unparse(c), 'direct', f'mutating method .{fn.attr}()')
                    # np.place(df, ...)
                    if isinstance(fn.value, ast.Name) and fn.value.id in ('np', 'numpy') and fn.attr in NP_MUTATORS \
                            and c.args:
                        hit(tags(c.args[0], env), c, unparse(c), 'direct', f'np.{fn.attr} writes its first argument')
                callee, recv = resolve(c)
                if callee is None:
                    self.unresolved += 1
                    continue
                self.resolved += 1
                self.callers[callee.fq].add(f.fq)
                s = self.summ[callee.fq]
                am = arg_map(c, callee, recv)
                site = {}
                for j, a in am.items():
                    at = tags(a, env)
                    if at:
                        site[j] = at
                if site:
                    call_args_local.append((callee.fq, site, c))
                for j in s.mut:
                    if j in am:
                        hit(tags(am[j], env), c, unparse(c), callee.fq,
                            f'argument `{unparse(am[j])}` is mutated by {callee.fq} (parameter {callee.all_params[j]})')
                for (j, a) in s.mut_attr:
                    if j in am:
                        hit(attr_of(tags(am[j], env), a), c, unparse(c), callee.fq,
                            f'.{a} of argument `{unparse(am[j])}` is mutated by {callee.fq}')

        def assign(target, valtags, env):
            if isinstance(target, ast.Name):
                env[target.id] = frozenset(valtags)
            elif isinstance(target, (ast.Tuple, ast.List)):
                for t in target.elts:
                    assign(t.value if isinstance(t, ast.Starred) else t, valtags, env)

        def transfer(node, env):
            env = dict(env)
            a = node.ast
            if a is None or node.kind in ('with_exit', 'join', 'dispatch', 'entry', 'exit', 'raise'):
                return env
            if node.kind == 'except':
                if a.name:
                    env[a.name] = frozenset()
                return env
            if node.kind == 'for':
                do_calls(a.iter, env)
                # `for d in (old, new): d[k] = v` - the loop variable IS each of the listed objects in turn
                if isinstance(a.iter, (ast.Tuple, ast.List, ast.Set)) and isinstance(a.target, ast.Name):
                    u = set()
                    for el in a.iter.elts:
                        u |= tags(el, env)
                    assign(a.target, u, env)
                else:
                    assign(a.target, set(), env)
                return env
            if node.kind == 'with_enter':
                do_calls(a, env)
                return env
            if isinstance(a, (ast.FunctionDef, ast.AsyncFunctionDef, ast.ClassDef)):
                return env
            do_calls(a, env)
            if isinstance(a, ast.Assign):
                for t in a.targets:
                    b = base_of_target(t)
                    if b is not None:
                        hit(tags(b, env), a, unparse(a).split('\n')[0], 'direct', f'store through `{unparse(t)}`')
                if isinstance(a.value, ast.Tuple) and len(a.targets) == 1 and isinstance(a.targets[0], ast.Tuple) \
                        and len(a.value.elts) == len(a.targets[0].elts):
                    vals = [tags(v, env) for v in a.value.elts]
                    for t, v in zip(a.targets[0].elts, vals):
                        assign(t, v, env)
                else:
                    vt = tags(a.value, env)
                    for t in a.targets:
                        assign(t, vt, env)
            elif isinstance(a, ast.AnnAssign):
                if a.value is not None:
                    b = base_of_target(a.target)
                    if b is not None:
                        hit(tags(b, env), a, unparse(a), 'direct', f'store through `{unparse(a.target)}`')
                    assign(a.target, tags(a.value, env), env)
            elif isinstance(a, ast.AugAssign):
                b = base_of_target(a.target)
                if b is not None:
                    hit(tags(b, env), a, unparse(a), 'direct', f'augmented store through `{unparse(a.target)}`')
                elif isinstance(a.target, ast.Name):
                    # df += 1 mutates a DataFrame in place
                    hit({t for t in env.get(a.target.id, ()) if t[0] == 'D'}, a, unparse(a), 'direct',
                        'in-place augmented assignment')
            elif isinstance(a, ast.Delete):
                for t in a.targets:
                    b = base_of_target(t)
                    if b is not None and isinstance(t, ast.Subscript):
                        hit(tags(b, env), a, unparse(a), 'direct', f'del `{unparse(t)}`')
            elif isinstance(a, ast.Return) and a.value is not None:
                if isinstance(a.value, ast.Tuple):
                    for v in a.value.elts:
                        summ.ret |= tags(v, env)
                else:
                    summ.ret |= tags(a.value, env)
            return env

        while work:
            n = work.popleft()
            visits += 1
            if visits > 50000:
                break
            env_out = transfer(cfg.nodes[n], envs[n])
            for m in cfg.g.successors(n):
                cur = envs.get(m)
                if cur is None:
                    envs[m] = dict(env_out)
                    work.append(m)
                else:
                    changed = False
                    for k, v in env_out.items():
                        if k not in cur:
                            cur[k] = v
                            changed = True
                        elif not (v <= cur[k]):
                            cur[k] = cur[k] | v
                            changed = True
                    if changed:
                        work.append(m)
        # generators: `yield x` is not a return alias (context managers hand out fresh objects here)
        self.summ[f.fq] = summ
        # de-duplicate sinks on (line, tag)
        seen = set()
        uniq = []
        for s in sinks:
            k = (id(s.node), s.tag)
            if k not in seen:
                seen.add(k)
                uniq.append(s)
        self.sinks[f.fq] = uniq
        # remember argument tags per callee for external-ness propagation
        for callee_fq in {c for c, _, _ in call_args_local}:
            self.call_args[callee_fq] = [x for x in self.call_args[callee_fq] if x[0].fq != f.fq]
        for callee_fq, site, c in call_args_local:
            self.call_args[callee_fq].append((f, site, c))

    # ------------------------------------------------------------------ external parameters (top-down)
    def external_params(self, is_public):
        """(fq, i) pairs: parameter i of function fq can be an object owned by an API caller"""
        ext = set()
        funcs = {f.fq: f for f in self.repo.all_funcs()}
        has_callers = {fq for fq, cs in self.callers.items() if cs}
        work = deque()
        for fq, f in funcs.items():
            if is_public(f) or fq not in has_callers:
                for i in range(len(f.all_params)):
                    ext.add((fq, i))
                    work.append((fq, i))
        # callee parameters receiving caller-external objects
        changed = True
        while changed:
            changed = False
            for callee_fq, sites in self.call_args.items():
                for caller, site, _c in sites:
                    for j, at in site.items():
                        if (callee_fq, j) in ext:
                            continue
                        if any((caller.fq, t[1]) in ext for t in at):
                            ext.add((callee_fq, j))
                            changed = True
        return ext
