"""E6: per-class field models: constructor fields, property->field map, fields consulted by a method,
to_dict/from_dict key sets."""
from __future__ import annotations

import ast

from .srcmodel import Class, Func, Repo, unparse, walk_no_nested


def self_name(f: Func) -> str | None:
    a = f.node.args
    ps = a.posonlyargs + a.args
    return ps[0].arg if ps and not f.is_static() else None


def init_fields(repo: Repo, c: Class) -> dict[str, ast.AST]:
    """field name -> value expression assigned in __init__ (own or inherited), `self.x = ...`"""
    out = {}
    for k in reversed(repo.mro(c)):
        f = k.methods.get('__init__')
        if not f:
            continue
        me = self_name(f)
        for n in walk_no_nested(f.node):
            if isinstance(n, ast.Assign):
                for t in n.targets:
                    for tt in (t.elts if isinstance(t, ast.Tuple) else [t]):
                        if isinstance(tt, ast.Attribute) and isinstance(tt.value, ast.Name) and tt.value.id == me:
                            out[tt.attr] = n.value
            elif isinstance(n, ast.AnnAssign) and isinstance(n.target, ast.Attribute) \
                    and isinstance(n.target.value, ast.Name) and n.target.value.id == me:
                out[n.target.attr] = n.value
    return out


def init_param_of_field(repo: Repo, c: Class) -> dict[str, str]:
    """field -> constructor parameter it is assigned from (direct `self._x = x`)"""
    out = {}
    for fld, v in init_fields(repo, c).items():
        if isinstance(v, ast.Name):
            out[fld] = v.id
    return out


def prop_field_map(repo: Repo, c: Class) -> dict[str, str]:
    """property name -> field when the property is `return self._f` (own or inherited)"""
    out = {}
    for k in reversed(repo.mro(c)):
        for name, f in k.methods.items():
            if not f.is_property():
                continue
            body = [s for s in f.node.body if not (isinstance(s, ast.Expr) and isinstance(s.value, ast.Constant))]
            if len(body) == 1 and isinstance(body[0], ast.Return) and isinstance(body[0].value, ast.Attribute) \
                    and isinstance(body[0].value.value, ast.Name) and body[0].value.value.id == self_name(f):
                out[name] = body[0].value.attr
    return out


def fields_of(repo: Repo, c: Class, node, who: str, fields=None, props=None, through_methods=True,
              _depth=0) -> set[str]:
    """fields of `who` (a local name bound to an instance of c) consulted inside `node`:
    who._f, who.prop (mapped), and fields consulted by who.method() / who.other_property (one level deep,
    through_methods).  Iteration over `who` / len(who) / who[i] counts as the '<seq>' pseudo-field
    resolved by the caller through seq_field()."""
    fields = init_fields(repo, c) if fields is None else fields
    props = prop_field_map(repo, c) if props is None else props
    out = set()
    for n in [node, *ast.walk(node)] if not isinstance(node, list) else [x for s in node for x in ast.walk(s)]:
        if isinstance(n, ast.Attribute) and isinstance(n.value, ast.Name) and n.value.id == who:
            if n.attr in fields:
                out.add(n.attr)
            elif n.attr in props:
                out.add(props[n.attr])
            elif through_methods and _depth < 3:
                m = repo.find_method(c, n.attr)
                if m is not None and m.node is not node:
                    me = self_name(m)
                    if me:
                        out |= fields_of(repo, c, m.node, me, fields, props, True, _depth + 1)
    return out


def uses_as_sequence(node, who: str) -> bool:
    """`who` is iterated / indexed / zipped / len()-ed as a whole inside node"""
    for n in ast.walk(node):
        if isinstance(n, (ast.For, ast.comprehension)) and isinstance(n.iter, ast.Name) and n.iter.id == who:
            return True
        if isinstance(n, ast.Call) and isinstance(n.func, ast.Name) and n.func.id in ('zip', 'len', 'tuple', 'list',
                                                                                      'iter', 'enumerate', 'hash'):
            if any(isinstance(a, ast.Name) and a.id == who for a in n.args):
                if n.func.id != 'hash':
                    return True
        if isinstance(n, ast.Subscript) and isinstance(n.value, ast.Name) and n.value.id == who:
            return True
    return False


def seq_field(repo: Repo, c: Class) -> set[str]:
    """fields behind the sequence protocol of the class (__iter__/__getitem__/__len__)"""
    out = set()
    for meth in ('__iter__', '__getitem__', '__len__'):
        m = repo.find_method(c, meth)
        if m is not None:
            me = self_name(m)
            out |= fields_of(repo, c, m.node, me, through_methods=False)
    return out


def method_fields(repo: Repo, c: Class, f: Func, who=None) -> set[str]:
    who = who or self_name(f)
    out = fields_of(repo, c, f.node, who)
    if uses_as_sequence(f.node, who):
        out |= seq_field(repo, c)
    return out


# ---------------------------------------------------------------------------- dict keys
def dict_literal_keys(d: ast.Dict) -> set[str] | None:
    keys = set()
    for k in d.keys:
        if isinstance(k, ast.Constant) and isinstance(k.value, str):
            keys.add(k.value)
        else:
            return None
    return keys


def written_keys(repo: Repo, c: Class, f: Func, _depth=0, var=None) -> tuple[set[str], bool]:
    """keys written into the dict returned by f (to_dict-like), or, with var given, into the dict
    parameter `var` of helper f.  Returns (keys, complete)."""
    keys = set()
    complete = True
    nodes = list(walk_no_nested(f.node))
    ret_vars = {var} if var else set()
    for n in nodes:
        if isinstance(n, ast.Return) and n.value is not None and var is None:
            v = n.value
            if isinstance(v, ast.Dict):
                k = dict_literal_keys(v)
                if k is None:
                    complete = False
                else:
                    keys |= k
            elif isinstance(v, ast.Name):
                ret_vars.add(v.id)
            elif isinstance(v, ast.Call) and _depth < 3:
                r = repo.resolve_call(f, v)
                if r and r[0] == 'func':
                    k2, c2 = written_keys(repo, c, r[1], _depth + 1)
                    keys |= k2
                    complete &= c2
                else:
                    complete = False
            else:
                complete = False
    for n in nodes:
        if isinstance(n, ast.Assign) and isinstance(n.targets[0], ast.Name) and n.targets[0].id in ret_vars:
            if isinstance(n.value, ast.Dict):
                k = dict_literal_keys(n.value)
                if k is None:
                    complete = False
                else:
                    keys |= k
            elif isinstance(n.value, ast.Call) and unparse(n.value.func) == 'dict' and not n.value.args:
                keys |= {kw.arg for kw in n.value.keywords if kw.arg}
            elif not (isinstance(n.value, ast.Call) and unparse(n.value.func) == 'dict'):
                complete = False
        if isinstance(n, ast.Assign) and isinstance(n.targets[0], ast.Subscript) \
                and isinstance(n.targets[0].value, ast.Name) and n.targets[0].value.id in ret_vars:
            if isinstance(n.targets[0].slice, ast.Constant):
                keys.add(n.targets[0].slice.value)
            else:
                complete = False
        if isinstance(n, ast.Call) and _depth < 3:
            pos = [i for i, a in enumerate(n.args) if isinstance(a, ast.Name) and a.id in ret_vars]
            if pos and not (isinstance(n.func, ast.Name) and n.func.id in ('dict', 'len', 'tuple', 'list')):
                r = repo.resolve_call(f, n)
                if r and r[0] == 'func' and r[1].fq != f.fq:
                    callee = r[1]
                    cps = callee.params
                    off = 1 if cps and cps[0] in ('self', 'cls') and not callee.is_static() and \
                        isinstance(n.func, ast.Attribute) else 0
                    if pos[0] + off < len(cps):
                        k2, _ = written_keys(repo, c, callee, _depth + 1, var=cps[pos[0] + off])
                        keys |= k2
        if isinstance(n, ast.Call) and isinstance(n.func, ast.Attribute) and n.func.attr == 'update' \
                and isinstance(n.func.value, ast.Name) and n.func.value.id in ret_vars:
            for a in n.args:
                if isinstance(a, ast.Dict):
                    keys |= dict_literal_keys(a) or set()
    return keys, complete


def inner_records(f: Func) -> list[tuple[str, set[str]]]:
    """dict literals bound to a local that is not returned itself (e.g. per-column records appended
    to a list): [(local name, keys)]"""
    rets = {n.value.id for n in walk_no_nested(f.node) if isinstance(n, ast.Return) and isinstance(n.value, ast.Name)}
    out = []
    for n in walk_no_nested(f.node):
        if isinstance(n, ast.Assign) and isinstance(n.value, ast.Dict) and isinstance(n.targets[0], ast.Name) \
                and n.targets[0].id not in rets:
            k = dict_literal_keys(n.value)
            if k:
                out.append((n.targets[0].id, k))
    return out


def read_keys(f: Func, dict_param: str | None = None) -> tuple[set[str], set[str], bool]:
    """(required keys, optional keys, uses **d) read from the dict parameter of from_dict-like f"""
    ps = f.params
    if dict_param is None:
        cand = [p for p in ps if p not in ('self', 'cls')]
        dict_param = cand[0] if cand else None
    req, opt = set(), set()
    star = False
    if dict_param is None:
        return req, opt, star
    aliases = {dict_param}
    for n in walk_no_nested(f.node):
        if isinstance(n, ast.Assign) and isinstance(n.value, ast.Name) and n.value.id in aliases \
                and isinstance(n.targets[0], ast.Name):
            aliases.add(n.targets[0].id)
    for n in walk_no_nested(f.node):
        if isinstance(n, ast.Subscript) and isinstance(n.value, ast.Name) and n.value.id in aliases \
                and isinstance(n.slice, ast.Constant) and isinstance(n.slice.value, str):
            if isinstance(n.ctx, ast.Load):
                req.add(n.slice.value)
        if isinstance(n, ast.Call) and isinstance(n.func, ast.Attribute) and n.func.attr in ('get', 'pop') \
                and isinstance(n.func.value, ast.Name) and n.func.value.id in aliases and n.args \
                and isinstance(n.args[0], ast.Constant):
            (opt if (len(n.args) > 1 or n.func.attr == 'get') else req).add(n.args[0].value)
        if isinstance(n, ast.Call):
            for kw in n.keywords:
                if kw.arg is None and isinstance(kw.value, ast.Name) and kw.value.id in aliases:
                    star = True
    return req, opt, star


def reconstruction_sites(repo: Repo, c: Class, method_names=('subs', 'replace')):
    """[(method Func, call node, missing parameter names, target description)]: calls inside c.<method> that build a new
    instance of c (`C(...)`, `cls(...)`, `self.__class__(...)`, `type(self)(...)`, `C.create(...)`) together with the
    constructor parameters they do not supply. A parameter with default None may be omitted (an absent optional part);
    `**attrs` counts with the keys of the dict literal bound to attrs (plus what update(kwargs) adds: unknown, so only the
    literal keys are known to be supplied in every call)."""
    import ast as _ast
    out = []

    def params_of(fn):
        a = fn.node.args
        names = [x.arg for x in a.posonlyargs + a.args]
        if names and names[0] in ('self', 'cls'):
            names = names[1:]
        pos_defaults = dict(zip(names[len(names) - len(a.defaults):], a.defaults)) if a.defaults else {}
        kwonly = [x.arg for x in a.kwonlyargs]
        kwd = {k: d for k, d in zip(kwonly, a.kw_defaults) if d is not None}
        required = []
        for n in names + kwonly:
            d = pos_defaults.get(n, kwd.get(n))
            if d is not None and isinstance(d, _ast.Constant) and d.value is None:
                continue
            required.append(n)
        return names, kwonly, required
    init = c.methods.get('__init__')
    create = c.methods.get('create')
    for mname in method_names:
        f = c.methods.get(mname)
        if f is None:
            continue
        dict_lits = {}
        for n in _ast.walk(f.node):
            if isinstance(n, _ast.Assign) and len(n.targets) == 1 and isinstance(n.targets[0], _ast.Name) \
                    and isinstance(n.value, _ast.Dict):
                dict_lits[n.targets[0].id] = {k.value for k in n.value.keys if isinstance(k, _ast.Constant)}
        for call in [x for x in _ast.walk(f.node) if isinstance(x, _ast.Call)]:
            fn = call.func
            target = None
            txt = _ast.unparse(fn)
            if txt in (c.name, 'cls', 'self.__class__', 'type(self)') and init is not None:
                target = init
            elif txt in (f'{c.name}.create', 'cls.create', 'self.__class__.create', 'type(self).create', 'self.create') \
                    and create is not None:
                target = create
            if target is None:
                continue
            names, kwonly, required = params_of(target)
            supplied = set(names[:len([a for a in call.args if not isinstance(a, _ast.Starred)])])
            if any(isinstance(a, _ast.Starred) for a in call.args):
                supplied |= set(names)
            for k in call.keywords:
                if k.arg is not None:
                    supplied.add(k.arg)
                elif isinstance(k.value, _ast.Name) and k.value.id in dict_lits:
                    supplied |= dict_lits[k.value.id]
                elif isinstance(k.value, _ast.Dict):
                    supplied |= {kk.value for kk in k.value.keys if isinstance(kk, _ast.Constant)}
                else:
                    supplied |= set(names) | set(kwonly)      # **unknown: cannot tell, assume complete
            missing = [p for p in required if p not in supplied]
            out.append((f, call, missing, f'{c.name}.{target.name}'))
    return out
