"""Static analysis engine for the pharmpy verification checks.

Nothing in this package imports or executes pharmpy: it reads /repo's sources
(ast, re._parser, lark grammar files) and decides structural rules on them.
"""
