"""C09 Model extensions implement documented formulas: X1 covariate effect templates == docstring formulas,
neutral at the reference covariate value."""
from __future__ import annotations

import ast
import re

import sympy

from sa import tables as T
from sa.report import AnalysisError
from sa.srcmodel import unparse, walk_no_nested, calls_in, dotted

CE = 'pharmpy.modeling.covariate_effect'
S = {n: sympy.Symbol(n) for n in ('theta', 'theta1', 'theta2', 'cov', 'median', 'mean', 'std')}


def latex_to_sympy(tex: str):
    t = tex.strip()
    t = re.sub(r'\\text\{([^}]*)\}', r'\1', t)
    for _ in range(5):
        t2 = re.sub(r'\\frac\{([^{}]*)\}\{([^{}]*)\}', r'((\1)/(\2))', t)
        if t2 == t:
            break
        t = t2
    t = t.replace('\\exp', 'exp').replace('\\log', 'log').replace('^', '**').replace('\\', '')
    loc = dict(S)
    loc.update({'exp': sympy.exp, 'log': sympy.log})
    return sympy.sympify(t, locals=loc)


def expr_to_sympy(node, env):
    if isinstance(node, ast.Call) and dotted(node.func) == 'Expr.exp':
        return sympy.exp(expr_to_sympy(node.args[0], env))
    if isinstance(node, ast.BinOp):
        a, b = expr_to_sympy(node.left, env), expr_to_sympy(node.right, env)
        return {ast.Add: a + b, ast.Sub: a - b, ast.Mult: a * b, ast.Div: a / b, ast.Pow: a ** b}[type(node.op)]
    return T.to_sympy(node, env)


def run(chk, repo, tier):
    chk.explanation = (
        'X1: the continuous covariate effect templates (linear, piecewise linear, exponential, power) and the two '
        'categorical value forms built by CovariateEffect equal the formulas in the add_covariate_effect docstring '
        '(parsed from the ``.. math::`` blocks and compared algebraically), and each continuous template is exactly 1 at '
        'cov = median (neutral element of the multiplicative effect). NOT decided: error models, IIV/IOV, allometry, '
        'transit/absorption time formulas (built from run-time model statements), removal of extensions.')
    X1 = chk.rule('X1', 'covariate effect templates == documented formulas; neutral at the reference value', floor=9)
    m = repo.module(CE)
    ace = m.functions.get('add_covariate_effect')
    cls = m.classes.get('CovariateEffect')
    if ace is None or cls is None:
        raise AnalysisError('add_covariate_effect / CovariateEffect not found')
    doc = ast.get_docstring(ace.node) or ''
    # documented formulas per effect keyword
    docs = {}
    cur = None
    lines = doc.split('\n')
    cond = None
    for i, ln in enumerate(lines):
        mk = re.search(r'\(\*(\w+)\*\)', ln)
        if mk and ln.strip().startswith('-'):
            cur = mk.group(1)
            cond = None
            continue
        mc = re.match(r'\s*-\s*(If .*|For each .*):\s*$', ln)
        if mc:
            cond = mc.group(1)
        mf = re.match(r'\s*\\text\{coveff\}\s*=\s*(.*)$', ln)
        if mf and cur:
            docs.setdefault(cur, []).append((cond, mf.group(1)))
    if len(docs) < 5:
        raise AnalysisError(f'X1: only {sorted(docs)} documented effects found in the docstring')
    # templates from code
    def template_exprs(meth):
        f = cls.methods.get(meth)
        if f is None:
            raise AnalysisError(f'CovariateEffect.{meth} not found')
        env = {}
        out = {}
        for n in walk_no_nested(f.node):
            if isinstance(n, ast.Assign) and isinstance(n.targets[0], ast.Name):
                if n.targets[0].id == 'expression' and not (isinstance(n.value, ast.Call) and dotted(n.value.func) == 'Expr.piecewise'):
                    out['expression'] = expr_to_sympy(n.value, env)
                elif n.targets[0].id == 'values' and isinstance(n.value, ast.List):
                    out['values'] = [expr_to_sympy(e, env) for e in n.value.elts]
                elif n.targets[0].id == 'conditions' and isinstance(n.value, ast.List):
                    out['conditions'] = [(dotted(e.func).split('.')[-1], [unparse(a) for a in e.args]) for e in n.value.elts
                                         if isinstance(e, ast.Call)]
                elif n.targets[0].id == 'expression':
                    out['piecewise'] = unparse(n.value)
        return out
    checks = [('lin', 'linear'), ('exp', 'exponential'), ('pow', 'power')]
    for key, meth in checks:
        te = template_exprs(meth).get('expression')
        if te is None or key not in docs:
            raise AnalysisError(f'X1: template/doc for {key} not found')
        want = latex_to_sympy(docs[key][0][1])
        chk.instance(X1, f'{key}: doc {want}; code {te}')
        if sympy.simplify(te - want) != 0:
            chk.violation(X1, m.rel, f'CovariateEffect.{meth}', f'{te}', f'the documented {key} effect is {want}',
                          line=cls.methods[meth].node.lineno,
                          witness=f'add_covariate_effect(model, "CL", "WGT", "{key}"): CL is multiplied by another function of '
                                  f'WGT than documented')
        neutral = sympy.simplify(te.subs(S['cov'], S['median']))
        chk.instance(X1, f'{key}: value at cov = median: {neutral}')
        if neutral != 1:
            chk.violation(X1, m.rel, f'CovariateEffect.{meth}', f'effect at cov=median: {neutral}',
                          'the effect is not neutral at the reference covariate value', line=cls.methods[meth].node.lineno,
                          witness='an individual with the median covariate value gets a changed typical parameter')
    # piecewise linear
    pw = template_exprs('piecewise_linear')
    if 'values' not in pw or 'conditions' not in pw or 'piece_lin' not in docs:
        raise AnalysisError('X1: piecewise linear template / doc not found')
    dpw = docs['piece_lin']
    relmap = {'le': '<=', 'lt': '<', 'gt': '>', 'ge': '>='}
    for i, (dcond, dform) in enumerate(dpw[:2]):
        want = latex_to_sympy(dform)
        got = pw['values'][i]
        crel, cargs = pw['conditions'][i]
        mrel = re.search(r'cov\s*(<=|>=|<|>)\s*median', dcond or '')
        chk.instance(X1, f'piece_lin part {i + 1}: doc `{dcond}` {want}; code {relmap.get(crel)} {got}')
        if sympy.simplify(got - want) != 0 or not mrel or relmap.get(crel) != mrel.group(1) \
                or cargs != ["Expr.symbol('cov')", "Expr.symbol('median')"]:
            chk.violation(X1, m.rel, 'CovariateEffect.piecewise_linear', f'part {i + 1}: {got} if cov {relmap.get(crel)} median',
                          f'documented: {want} if {dcond}', line=cls.methods['piecewise_linear'].node.lineno,
                          witness='piecewise linear effect uses the wrong slope parameter on one side of the median / is '
                                  'discontinuous at the median')
        if sympy.simplify(got.subs(S['cov'], S['median'])) != 1:
            chk.violation(X1, m.rel, 'CovariateEffect.piecewise_linear', f'part {i + 1} at median',
                          'not neutral at the median', witness='effect != 1 at the reference value')
    pairing = "(values[0], conditions[0]), (values[1], conditions[1])" in pw.get('piecewise', '')
    chk.instance(X1, f'piece_lin: value/condition pairing positional: {pairing}')
    if not pairing:
        chk.violation(X1, m.rel, 'CovariateEffect.piecewise_linear', pw.get('piecewise', ''),
                      'values and conditions are not paired as documented', witness='theta1 applies above the median')
    # categorical value forms
    cat = cls.methods.get('categorical')
    src = unparse(cat.node)
    forms = {'cat': "1 + Expr.symbol('theta')", 'cat2': "Expr.symbol('theta')"}
    for key, txt in forms.items():
        want = latex_to_sympy(docs[key][-1][1]) if key in docs else None
        got = expr_to_sympy(ast.parse(txt, mode='eval').body, {})
        present = f'values += [{txt}]' in src
        chk.instance(X1, f'{key}: additional category value doc {want}; code has `{txt}`: {present}')
        if want is None or not present or sympy.simplify(got - want) != 0:
            chk.violation(X1, m.rel, 'CovariateEffect.categorical', f'{key}: {txt}',
                          f'documented value for additional categories: {want}', line=cat.node.lineno,
                          witness='categorical covariate effect with another parameterisation than documented')
    base = "values = [1]" in src
    chk.instance(X1, f'categorical: most common category has effect 1: {base}')
    if not base:
        chk.violation(X1, m.rel, 'CovariateEffect.categorical', 'reference category value', 'the most common category must '
                      'have effect 1', line=cat.node.lineno, witness='the reference category changes the parameter')
    run_more(chk, repo)
    run_x5(chk, repo)
    run_x6_x7(chk, repo)
    run_x8(chk, repo)
    run_x9(chk, repo)
    run_x11(chk, repo)


# names that are fixed on purpose: later transformations look these statements up by name (read and confirmed)
FIXED_OK = {
    'W': 'weighted error / power-on-RUV convention: set_weighted_error_model and the TBS code find W by name',
    'IPRED': 'TBS error model defines IPRED by name (PsN convention)',
}
ERR = 'pharmpy.modeling.error'


def run_more(chk, repo):
    X2 = chk.rule('X2', 'error model setters/detectors forward the requested dependent variable to every callee that '
                        'takes one', floor=15)
    X3 = chk.rule('X3', 'statements inserted by the error model setters define fresh symbols (create_symbol) unless the '
                        'name is a listed convention', floor=4)
    em = repo.module(ERR)
    for f in em.functions.values():
        if 'dv' not in f.all_params:
            continue
        # names that carry the requested dv: the parameter and anything assigned from get_dv_symbol(model, dv)
        carriers = {'dv'}
        for n in walk_no_nested(f.node):
            if isinstance(n, ast.Assign) and isinstance(n.targets[0], ast.Name) and isinstance(n.value, ast.Call) \
                    and 'dv' in {x.id for x in ast.walk(n.value) if isinstance(x, ast.Name)}:
                carriers.add(n.targets[0].id)
        for c in calls_in(f.node):
            if not isinstance(c.func, ast.Name):
                continue
            tgt = repo.resolve(f.module, c.func.id)
            if not tgt or tgt[0] != 'func' or 'dv' not in tgt[1].all_params:
                continue
            g = tgt[1]
            idx = g.all_params.index('dv')
            arg = c.args[idx] if len(c.args) > idx else next((k.value for k in c.keywords if k.arg == 'dv'), None)
            ok = arg is not None and bool({x.id for x in ast.walk(arg) if isinstance(x, ast.Name)} & carriers)
            if arg is not None and isinstance(arg, ast.Constant):
                ok = True   # an explicit constant DV is a deliberate choice
            chk.instance(X2, f'{f.name} -> {unparse(c)[:60]}: dv forwarded: {ok}')
            if not ok:
                chk.violation(X2, em.rel, f.qualname, unparse(c),
                              f'`{g.name}` takes a dv but the requested dv is not passed: it answers for the first '
                              f'dependent variable', line=c.lineno,
                              witness='a model with two DVs where the first already has the error model: '
                                      'set_..._error_model(model, dv=2) returns the model unchanged')
    from sa import lints
    st = lints.self_test()
    if not all(st.values()):
        raise AnalysisError(f'lint self-test failed: {st}')
    X4 = chk.rule('X4', 'a statement position is not used after the statements were re-bound (inserted/removed) without being '
                        'looked up again', floor=5)
    for f in repo.all_funcs():
        if not f.module.name.startswith('pharmpy.modeling'):
            continue
        conts = {c.func.value.id for c in ast.walk(f.node) if isinstance(c, ast.Call) and isinstance(c.func, ast.Attribute)
                 and c.func.attr in lints.INDEX_METHODS and isinstance(c.func.value, ast.Name)}
        rebound = {t.id for n in ast.walk(f.node) if isinstance(n, ast.Assign) for t in n.targets if isinstance(t, ast.Name)}
        if not (conts & rebound):
            continue
        res = lints.stale_indices(f.node)
        chk.instance(X4, f'{f.qualname}: positions in {sorted(conts & rebound)} (re-bound in the function); stale uses: {len(res)}')
        for cont, iv, d, r, u in res:
            chk.violation(X4, f.module.rel, f.qualname, f'{d.text()[:50]} ... {r.text()[:50]} ... {u.text()[:50]}',
                          f'`{iv}` is a position in `{cont}` computed before `{cont}` was re-bound at line {r.line}; it is used '
                          f'on the new `{cont}` at line {u.line}', line=u.line,
                          witness="add_iiv(model, ['BIO', 'MAT'], ['re_log', 'exp']): the re_log template inserts a statement, "
                                  "the second parameter's position is off by one and the eta lands on the preceding statement")
    for f in em.functions.values():
        origin: dict[str, set] = {}

        def classify(v):
            if isinstance(v, ast.IfExp):
                return classify(v.body) | classify(v.orelse)
            if isinstance(v, ast.Call):
                fn = dotted(v.func) or ''
                if fn.split('.')[-1] in ('create_symbol', '_create_symbol'):
                    return {'fresh'}
                if fn in ('Expr.symbol', 'sympy.Symbol', 'Symbol') and v.args and isinstance(v.args[0], ast.Constant):
                    return {('fixed', v.args[0].value)}
            if isinstance(v, ast.Name):
                return origin.get(v.id, {'other'})
            return {'other'}
        for n in walk_no_nested(f.node):
            if isinstance(n, ast.Assign) and len(n.targets) == 1 and isinstance(n.targets[0], ast.Name):
                origin.setdefault(n.targets[0].id, set()).update(classify(n.value))
        for c in calls_in(f.node):
            fn = dotted(c.func) or ''
            if fn not in ('Assignment', 'Assignment.create') or not c.args:
                continue
            o = classify(c.args[0])
            fixed = sorted(x[1] for x in o if isinstance(x, tuple))
            chk.instance(X3, f'{f.name}: {unparse(c)[:50]} defines {sorted(map(str, o))}')
            for name in fixed:
                if name in FIXED_OK:
                    continue
                chk.violation(X3, em.rel, f.qualname, unparse(c)[:80],
                              f'the inserted statement defines the fixed name `{name}`; a second use in the same model '
                              f'(other DV) re-defines it and the earlier definition shadows or is shadowed', line=c.lineno,
                              witness='two DVs with different predictions, proportional error with zero protection set on '
                                      'dv=1 and then dv=2: the second epsilon is scaled by the first prediction')


def run_x5(chk, repo):
    from sa import lints
    X5 = chk.rule('X5', 'numbered symbols defined by the eta transformations depend on what the model already defines', floor=1)
    pm = repo.module('pharmpy.modeling.parameter_variability')
    f = pm.functions.get('_create_new_etas')
    if f is None:
        raise AnalysisError('_create_new_etas not found')
    deps = lints.dependence(f.node.body)
    params = set(f.all_params)
    n = 0
    from sa import reach
    from sa.cfg import CFG
    cfg = CFG(f.node)
    seen = set()
    for a0 in ast.walk(f.node):
        # dictionary stores whose value is the NEW symbol (upper-case stem + number); local temporaries resolved
        if not (isinstance(a0, ast.Assign) and isinstance(a0.targets[0], ast.Subscript)):
            continue
        nid = reach.node_of(cfg, a0)
        val = reach.expand_expr(cfg, nid, a0.value) if nid is not None else a0.value
        a = ast.Assign(targets=a0.targets, value=val, lineno=a0.lineno)
        if isinstance(a.value, ast.Call) \
                and (dotted(a.value.func) or '').endswith('Symbol') and a.value.args \
                and isinstance(a.value.args[0], ast.JoinedStr) and 'upper' in unparse(a.value.args[0]) \
                and unparse(a.value) not in seen:
            seen.add(unparse(a.value))
            n += 1
            names_ = {x.id for x in ast.walk(a.value.args[0]) if isinstance(x, ast.Name)}
            cl = lints.closure(deps, names_)
            ok = 'model' in cl and 'model' in params
            chk.instance(X5, f'_create_new_etas: `{unparse(a.value)[:60]}` depends on the model: {ok}')
            if not ok:
                chk.violation(X5, pm.rel, f.name, unparse(a)[:100],
                              'the new symbol is numbered from 1 in every call: a second transformation of another eta re-defines '
                              'the symbol of the first', line=a.lineno,
                              witness='transform_etas_boxcox(model, ["ETA_CL"]) then (.., ["ETA_VC"]): both use ETAB1, VC follows '
                                      'the transformation of ETA_CL')
    if n == 0:
        raise AnalysisError('X5: construction of the transformed eta symbols not found')
    # X10: the numbering continues after the symbols the model already has only if the model is searched for the SAME stem
    # (same case conversion) as the one the new symbols are built from
    X10 = chk.rule('X10', '_create_new_etas: the stem searched among the existing symbols is spelled like the stem of the symbols '
                          'it creates', floor=1)

    def stems(js):
        return [unparse(v.value) for v in js.values if isinstance(v, ast.FormattedValue)][:1]
    created = set()
    for a0 in ast.walk(f.node):
        if isinstance(a0, ast.Assign) and isinstance(a0.targets[0], ast.Subscript):
            nid0 = reach.node_of(cfg, a0)
            v0 = reach.expand_expr(cfg, nid0, a0.value) if nid0 is not None else a0.value
            if isinstance(v0, ast.Call) and (dotted(v0.func) or '').endswith('Symbol') and v0.args \
                    and isinstance(v0.args[0], ast.JoinedStr):
                created |= set(stems(v0.args[0]))
    searched = []
    for c0 in [c for c in ast.walk(f.node) if isinstance(c, ast.Call)]:
        d = dotted(c0.func) or ''
        if not (d.startswith('re.') or d.split('.')[-1] == 'create_symbol'):
            continue
        nidc = reach.node_containing(cfg, c0)
        c = reach.expand_expr(cfg, nidc, c0) if nidc is not None else c0
        if not isinstance(c, ast.Call):
            c = c0
        if d.startswith('re.') and c.args and isinstance(c.args[0], ast.JoinedStr):
            searched += [(c, s_) for s_ in stems(c.args[0])]
        elif d.split('.')[-1] == 'create_symbol' and len(c.args) >= 2:
            a1 = c.args[1]
            searched += [(c, s_) for s_ in (stems(a1) if isinstance(a1, ast.JoinedStr) else [unparse(a1)])]
    # a local that only holds the stem (`stem = eta_new.upper()`) counts as its value
    loc = {a_.targets[0].id: unparse(a_.value) for a_ in ast.walk(f.node) if isinstance(a_, ast.Assign)
           and len(a_.targets) == 1 and isinstance(a_.targets[0], ast.Name) and isinstance(a_.value, (ast.Call, ast.Attribute))
           and 'eta' in unparse(a_.value)}
    created = {loc.get(x, x) for x in created}
    if not created or not searched:
        raise AnalysisError(f'X10: created stems {sorted(created)} / searched stems {len(searched)} not recognised')
    for c, st in searched:
        st = loc.get(st, st)
        ok = st in created
        chk.instance(X10, f'_create_new_etas: searches for `{st}`, creates {sorted(created)}: {ok}')
        if not ok:
            chk.violation(X10, pm.rel, f.name, unparse(c)[:80],
                          f'the model is searched for symbols named `{st}`<n> but the new symbols are named {sorted(created)}<n>: '
                          f'nothing is ever found and the numbering restarts at 1', line=c.lineno,
                          witness='transform_etas_boxcox(model, ["ETA_1"]) then (.., ["ETA_2"]): ETAB1 is defined twice, the '
                                  'second parameter follows the first eta')


def run_x6_x7(chk, repo):
    """X6: the covariate statistics are computed the same way (per individual first); X7: remove_iiv drops a whole term of a
    sum only when the term is exactly exp(<something>)"""
    from sa.cfg import CFG
    from sa import guards as G_, reach
    X6 = chk.rule('X6', 'covariate statistics (mean, median, std): the default branch aggregates per individual first '
                        '(groupby on the subject) in every sibling', floor=3)
    cm = repo.module('pharmpy.modeling.covariate_effect')
    # the three statistics are found where they are stored (`statistics['mean'] = ...`); the value is either computed in
    # place or by a sibling helper (`_calculate_mean(...)`), whose default branch is then looked at
    def default_branch_groups(f):
        I = next((x for x in f.node.body if isinstance(x, ast.If) and 'baselines' in unparse(x.test)), None)
        tail = (I.orelse or f.node.body[f.node.body.index(I) + 1:]) if I is not None else f.node.body
        rets = [r.value for s_ in tail for r in ast.walk(s_) if isinstance(r, ast.Return) and r.value is not None]
        if not rets:
            raise AnalysisError(f'X6: default branch of {f.name} not found')
        cfg = CFG(f.node)
        node_id = reach.node_containing(cfg, rets[-1])
        e = reach.expand_expr(cfg, node_id, rets[-1]) if node_id is not None else rets[-1]
        return e
    sib = {}
    forms = {}
    for g in cm.functions.values():
        gcfg = None
        for a_ in walk_no_nested(g.node):
            if isinstance(a_, ast.Assign) and isinstance(a_.targets[0], ast.Subscript) \
                    and isinstance(a_.targets[0].slice, ast.Constant) and a_.targets[0].slice.value in ('mean', 'median', 'std'):
                stat = a_.targets[0].slice.value
                v = a_.value
                callee = cm.functions.get(dotted(v.func) or '') if isinstance(v, ast.Call) else None
                if callee is not None:
                    e = default_branch_groups(callee)
                    sib[stat] = callee
                else:
                    gcfg = gcfg or CFG(g.node)
                    at = reach.node_containing(gcfg, v)
                    e = reach.expand_expr(gcfg, at, v) if at is not None else v
                    sib[stat] = g
                forms[stat] = any(isinstance(c, ast.Call) and isinstance(c.func, ast.Attribute) and c.func.attr == 'groupby'
                                  for c in ast.walk(e))
                chk.instance(X6, f'{stat}: `{unparse(e)[:70]}` groups by individual: {forms[stat]}')
    if set(forms) != {'mean', 'median', 'std'}:
        raise AnalysisError(f'X6: the statistics mean / median / std were not all found (found {sorted(forms)})')
    if len(set(forms.values())) != 1 or not all(forms.values()):
        odd = [n for n, v in forms.items() if not v]
        chk.violation(X6, cm.rel, ', '.join(sib[o].name for o in odd) or '_calculate_*', f'per-individual aggregation: {forms}',
                      'the documented statistic is computed per individual first and then over the individuals; one sibling '
                      'pools all records, so individuals with more records weigh more', line=sib[odd[0]].node.lineno if odd else 1,
                      witness='a user effect string with the mean placeholder on data with different numbers of records per '
                              'individual: the effect is not neutral at the documented reference')
    X7 = chk.rule('X7', 'remove_iiv: a whole term of a sum is replaced by 0 only under a test that the term is exp(...) itself '
                        '(its func is exp), not that it merely contains an exp', floor=1)
    pm = repo.module('pharmpy.modeling.parameter_variability')
    f = pm.functions.get('remove_iiv')
    if f is None:
        raise AnalysisError('remove_iiv not found')
    cfg = CFG(f.node)
    n7 = 0
    # names that run over the terms of an expression: `for arg in expr.args`
    term_vars = {L.target.id for L in ast.walk(f.node) if isinstance(L, ast.For) and isinstance(L.target, ast.Name)
                 and unparse(L.iter).endswith('.args')}

    def is_term(key):
        return (isinstance(key, ast.Subscript) and 'args' in unparse(key)) or (isinstance(key, ast.Name) and key.id in term_vars)
    for nd in cfg.nodes.values():
        a = nd.ast
        if nd.kind != 'stmt' or not isinstance(a, ast.Assign):
            continue
        for c in [x for x in ast.walk(a.value) if isinstance(x, ast.Call) and isinstance(x.func, ast.Attribute)
                  and x.func.attr == 'subs' and x.args]:
            # the mapping may be chosen by a conditional expression: {term: 0} if <test> else {eta: 0}
            arg0 = c.args[0]
            cands = [(arg0, None)]
            if isinstance(arg0, ast.IfExp):
                cands = [(arg0.body, (arg0.test, 'true')), (arg0.orelse, (arg0.test, 'false'))]
            for d_, cond in cands:
                if not (isinstance(d_, ast.Dict) and len(d_.keys) == 1):
                    continue
                key, val = d_.keys[0], d_.values[0]
                if not (isinstance(val, ast.Constant) and val.value == 0 and key is not None and is_term(key)):
                    continue
                n7 += 1
                term = unparse(key)

                def is_exp(e, term=term):
                    if isinstance(e, ast.Compare) and len(e.ops) == 1 and isinstance(e.ops[0], (ast.Eq, ast.Is)) \
                            and unparse(e.left).startswith(term) and unparse(e.left).endswith('.func') \
                            and unparse(e.comparators[0]).endswith('exp'):
                        return True
                    return None
                ok = bool(G_.guarded(cfg, nd.id, is_exp))
                if not ok and cond is not None:
                    ok = G_.edge_label(cond[0], is_exp, G_.resolver(cfg, nd.id)) == cond[1]
                chk.instance(X7, f'remove_iiv: `{unparse(c)[:60]}` under a test `{term}.func == exp`: {ok}')
                if not ok:
                    chk.violation(X7, pm.rel, f.name, unparse(c)[:100],
                                  'a term that only contains an exponential (a product with exp(eta) after expansion) is dropped '
                                  'as a whole instead of setting the eta to zero', line=nd.line,
                                  witness='CL = (TVCL + THETA(4)*WGT)*EXP(ETA(1)); remove_iiv gives CL = 0')
    if n7 == 0:
        raise AnalysisError('X7: replacement of a whole term by 0 not found in remove_iiv')


def run_x8(chk, repo):
    """remove_iiv rewrites the statement that holds the eta and nothing else: Statements.reassign(symbol, ..) deletes every
    other assignment of the symbol, so inside a loop over the statements it drops later re-assignments (a covariate effect
    CL = CL*CLAPGR added after CL = TVCL*exp(ETA))"""
    X8 = chk.rule('X8', 'parameter_variability: inside a loop over the statements no `reassign(<loop statement>.symbol, ..)` '
                        '(it removes the other assignments of that symbol)', floor=1)
    pm = repo.module('pharmpy.modeling.parameter_variability')
    n = 0
    for f in pm.functions.values():
        for L in [x for x in walk_no_nested(f.node) if isinstance(x, ast.For)]:
            tv = {x.id for x in ast.walk(L.target) if isinstance(x, ast.Name)}
            over_statements = any(isinstance(x, ast.Name) and x.id in ('sset', 'statements', 'stats', 'sset_old')
                                  or isinstance(x, ast.Attribute) and x.attr == 'statements' for x in ast.walk(L.iter))
            if not over_statements:
                continue
            n += 1
            bad = [c for c in ast.walk(L) if isinstance(c, ast.Call) and isinstance(c.func, ast.Attribute)
                   and c.func.attr == 'reassign' and c.args and isinstance(c.args[0], ast.Attribute)
                   and c.args[0].attr == 'symbol' and isinstance(c.args[0].value, ast.Name) and c.args[0].value.id in tv]
            chk.instance(X8, f'{f.name}: loop over `{unparse(L.iter)[:40]}`: reassign of the loop statement\'s symbol: {len(bad)}')
            for c in bad:
                chk.violation(X8, pm.rel, f.name, unparse(c)[:100],
                              'reassign() keeps one assignment of the symbol and deletes all others: a re-assignment further down '
                              '(covariate effect, allometry) disappears together with the eta', line=c.lineno,
                              witness='add_covariate_effect(pheno, CL, APGR, exp) then remove_iiv(ETA_CL): CL = TVCL, the effect '
                                      'of APGR is gone (findings/C09_remove_iiv_keeps_covariate_effect_demo.py)')
    if n == 0:
        raise AnalysisError('X8: no loop over the statements found in parameter_variability.py')


def run_x9(chk, repo):
    """has_combined_error_model: with the two epsilons e1, e2 of Y and the two candidate quotients c1 = (Y - e1)/(e2 + 1),
    c2 = (Y - e2)/(e1 + 1), the model is combined iff one of the quotients is free of BOTH epsilons (finite truth table over
    which epsilons remain in c1 and c2)"""
    from sa import iterspace as IS
    from sa import reach
    from sa.cfg import CFG
    import itertools
    X9 = chk.rule('X9', 'has_combined_error_model: true iff one of the two quotients contains neither epsilon (16 cases)', floor=16)
    em = repo.module('pharmpy.modeling.error')
    f = em.functions.get('has_combined_error_model')
    if f is None:
        raise AnalysisError('has_combined_error_model not found')
    rets = [r for r in f.node.body if isinstance(r, ast.Return) and r.value is not None]
    if not rets:
        raise AnalysisError('X9: final return of has_combined_error_model not found')
    e = rets[-1].value
    # the two quotients: locals assigned an expression that divides by (<eps> + 1)
    quot = [a.targets[0].id for a in walk_no_nested(f.node) if isinstance(a, ast.Assign) and isinstance(a.targets[0], ast.Name)
            and any(isinstance(b, ast.BinOp) and isinstance(b.op, ast.Div) for b in ast.walk(a.value))]
    epsn = sorted({x.id for a in walk_no_nested(f.node) if isinstance(a, ast.Assign) and isinstance(a.targets[0], ast.Name)
                   and a.targets[0].id in quot for x in ast.walk(a.value) if isinstance(x, ast.Name) and x.id.startswith('eps')})
    setn = [a.targets[0].id for a in walk_no_nested(f.node) if isinstance(a, ast.Assign) and isinstance(a.targets[0], ast.Name)
            and isinstance(a.value, ast.SetComp)]
    if len(quot) != 2 or len(epsn) != 2:
        raise AnalysisError(f'X9: quotients / epsilons of has_combined_error_model not recognised ({quot}, {epsn})')
    subsets = [frozenset(s_) for r_ in range(3) for s_ in itertools.combinations(('E1', 'E2'), r_)]
    for s1, s2 in itertools.product(subsets, subsets):
        env = {epsn[0]: 'E1', epsn[1]: 'E2', f'{quot[0]}.free_symbols': set(s1), f'{quot[1]}.free_symbols': set(s2)}
        for nm in setn:
            env[nm] = {'E1', 'E2'}
        try:
            got = bool(IS.ev_x(e, env))
        except Exception as ex:
            raise AnalysisError(f'X9: return expression not evaluable: {type(ex).__name__} {ex}')
        want = not s1 or not s2
        chk.instance(X9, f'epsilons left in the quotients {sorted(s1)} / {sorted(s2)}: combined {got} (wanted {want})')
        if got != want:
            chk.violation(X9, em.rel, f.name, f'{unparse(e)[:70]}: {sorted(s1)} / {sorted(s2)} -> {got}',
                          'a model in which only one epsilon has the combined structure is reported as combined (or a combined '
                          'one is not recognised): set_combined_error_model returns it unchanged', line=rets[-1].lineno,
                          witness='Y = F + F**power*EPS_1 + EPS_2 (set_power_on_ruv on one epsilon), then '
                                  'set_combined_error_model: Y is left as it is')
            break


def run_x11(chk, repo):
    """X11: add_covariate_effect may merge the new effect statement with the parameter's previous effect statement. The merged
    statement must still be  <previous right-hand side> <new operation> <new effect>: the previous right-hand side enters as ONE
    operand (substituted for the parameter in the new statement). Taking it apart into its arguments and folding everything
    with the new operation replaces the operation of the earlier effects"""
    from sa import reach
    from sa.cfg import CFG
    X11 = chk.rule('X11', 'add_covariate_effect: the merged effect statement contains the previous right-hand side as a whole '
                          '(not its .args re-combined with the new operation)', floor=1)
    cm = repo.module('pharmpy.modeling.covariate_effect')
    f = cm.functions.get('add_covariate_effect')
    if f is None:
        raise AnalysisError('X11: add_covariate_effect not found')
    cfg = CFG(f.node)
    n = 0
    for nd in cfg.nodes.values():
        if nd.ast is None or nd.kind != 'stmt':
            continue
        # the statement that replaces the effect statement just appended: statements[-1] = Assignment.create(sym, expr)
        a = nd.ast
        # ... or re-binds the variable that holds it: effect_statement = Assignment.create(effect_statement.symbol, ..)
        if not (isinstance(a, ast.Assign) and isinstance(a.targets[0], (ast.Subscript, ast.Name)) and isinstance(a.value, ast.Call)
                and (dotted(a.value.func) or '').startswith('Assignment') and len(a.value.args) == 2):
            continue
        try:
            e = reach.expand_expr(cfg, nd.id, a.value.args[1], depth=3)
        except TypeError:
            e = reach.expand_expr(cfg, nd.id, a.value.args[1])
        n += 1
        whole, parts = [], []
        for x in ast.walk(e):
            if isinstance(x, ast.Attribute) and x.attr == 'args' and isinstance(x.value, ast.Attribute) \
                    and x.value.attr == 'expression':
                parts.append(x)
        part_bases = {id(x.value) for x in parts}
        for x in ast.walk(e):
            if isinstance(x, ast.Attribute) and x.attr == 'expression' and id(x) not in part_bases:
                whole.append(unparse(x))
        prev_whole = [w for w in whole if 'effect_statement' not in w and 'template' not in w]
        ok = bool(prev_whole) and not parts
        chk.instance(X11, f'merged statement `{unparse(e)[:70]}`: previous right-hand side kept whole: {ok}')
        if not ok:
            chk.violation(X11, cm.rel, f.qualname, unparse(a)[:100],
                          'the previous effects are taken apart (.expression.args) and re-combined with the operation of the new '
                          'effect: an earlier effect added with the other operation changes its meaning', line=a.lineno,
                          witness="add_covariate_effect(m, 'CL', 'WGT', 'exp', '*') then (.., 'AGE', 'lin', '+'): CL = CL + CLWGT + "
                                  "CLAGE instead of CL*CLWGT + CLAGE")
    if n == 0:
        raise AnalysisError('X11: the merged effect statement was not found in add_covariate_effect')
