"""C01 Reading a NONMEM model preserves its meaning: A1 PREDPP table, A2 numbering consistency,
A3 interpreter exhaustiveness and operator table, A4 Fortran precedence, A5 lexer/parser table cross-check."""
from __future__ import annotations

import ast
import json

import sympy

from sa import grammar as G
from sa import tables as T
from sa.report import AnalysisError, VERIF
from sa.srcmodel import unparse, walk_no_nested, calls_in, dotted

NM = 'pharmpy.model.external.nonmem'


def names(node):
    return {n.id for n in ast.walk(node) if isinstance(n, ast.Name)}


def extract_trans_tables(mod):
    """{func name: {TRANSk or None: [sympy exprs]}} from the _advanN_trans functions: each function is evaluated for every
    TRANS literal it compares its parameter with (and once for "anything else"): assignments to locals, if/elif/else on the
    parameter, tuples, tuple concatenation and Expr arithmetic - nothing else may occur"""
    out = {}
    for fname, f in mod.functions.items():
        if not (fname.startswith('_advan') and fname.endswith('_trans')):
            continue
        par = f.node.args.args[0].arg if f.node.args.args else 'trans'
        keys = sorted({c.value for n in ast.walk(f.node) if isinstance(n, ast.Compare) for c in n.comparators + [n.left]
                       if isinstance(c, ast.Constant) and isinstance(c.value, str)
                       and any(isinstance(x, ast.Name) and x.id == par for x in [n.left] + n.comparators)})
        # literals may also come as a tuple / set (`trans in ('TRANS1', 'TRANS2')`)
        keys = sorted(set(keys) | {e.value for n in ast.walk(f.node) if isinstance(n, ast.Compare)
                                   and isinstance(n.left, ast.Name) and n.left.id == par for c in n.comparators
                                   if isinstance(c, (ast.Tuple, ast.List, ast.Set)) for e in c.elts
                                   if isinstance(e, ast.Constant) and isinstance(e.value, str)})
        tbl = {}
        for key in keys + [None]:
            tbl[key] = _eval_trans(fname, f.node.body, {par: key if key is not None else '<any other>'})
        if len(tbl) < 2:
            raise AnalysisError(f'{fname}: no TRANS literal found')
        out[fname] = tbl
    return out


def _fold_fstrings(e, env):
    class F(ast.NodeTransformer):
        def visit_JoinedStr(self, j):
            parts = []
            for v in j.values:
                if isinstance(v, ast.Constant):
                    parts.append(str(v.value))
                elif isinstance(v, ast.FormattedValue) and v.format_spec is None and v.conversion == -1:
                    x = v.value
                    if isinstance(x, ast.Name) and isinstance(env.get(x.id), (int, str)):
                        parts.append(str(env[x.id]))
                    elif isinstance(x, ast.Constant):
                        parts.append(str(x.value))
                    else:
                        return j
                else:
                    return j
            return ast.Constant(value=''.join(parts))
    import copy
    return F().visit(copy.deepcopy(e))


_MISSING = object()


def _eval_trans(fname, stmts, env):
    def val(e):
        if isinstance(e, ast.Tuple):
            return [x for el in e.elts for x in ([val(el)] if not isinstance(el, ast.Starred) else val(el.value))]
        if isinstance(e, ast.BinOp) and isinstance(e.op, ast.Add):
            a, b = val(e.left), val(e.right)
            if isinstance(a, list) and isinstance(b, list):
                return a + b
        if isinstance(e, ast.Name) and isinstance(env.get(e.id), list):
            return env[e.id]
        if isinstance(e, (ast.GeneratorExp, ast.ListComp)) and len(e.generators) == 1 and not e.generators[0].ifs \
                and isinstance(e.generators[0].target, ast.Name) and isinstance(e.generators[0].iter, (ast.Tuple, ast.List)) \
                and all(isinstance(x, ast.Constant) for x in e.generators[0].iter.elts):
            # (Expr.symbol(name) for name in ('ALPHA', 'BETA')): one element per listed constant
            out_ = []
            for c_ in e.generators[0].iter.elts:
                saved = env.get(e.generators[0].target.id, _MISSING)
                env[e.generators[0].target.id] = c_.value
                try:
                    out_.append(val(e.elt))
                finally:
                    if saved is _MISSING:
                        env.pop(e.generators[0].target.id, None)
                    else:
                        env[e.generators[0].target.id] = saved
            return out_
        if isinstance(e, ast.Call) and dotted(e.func) in ('tuple', 'list') and len(e.args) == 1:
            return val(e.args[0])
        if isinstance(e, ast.Call) and dotted(e.func) in ('Expr.symbol', 'sympy.Symbol') and e.args \
                and isinstance(e.args[0], ast.Name) and isinstance(env.get(e.args[0].id), str):
            import sympy as _sp
            return _sp.Symbol(env[e.args[0].id])
        if isinstance(e, ast.Constant) and isinstance(e.value, (int, str)) and not isinstance(e.value, bool):
            return e.value if isinstance(e.value, str) else T.to_sympy(e, env)
        senv = {k: v for k, v in env.items() if not isinstance(v, (list, str))}
        return T.to_sympy(_fold_fstrings(e, env), senv)

    def run(block):
        for s in block:
            if isinstance(s, ast.Expr) and isinstance(s.value, ast.Constant):
                continue
            if isinstance(s, ast.Return):
                v = val(s.value)
                return v if isinstance(v, list) else [v]
            if isinstance(s, ast.Assign) and len(s.targets) == 1 and isinstance(s.targets[0], ast.Name):
                if isinstance(s.value, ast.Constant) and isinstance(s.value.value, int):
                    env[s.targets[0].id] = s.value.value
                else:
                    env[s.targets[0].id] = val(s.value)
                continue
            if isinstance(s, ast.Assign) and len(s.targets) == 1 and isinstance(s.targets[0], ast.Tuple) \
                    and all(isinstance(t, ast.Name) for t in s.targets[0].elts):
                vs = val(s.value)
                if not isinstance(vs, list) or len(vs) != len(s.targets[0].elts):
                    raise AnalysisError(f'{fname}: cannot unpack {unparse(s)[:60]}')
                for t, v in zip(s.targets[0].elts, vs):
                    env[t.id] = v
                continue
            if isinstance(s, ast.If):
                try:
                    t = T.eval_pred(s.test, {k: v for k, v in env.items() if isinstance(v, (str, int))})
                except T.Undecidable as e:
                    raise AnalysisError(f'{fname}: cannot decide `{unparse(s.test)[:60]}`: {e}')
                r = run(s.body if t else s.orelse)
                if r is not None:
                    return r
                continue
            if isinstance(s, ast.For) and isinstance(s.iter, (ast.Tuple, ast.List)) and len(s.iter.elts) == 1:
                r = run([x for x in s.body if not isinstance(x, ast.Break)])     # the once-loop of an inlined helper
                if r is not None:
                    return r
                continue
            raise AnalysisError(f'{fname}: unsupported statement {unparse(s)[:60]}')
        return None
    r = run(stmts)
    if r is None:
        raise AnalysisError(f'{fname}: no return reached for {env}')
    return r


def extract_advan_branches(mod):
    """per ADVAN literal: compartments (var->name, numbers used), flows (src, dst, expr node), comp_map, link"""
    f = mod.functions.get('_compartmental_model')
    if f is None:
        raise AnalysisError('_compartmental_model not found')
    chain = T.if_chain(f.node, 'advan')
    out = {}
    for key, body in chain.items():
        if not isinstance(key, str):
            continue
        comps = {}      # var -> dict(name, dose_no, alag_no, bio_no, line)
        flows = []
        comp_map = None
        link = None
        unpack = {}     # var -> (trans func, index)
        add_order = []
        env = {}
        for s in body:
            for n in ast.walk(s):
                if isinstance(n, ast.Assign) and isinstance(n.value, ast.Call):
                    fn = dotted(n.value.func)
                    if fn == 'Compartment.create' and isinstance(n.targets[0], ast.Name):
                        c = n.value
                        d = {'name': c.args[0].value if c.args and isinstance(c.args[0], ast.Constant) else None,
                             'line': n.lineno}
                        for kw in c.keywords:
                            for sub in ast.walk(kw.value):
                                if isinstance(sub, ast.Call):
                                    sfn = dotted(sub.func)
                                    num = None
                                    for a in list(sub.args) + [k.value for k in sub.keywords]:
                                        if isinstance(a, ast.Constant) and isinstance(a.value, int):
                                            num = a.value
                                    if sfn == 'find_dose':
                                        d['dose_no'] = num
                                    elif sfn == '_get_alag':
                                        d['alag_no'] = num
                                    elif sfn == '_get_bioavailability':
                                        d['bio_no'] = num
                        comps[n.targets[0].id] = d
                    elif fn and fn.startswith('_advan') and fn.endswith('_trans'):
                        tg = n.targets[0]
                        vars_ = [e.id for e in tg.elts] if isinstance(tg, ast.Tuple) else [tg.id]
                        for i, v in enumerate(vars_):
                            unpack[v] = (fn, i)
                    elif fn == '_f_link_assignment':
                        link = (unparse(n.value.args[4]), n.value.args[5].value if isinstance(n.value.args[5], ast.Constant) else None)
                    elif fn == 'Expr.symbol' and isinstance(n.targets[0], ast.Name):
                        env[n.targets[0].id] = n.value
                if isinstance(n, ast.Assign) and isinstance(n.targets[0], ast.Name) and n.targets[0].id == 'comp_map' \
                        and isinstance(n.value, ast.Dict):
                    comp_map = {k.value: v.value for k, v in zip(n.value.keys, n.value.values)}
                if isinstance(n, ast.Call) and isinstance(n.func, ast.Attribute):
                    if n.func.attr == 'add_flow' and len(n.args) == 3:
                        flows.append((unparse(n.args[0]), unparse(n.args[1]), n.args[2], n.lineno))
                    elif n.func.attr == 'add_compartment' and n.args:
                        add_order.append(unparse(n.args[0]))
        out[key] = dict(comps=comps, flows=flows, comp_map=comp_map, link=link, unpack=unpack, add_order=add_order,
                        env=env, line=body[0].lineno)
    return out


def run(chk, repo, tier):
    chk.explanation = (
        'A1: for every fixed-topology ADVAN (1,2,3,4,10,11,12) and TRANS the flows extracted from the reader (branch of '
        '_compartmental_model + _advanN_trans tuple + unpacking order) equal the PREDPP definitions in '
        'specs/predpp.json as rational functions, and every rate is closed over the basic PK parameters of that TRANS. '
        'A2: inside each branch the compartment numbers used for doses, ALAGn, Fn and the Sn link equal the branch\'s own '
        'comp_map and the creation order. A3: every expression rule of the code grammar has an interpreter handler, and '
        'token -> rule -> handler callable equals the NM-TRAN operator/function table in specs/nmtran_ops.json. A4: the '
        'precedence chain and associativity of the expression grammar equal Fortran\'s. NOT decided: numeric equality of '
        'eval(read(C)) with NM-TRAN for arbitrary programs, $DES -> compartment recovery, OMEGA SD/CORR/CHOLESKY '
        'arithmetic, IF/ELSE -> Piecewise construction.')
    A1 = chk.rule('A1', 'PREDPP table: extracted flows == reference micro-constants; rates closed over the TRANS '
                        'parameters', floor=60)
    A2 = chk.rule('A2', 'branch-internal compartment numbering consistent with comp_map and creation order', floor=25)
    A3 = chk.rule('A3', 'expression grammar rules have handlers; token -> handler callable == NM-TRAN table', floor=70)
    A4 = chk.rule('A4', 'operator precedence chain and associativity == Fortran', floor=9)
    A5 = chk.rule('A5', 'LALR-accepted token sentences of the remaining record grammars are accepted when spelled out '
                        '(lexer/parser table cross-check; theta/omega are checked under C04)', floor=300)
    A6 = chk.rule('A6', 'no read of a CompartmentalSystem copy after its builder was mutated (stale snapshot) in the '
                        '$DES -> compartment recovery', floor=1)
    from sa import snapshot
    snapshot.run_rule(chk, A6, repo, only={'pharmpy.model.statements.to_compartmental_system'})
    A7 = chk.rule('A7', '$OMEGA block: correlation-to-covariance form agrees with the SD flag and precedes the squaring of '
                        'the diagonal; CHOLESKY is L L^T of the row-wise lower triangle', floor=5)
    A8 = chk.rule('A8', 'block IF: fall-through is decided per symbol from the recorded branches; branches that do not '
                        'assign the symbol are accounted for', floor=2)
    from rules import C01b
    C01b.run_a7(chk, A7, repo)
    C01b.run_a8(chk, A8, repo)
    A9 = chk.rule('A9', 'reader: a branch guarded by the existence of a PK symbol uses that symbol (Sn, ALAGn, Fn, SC)', floor=4)
    C01b.run_a9(chk, A9, repo)
    C01b.run_a8_truth(chk, A8, repo)
    A10 = chk.rule('A10', 'record parsing: lists combined element-wise come from the same accumulation level', floor=1)
    C01b.run_a10(chk, A10, repo)
    A11 = chk.rule('A11', 'protected functions (PLOG, PEXP, PSQRT, PDZ, PZR, PNP, PHE, PNG): guard, protected value and '
                          'regular value == NM-TRAN definitions (specs/protected_funcs.json)', floor=9)
    C01b.run_a11(chk, A11, repo)
    A12 = chk.rule('A12', 'BLOCK(n) parameters are placed row by row into the lower triangle (iteration space of the filling '
                          'loop for n = 3)', floor=1)
    C01b.run_a12(chk, A12, repo)
    A13 = chk.rule('A13', '$MODEL defaults: DEFDOSE, else DEPOT, else first dosable; DEFOBS, else CENTRAL, else first '
                          '(preference chain evaluated with every candidate present)', floor=4)
    C01b.run_a13(chk, A13, repo)
    A14 = chk.rule('A14', 'modelled rate / duration symbols Rn, Dn are built from the integer compartment number', floor=2)
    C01b.run_a14(chk, A14, repo)
    C01b.run_a15_a16(chk, repo)
    A17 = chk.rule('A17', 'ADVAN5/7: no guard of _find_rates skips a legal K<i><j> (output addressed as 0 or n+1)', floor=1)
    C01b.run_a17(chk, A17, repo)
    C01b.run_theta_sentinels(chk, repo, 'A18')
    C01b.run_a19(chk, repo)
    from rules.C04 import run_a5
    run_a5(chk, A5, ['abbreviated_record.lark', 'code_record.lark', 'data_record.lark', 'option_record.lark',
                     'simulation_record.lark'])

    am = repo.module(f'{NM}.advan')
    spec = json.loads((VERIF / 'specs/predpp.json').read_text())
    trans_tables = extract_trans_tables(am)
    branches = extract_advan_branches(am)
    arel = am.rel

    # ---------------------------------------------------------------- A1
    for advan, sp in spec.items():
        if advan.startswith('_'):
            continue
        br = branches.get(advan)
        if br is None:
            chk.violation(A1, arel, '_compartmental_model', f'no branch for {advan}', f'{advan} is not read',
                          witness=f'$SUBROUTINES {advan}: the model has no ODE system')
            continue
        var2name = {v: d['name'] for v, d in br['comps'].items()}
        var2name['output'] = 'OUTPUT'
        for trans, tsp in sp.items():
            if not trans.startswith('TRANS'):
                continue
            params = {sympy.Symbol(p) for p in tsp['params']}
            defs = {sympy.Symbol(k): sympy.sympify(v, locals={k2: sympy.Symbol(k2) for k2 in ['Q', 'GAMMA', 'BETA', 'ALPHA']})
                    for k, v in tsp.get('defs', {}).items()}

            def close(e, defs=defs):
                for _ in range(6):
                    e2 = e.subs(defs)
                    if e2 == e:
                        break
                    e = e2
                return e
            ref = {k: close(sympy.sympify(v, locals={s: sympy.Symbol(s) for s in
                                                    ['Q', 'GAMMA', 'BETA', 'ALPHA', 'S', 'N', 'E', 'I']}))
                   for k, v in tsp['flows'].items()}
            got = {}
            for src, dst, node, line in br['flows']:
                key = f'{var2name.get(src, src)}>{var2name.get(dst, dst)}'
                if isinstance(node, ast.Name) and node.id in br['unpack']:
                    fn, idx = br['unpack'][node.id]
                    tbl = trans_tables.get(fn, {})
                    row = tbl.get(trans, tbl.get(None))
                    if row is None or idx >= len(row):
                        raise AnalysisError(f'{advan} {trans}: cannot resolve {node.id} from {fn}')
                    got[key] = (row[idx], line)
                elif isinstance(node, ast.Call) and (dotted(node.func) or '').endswith('_trans'):
                    tbl = trans_tables.get(dotted(node.func), {})
                    row = tbl.get(trans, tbl.get(None))
                    got[key] = (row[0], line)
                else:
                    env = dict(br['env'])
                    env['__compname__'] = var2name
                    got[key] = (T.to_sympy(node, env), line)
            for key, rexpr in ref.items():
                chk.instance(A1, f'{advan} {trans} {key}: {got.get(key, ("missing",))[0]}')
                if key not in got:
                    chk.violation(A1, arel, '_compartmental_model', f'{advan} {trans}: flow {key} missing',
                                  'the reader does not create this PREDPP flow', line=br['line'],
                                  witness=f'$SUBROUTINES {advan} {trans}: dA/dt of the read model lacks the term')
                    continue
                gexpr, line = got[key]
                # reference definitions of derived symbols that the code leaves free
                ref_defs = {sympy.Symbol(k.replace('>', '_')): v for k, v in ref.items()}
                # close the extracted rate with the *reference* values of the classic micro-constant names
                micro = _micro_names(advan, ref)
                gclosed = gexpr
                for _ in range(6):
                    g2 = gclosed.subs({s: v for s, v in micro.items() if s not in params})
                    if g2 == gclosed:
                        break
                    gclosed = g2
                if not T.equal(gclosed, rexpr):
                    chk.violation(A1, arel, '_compartmental_model', f'{advan} {trans} {key} = {gexpr}',
                                  f'PREDPP defines this rate as {tsp["flows"][key]}', line=line,
                                  witness=f'$SUBROUTINES {advan} {trans} with distinct parameter values: the amounts of '
                                          f'the read model differ from NONMEM\'s')
                free = gexpr.free_symbols - params - {sympy.Symbol(f'A_{n}') for n in sp['compartments']}
                chk.instance(A1, f'{advan} {trans} {key}: closed over {sorted(map(str, params))}: {not free}')
                if free:
                    chk.violation(A1, arel, '_compartmental_model',
                                  f'{advan} {trans} {key} mentions {sorted(map(str, free))}',
                                  f'the rate uses derived micro-constants {sorted(map(str, free))} that are not PK '
                                  f'parameters of {trans} and that nothing defines in the model', line=line,
                                  witness=f'read $SUBROUTINES {advan} {trans} defining only {tsp["params"]}: the ODE system '
                                          f'mentions {sorted(map(str, free))}, which no statement defines; evaluating or '
                                          f'converting the model fails or silently uses an undefined symbol')
            for key in set(got) - set(ref):
                chk.violation(A1, arel, '_compartmental_model', f'{advan} {trans}: extra flow {key}',
                              'the reader creates a flow PREDPP does not have', line=got[key][1],
                              witness='amounts differ from NONMEM')

    # ---------------------------------------------------------------- A2
    for advan, br in branches.items():
        cm = br['comp_map']
        if cm is None:
            continue     # ADVAN5/7: numbers come from $MODEL
        order = [k for k, _ in sorted(cm.items(), key=lambda kv: kv[1]) if k != 'OUTPUT']
        created = [br['comps'][v]['name'] for v in br['add_order'] if v in br['comps']]
        chk.instance(A2, f'{advan}: add_compartment order {created} vs comp_map {order}')
        if created != order:
            chk.violation(A2, arel, '_compartmental_model', f'{advan}: order {created} vs {order}',
                          'compartments are created in another order than their NONMEM numbers', line=br['line'],
                          witness='A(n), Sn, Fn and CMT values refer to another compartment than in NONMEM')
        if sorted(cm.values()) != list(range(1, len(cm) + 1)) or cm.get('OUTPUT') != len(cm):
            chk.violation(A2, arel, '_compartmental_model', f'{advan}: comp_map {cm}',
                          'compartment numbers are not 1..n with the output compartment last', line=br['line'],
                          witness='CMT=n+1 (output) observations are attributed to a wrong compartment')
        for var, d in br['comps'].items():
            n = cm.get(d['name'])
            for what in ('dose_no', 'alag_no', 'bio_no'):
                if what in d:
                    chk.instance(A2, f'{advan}: {d["name"]} {what}={d[what]} (number {n})')
                    if d[what] != n:
                        chk.violation(A2, arel, '_compartmental_model', f'{advan}: {d["name"]} {what}={d[what]}',
                                      f'{d["name"]} is compartment {n} in NONMEM but '
                                      f'{ {"dose_no": "doses", "alag_no": "ALAGn", "bio_no": "Fn"}[what] } are looked up '
                                      f'for compartment {d[what]}', line=d['line'],
                                      witness=f'a model defining ALAG{n}/F{n}/doses into compartment {n}: the lag time, '
                                              f'bioavailability or dose ends up on another compartment')
        if br['link']:
            var, no = br['link']
            nm = br['comps'].get(var, {}).get('name')
            chk.instance(A2, f'{advan}: F link {nm} with S{no}')
            if nm is None or cm.get(nm) != no:
                chk.violation(A2, arel, '_compartmental_model', f'{advan}: _f_link_assignment({var}, {no})',
                              f'the prediction F uses compartment {nm} scaled by S{no}, but {nm} is number {cm.get(nm)}',
                              line=br['line'], witness=f'a model defining S{cm.get(nm)}: F is not divided by it')
            spobs = spec.get(advan, {}).get('obs')
            if spobs and nm != spobs:
                chk.violation(A2, arel, '_compartmental_model', f'{advan}: observation compartment {nm}',
                              f'PREDPP\'s default observation compartment of {advan} is {spobs}', line=br['line'],
                              witness='F is the amount of the wrong compartment')
        spdose = spec.get(advan, {}).get('dose')
        if spdose:
            first_dosed = [d['name'] for d in br['comps'].values() if d.get('dose_no') == 1]
            chk.instance(A2, f'{advan}: default dose compartment {first_dosed}')
            if first_dosed != [spdose]:
                chk.violation(A2, arel, '_compartmental_model', f'{advan}: default dose compartment {first_dosed}',
                              f'PREDPP\'s default dose compartment of {advan} is {spdose}', line=br['line'],
                              witness='doses without CMT go to the wrong compartment')

    # ---------------------------------------------------------------- A3 / A4
    ops = json.loads((VERIF / 'specs/nmtran_ops.json').read_text())
    gdir = G.nonmem_grammar_dir()
    L = G.load_file(gdir / 'code_record.lark', start='root', keep_all_tokens=True, propagate_positions=True)
    tbl = G.rule_table(L)
    tdefs = G.terminal_defs(L)
    crm = repo.module(f'{NM}.records.code_record')
    ei = crm.classes.get('ExpressionInterpreter')
    if ei is None:
        raise AnalysisError('ExpressionInterpreter not found')
    # rules reachable below real_expr / bool_expr
    reach, stack = set(), ['real_expr', 'bool_expr']
    while stack:
        cur = stack.pop()
        for exp in tbl.get(cur, []):
            for s in exp:
                if s in tbl and s not in reach:
                    reach.add(s)
                    stack.append(s)
    aliases = {r.alias for r in L.rules if r.alias}
    named = {r for r in reach if not r.startswith('_') and not r.startswith('__')}
    opts = {G._name(r.origin): r.options for r in L.rules}
    named = {r for r in named if not getattr(opts.get(r), 'expand1', False)} | aliases
    handlers = {}

    def attr_handler(r):
        # a handler given as a class attribute: `rule = lambda self, _: V` or `rule = factory(V)` where factory(value) returns
        # a function that returns `value`; -> the expression V the handler returns, or None
        for st in ei.node.body:
            if isinstance(st, ast.Assign) and any(isinstance(t, ast.Name) and t.id == r for t in st.targets):
                v = st.value
                if isinstance(v, ast.Lambda):
                    return v.body
                if isinstance(v, ast.Call) and isinstance(v.func, ast.Name) and len(v.args) == 1 and not v.keywords:
                    g = crm.functions.get(v.func.id)
                    if g is not None and len(g.params) == 1:
                        inner = [x for x in g.node.body if isinstance(x, ast.FunctionDef)]
                        outer_ret = [x.value for x in g.node.body if isinstance(x, ast.Return)]
                        if len(inner) == 1 and len(outer_ret) == 1 and isinstance(outer_ret[0], ast.Name) \
                                and outer_ret[0].id == inner[0].name:
                            irets = [x.value for x in walk_no_nested(inner[0]) if isinstance(x, ast.Return)]
                            if len(irets) == 1 and isinstance(irets[0], ast.Name) and irets[0].id == g.params[0]:
                                return v.args[0]
        return None
    for r in sorted(named):
        m = repo.find_method(ei, r)
        av = attr_handler(r) if m is None else None
        chk.instance(A3, f'rule {r}: handler {"yes" if m or av is not None else "NO"}')
        if av is not None:
            if isinstance(av, (ast.Name, ast.Attribute)):
                handlers[r] = unparse(av)
            continue
        if m is None:
            chk.violation(A3, crm.rel, 'ExpressionInterpreter', f'no handler for rule `{r}`',
                          'the interpreter falls back to visiting children and returns a list instead of a value',
                          witness=f'abbreviated code using the `{r}` form is read into a wrong expression without error')
            continue
        rets = [n.value for n in walk_no_nested(m.node) if isinstance(n, ast.Return) and n.value is not None]
        if len(rets) == 1 and isinstance(rets[0], (ast.Name, ast.Attribute)):
            handlers[r] = unparse(rets[0])

    def resolve_callable(txt):
        if '.' in txt:
            return txt
        r = repo.resolve(crm, txt)
        if r and r[0] == 'ext':
            return r[1]
        return txt
    # token literals of each operator/function rule
    rule_tokens = {}
    for r in named:
        toks = set()
        for exp in tbl.get(r, []):
            if len(exp) == 1 and exp[0] in tdefs:
                alts = G.literal_alternatives(L, exp[0])
                if alts:
                    toks |= alts
                else:
                    # terminals with a look-ahead (PHI): take the leading literal
                    rx = tdefs[exp[0]].pattern.to_regexp()
                    import re as _re
                    m_ = _re.match(r'\(\?:\(\?i:([A-Za-z0-9]+)\)', rx) or _re.match(r'\(\?i:([A-Za-z0-9]+)\)', rx)
                    if m_:
                        toks.add(m_.group(1).upper())
        if toks:
            rule_tokens[r] = toks
    unary_rules = {'pos_op', 'neg_op'}
    for r, toks in sorted(rule_tokens.items()):
        if r not in handlers:
            continue
        got = resolve_callable(handlers[r])
        for tok in sorted(toks):
            meaning = (ops['unary'] if r in unary_rules else ops['tokens']).get(tok)
            want = ops['callables'].get(meaning) if meaning else None
            chk.instance(A3, f'token {tok} -> rule {r} -> {got} (NM-TRAN: {meaning})')
            if meaning is None:
                chk.violation(A3, 'src/pharmpy/model/external/nonmem/records/grammars/code_record.lark', r,
                              f'token {tok}', 'the grammar accepts a function/operator NM-TRAN does not have',
                              witness='a typo is read as a function call')
            elif got != want:
                chk.violation(A3, crm.rel, f'ExpressionInterpreter.{r}', f'{tok} -> {got}',
                              f'NM-TRAN {tok} means {meaning} ({want})',
                              line=getattr(getattr(repo.find_method(ei, r), 'node', None), 'lineno', ei.node.lineno),
                              witness=f'an expression using {tok}: the read model computes another function')
    for tok, meaning in ops['tokens'].items():
        if not any(tok in t for t in rule_tokens.values()):
            chk.violation(A3, 'src/pharmpy/model/external/nonmem/records/grammars/code_record.lark', 'expression rules',
                          f'token {tok} not accepted', f'NM-TRAN {tok} ({meaning}) is not in the grammar',
                          witness=f'a control stream using {tok} cannot be read')
    # infix / unary plumbing
    for meth, want in (('instruction_infix', 'op(a, b)'), ('instruction_unary', 'f(x)')):
        m = ei.methods.get(meth)
        rets = [unparse(n.value) for n in walk_no_nested(m.node) if isinstance(n, ast.Return)] if m else []
        unp = [unparse(n.targets[0]) for n in walk_no_nested(m.node) if isinstance(n, ast.Assign)] if m else []
        okm = rets == [want] and unp in (['(a, op, b)'], ['(f, x)'])
        chk.instance(A3, f'{meth}: {unp} -> {rets}')
        if not okm:
            chk.violation(A3, crm.rel, f'ExpressionInterpreter.{meth}', f'{unp} -> {rets}',
                          'operands are not applied in source order', line=m.node.lineno if m else None,
                          witness='A - B is read as B - A')

    # ---------------------------------------------------------------- A4
    chain = ['or_expr', 'and_expr', 'not_expr', 'eq_expr', 'rel_expr', 'add_expr', 'mul_expr', 'sign_expr', 'pow_expr']
    op_of_rule = {'lor': 'or', 'land': 'and', 'lnot': 'not', 'eq': 'eq', 'ne': 'ne', 'lt': 'lt', 'le': 'le', 'gt': 'gt',
                  'ge': 'ge', 'add_op': 'add', 'sub_op': 'sub', 'mul_op': 'mul', 'div_op': 'div', 'pos_op': 'pos',
                  'neg_op': 'neg', 'pow_op': 'pow'}

    def expand_inlined(sym):
        if sym in tbl and sym.startswith('_'):
            out = set()
            for exp in tbl[sym]:
                for s in exp:
                    out |= expand_inlined(s)
            return out
        return {sym}
    levels = []
    cur = next((exp[0] for exp in tbl.get('bool_expr', []) if exp), None)
    seen = set()
    while cur and cur in tbl and cur not in seen and cur.endswith('_expr'):
        seen.add(cur)
        opsyms, assoc, nxt = set(), None, None
        for exp in tbl[cur]:
            syms = exp
            oper = [s for s in syms if expand_inlined(s) & set(op_of_rule)]
            if not oper:
                if len(syms) == 1:
                    nxt = syms[0]
                continue
            o = oper[0]
            opsyms |= {op_of_rule[x] for x in expand_inlined(o) if x in op_of_rule}
            i = syms.index(o)
            left = syms[:i]
            right = syms[i + 1:]
            if not left:
                assoc = 'prefix'
            elif left[0] == cur:
                assoc = 'left'
            elif right and (right[0] == cur or right[0] in seen):
                assoc = 'right'
            else:
                assoc = 'none'
        levels.append((cur, opsyms, assoc))
        if cur == 'rel_expr' and nxt == 'real_expr':
            nxt = tbl['real_expr'][0][0]
        cur = nxt
        if cur == 'atom':
            break
    want = ops['precedence_low_to_high']
    chk.extra['precedence_levels'] = [(a, sorted(b), c) for a, b, c in levels]
    for i, w in enumerate(want):
        got = levels[i] if i < len(levels) else (None, set(), None)
        ok = set(w['ops']) == got[1] and (w['assoc'] in ('any',) or w['assoc'] == got[2]
                                          or (w['assoc'] == 'none' and got[2] in ('none', 'right')))
        chk.instance(A4, f'level {i}: grammar {got[0]} {sorted(got[1])} {got[2]}; Fortran {w["ops"]} {w["assoc"]}')
        if not ok:
            chk.violation(A4, 'src/pharmpy/model/external/nonmem/records/grammars/code_record.lark', str(got[0]),
                          f'level {i}: {sorted(got[1])} {got[2]}',
                          f'Fortran has {w["ops"]} ({w["assoc"]}) at this precedence level',
                          witness='an expression mixing these operators without parentheses (A-B-C, A/B*C, -A**2, '
                                  'A**B**C) is read with another grouping than NM-TRAN uses')


def _micro_names(advan, ref):
    """classic micro-constant symbol -> reference closed expression, by edge role"""
    num = {'ADVAN1': {'CENTRAL': 1}, 'ADVAN2': {'DEPOT': 1, 'CENTRAL': 2}, 'ADVAN3': {'CENTRAL': 1, 'PERIPHERAL': 2},
           'ADVAN4': {'DEPOT': 1, 'CENTRAL': 2, 'PERIPHERAL': 3}, 'ADVAN10': {'CENTRAL': 1},
           'ADVAN11': {'CENTRAL': 1, 'PERIPHERAL1': 2, 'PERIPHERAL2': 3},
           'ADVAN12': {'DEPOT': 1, 'CENTRAL': 2, 'PERIPHERAL1': 3, 'PERIPHERAL2': 4}}[advan]
    out = {}
    for key, v in ref.items():
        src, dst = key.split('>')
        if dst == 'OUTPUT':
            out[sympy.Symbol('K')] = v
        elif src == 'DEPOT':
            out[sympy.Symbol('KA')] = v
        else:
            out[sympy.Symbol(f'K{num[src]}{num[dst]}')] = v
    return out
