"""C02 (continued): B5 every path of the ODE update refreshes the compartment numbering state, B6 the statement-group
diff removes exactly the old statements and regenerates exactly the new ones, B7 renumberings are applied simultaneously."""
from __future__ import annotations

import ast

from sa.cfg import CFG
from sa.report import AnalysisError
from sa.srcmodel import unparse, walk_no_nested, dotted, calls_in

NM = 'pharmpy.model.external.nonmem'


def _stores_map(call: ast.Call, dict_literals: dict) -> bool:
    if not (isinstance(call.func, ast.Attribute) and call.func.attr == 'replace'):
        return False
    for k in call.keywords:
        if k.arg == 'compartment_map':
            return True
        if k.arg is None and isinstance(k.value, ast.Name) and 'compartment_map' in dict_literals.get(k.value.id, ()):
            return True
    return False


def _dict_literals(fnode):
    out = {}
    for n in walk_no_nested(fnode):
        tgt = None
        if isinstance(n, ast.Assign) and isinstance(n.targets[0], ast.Name):
            tgt, val = n.targets[0].id, n.value
        elif isinstance(n, ast.AnnAssign) and isinstance(n.target, ast.Name) and n.value is not None:
            tgt, val = n.target.id, n.value
        if tgt and isinstance(val, ast.Dict):
            out[tgt] = {k.value for k in val.keys if isinstance(k, ast.Constant)}
    return out


def _eval_filter(e, env):
    if isinstance(e, ast.Compare) and len(e.ops) == 1:
        a, b = _eval_filter(e.left, env), _eval_filter(e.comparators[0], env)
        op = e.ops[0]
        return {ast.Eq: a == b, ast.NotEq: a != b, ast.Lt: a < b, ast.LtE: a <= b, ast.Gt: a > b, ast.GtE: a >= b}[type(op)] \
            if type(op) in (ast.Eq, ast.NotEq, ast.Lt, ast.LtE, ast.Gt, ast.GtE) else _bad(e)
    if isinstance(e, ast.Compare) and len(e.ops) == 1 and isinstance(e.ops[0], (ast.In, ast.NotIn)):
        return _bad(e)
    if isinstance(e, ast.Name):
        if e.id in env:
            return env[e.id]
        return _bad(e)
    if isinstance(e, ast.Constant):
        return e.value
    if isinstance(e, ast.UnaryOp) and isinstance(e.op, ast.USub):
        return -_eval_filter(e.operand, env)
    if isinstance(e, ast.UnaryOp) and isinstance(e.op, ast.Not):
        return not _eval_filter(e.operand, env)
    if isinstance(e, ast.BoolOp):
        vals = [_eval_filter(v, env) for v in e.values]
        return all(vals) if isinstance(e.op, ast.And) else any(vals)
    return _bad(e)


def _bad(e):
    raise AnalysisError(f'B6: unsupported filter expression {unparse(e)}')


def run(chk, repo):
    from sa import lints
    st = lints.self_test()
    if not all(st.values()):
        raise AnalysisError(f'lint self-test failed: {st}')
    B5 = chk.rule('B5', 'update_ode_system: every path renumbers Sn/A(n) (pk_param_conversion) and stores the new '
                        'compartment map; update_model_record stores the map on every return after computing it', floor=3)
    B6 = chk.rule('B6', 'statement-group diff: removed nodes = statements of the old group (op in {0,-1}), regenerated '
                        'nodes = statements of the new group (op in {0,+1})', floor=2)
    B7 = chk.rule('B7', 'compartment renumbering of data and symbols is applied simultaneously (no entry-by-entry loop)',
                  floor=3)
    um = repo.module(f'{NM}.update')
    # which functions of update.py store compartment_map (directly)?
    storers = set()
    for name, f in um.functions.items():
        dl = _dict_literals(f.node)
        if any(_stores_map(c, dl) for c in calls_in(f.node)):
            storers.add(name)
    f = um.functions.get('update_ode_system')
    if f is None:
        raise AnalysisError('update_ode_system not found')
    cfg = CFG(f.node)
    dl = _dict_literals(f.node)

    def nodes_calling(pred):
        out = set()
        for n in cfg.nodes.values():
            if n.ast is None or n.kind not in ('stmt', 'return'):
                continue
            if any(pred(c) for c in ast.walk(n.ast) if isinstance(c, ast.Call)):
                out.add(n.id)
        return out
    store_nodes = nodes_calling(lambda c: _stores_map(c, dl) or dotted(c.func) in storers)
    renum_nodes = nodes_calling(lambda c: dotted(c.func) == 'pk_param_conversion')
    rets = [n for n in cfg.nodes.values() if n.kind == 'return']
    # the decision "the dose is a bolus and the data has RATE -> drop the column": a test mentioning Bolus and 'RATE'
    rate_tests = {n.id for n in cfg.nodes.values() if n.kind == 'test' and n.ast is not None
                  and any(isinstance(x, ast.Name) and x.id == 'Bolus' for x in ast.walk(n.ast))
                  and any(isinstance(x, ast.Constant) and x.value == 'RATE' for x in ast.walk(n.ast))}
    # a bolus/RATE decision that also reads the variables of the ADVAN/$DES dispatch is taken in one form only
    des_nodes = nodes_calling(lambda c: dotted(c.func) == 'to_des')
    dispatch_names = set()
    for n in cfg.nodes.values():
        if n.kind == 'test' and n.ast is not None and any(cfg.edge_dominates(n.id, lab, d) for d in des_nodes
                                                             for lab in ('true', 'false')):
            dispatch_names |= {x.id for x in ast.walk(n.ast) if isinstance(x, ast.Name)}
    rate_tests_all = set(rate_tests)
    rate_tests = {i for i in rate_tests
                  if not ({x.id for x in ast.walk(cfg.nodes[i].ast) if isinstance(x, ast.Name)} & dispatch_names)}
    if not rets or not store_nodes or not renum_nodes or not rate_tests_all or not dispatch_names:
        raise AnalysisError(f'B5: update_ode_system anchors not found (returns {len(rets)}, stores {len(store_nodes)}, '
                            f'renumberings {len(renum_nodes)}, bolus/RATE tests {len(rate_tests_all)}, dispatch names {len(dispatch_names)})')
    for what, via, wit in (
            ('decides whether the RATE column goes (bolus dose)', rate_tests,
             'a $DES model (Michaelis-Menten elimination) with zero order absorption set back to instantaneous absorption: '
             'the data keeps RATE=-2 while no D1 is defined any more (findings/C02_des_bolus_rate_demo.py)'),
            ('stores the compartment map', store_nodes,
             'two structural changes in a row on a model that needs $DES (e.g. Michaelis-Menten elimination, then first order '
             'absorption): the second change renumbers from a stale map'),
            ('renumbers Sn / A(n)', renum_nodes,
             'pheno -> set_michaelis_menten_elimination -> set_first_order_absorption: S1 = V stays although CENTRAL is '
             'compartment 2, the generated F is not scaled by V')):
        for r in rets:
            ok = r.id not in cfg.reachable(cfg.entry, avoid=via, labels_excluded=('exc', 'fexc'))
            chk.instance(B5, f'update_ode_system: every path to `{r.text()[:40]}` {what}: {ok}')
            if not ok:
                p = cfg.path(cfg.entry, r.id, avoid=via, labels_excluded=('exc', 'fexc'))
                chk.violation(B5, um.rel, 'update_ode_system', f'path without a call that {what}',
                              f'one branch of the ADVAN/$DES dispatch does not do what its sibling does: it never {what}',
                              line=r.line, path=cfg.describe(p or [])[-10:], witness=wit)
    g = um.functions.get('update_model_record')
    if g is None:
        raise AnalysisError('update_model_record not found')
    cfg = CFG(g.node)
    dl = _dict_literals(g.node)
    newmap_nodes = [n for n in cfg.nodes.values() if n.kind == 'stmt' and isinstance(n.ast, ast.Assign)
                    and isinstance(n.ast.value, ast.Call) and dotted(n.ast.value.func) == 'new_compartmental_map']
    stores = {n.id for n in cfg.nodes.values() if n.ast is not None and n.kind in ('stmt', 'return')
              and any(_stores_map(c, dl) for c in ast.walk(n.ast) if isinstance(c, ast.Call))}
    if not newmap_nodes or not stores:
        raise AnalysisError('B5: update_model_record: map computation or store not found')
    for r in [n for n in cfg.nodes.values() if n.kind == 'return']:
        after = any(r.id in cfg.reachable(m.id) for m in newmap_nodes)
        if not after:
            continue
        ok = not any(r.id in cfg.reachable(m.id, avoid=stores, labels_excluded=('exc', 'fexc')) for m in newmap_nodes)
        chk.instance(B5, f'update_model_record: `{r.text()[:40]}` (line {r.line}) after the new map is computed passes the '
                         f'store: {ok}')
        if not ok:
            chk.violation(B5, um.rel, 'update_model_record', f'{r.text()} without storing compartment_map',
                          'the new compartment numbering is computed but the model keeps the old map', line=r.line,
                          witness='two structural steps that stay in a closed-form ADVAN (first order absorption, then a '
                                  'transit compartment): the second renames Sn from the stale map')
    # ---------------------------------------------------------------- B6
    cm = repo.module(f'{NM}.records.code_record')
    d = cm.functions.get('_index_statements_diff')
    if d is None:
        raise AnalysisError('_index_statements_diff not found')
    comps = {}
    assigned = {}
    for n in walk_no_nested(d.node):
        if isinstance(n, ast.Assign) and isinstance(n.targets[0], ast.Name) and isinstance(n.value, ast.ListComp):
            assigned[n.targets[0].id] = n.value
    for y in [n for n in walk_no_nested(d.node) if isinstance(n, ast.Yield) and isinstance(n.value, ast.Tuple)
              and len(n.value.elts) == 4]:
        tag, lst = n_const(y.value.elts[0]), y.value.elts[1]
        if isinstance(lst, ast.Name) and lst.id in assigned:
            lst = assigned[lst.id]
        if isinstance(lst, ast.ListComp) and tag in (-1, 1):
            comps[tag] = lst
    if set(comps) != {-1, 1}:
        raise AnalysisError(f'B6: group removal / regeneration comprehensions not found ({sorted(comps)})')
    want = {-1: {0, -1}, 1: {0, 1}}
    for tag, lc in comps.items():
        gen = lc.generators[0]
        opname = None
        if isinstance(gen.target, ast.Tuple):
            opname = [e.id for e in gen.target.elts if isinstance(e, ast.Name)][-1]
        if not gen.ifs or opname is None:
            raise AnalysisError(f'B6: comprehension without filter: {unparse(lc)}')
        got = {v for v in (-1, 0, 1) if all(_eval_filter(c, {opname: v}) for c in gen.ifs)}
        chk.instance(B6, f'yield {tag:+d}: {unparse(lc)} selects op in {sorted(got)}; wanted {sorted(want[tag])}')
        if got != want[tag]:
            chk.violation(B6, cm.rel, '_index_statements_diff', unparse(lc),
                          f'the {"removed" if tag == -1 else "regenerated"} statements of a changed group are those with op in '
                          f'{sorted(got)}, must be {sorted(want[tag])}', line=lc.lineno,
                          witness='a block IF that assigns two variables, one of whose statements is replaced by a '
                                  'transformation (e.g. remove_covariate_effect renumbering a THETA inside the block): the '
                                  'replacement statement is missing from (or the old one duplicated in) the generated code')
    # ---------------------------------------------------------------- B7
    n_loops = 0
    for name, fn in um.functions.items():
        for L in [x for x in walk_no_nested(fn.node) if isinstance(x, ast.For)]:
            n_loops += 1
        for L, a in lints.sequential_substitution(fn.node):
            chk.violation(B7, um.rel, name, unparse(a),
                          'the renumbering is applied one entry at a time: when numbers shift (2->3, 3->4) records renumbered '
                          'by an earlier entry are renumbered again by a later one', line=a.lineno,
                          witness='observations in CENTRAL=2 and PERIPHERAL=3 and a transformation that inserts a compartment '
                                  'in front of them: both end up in compartment 4')
    # the simultaneous forms that must be present
    sims = []
    for name in ('update_cmt', 'pk_param_conversion'):
        fn = um.functions.get(name)
        if fn is None:
            raise AnalysisError(f'{name} not found')
        for c in calls_in(fn.node):
            if isinstance(c.func, ast.Attribute) and c.func.attr in ('replace', 'subs') and c.args \
                    and (isinstance(c.args[0], ast.Dict) or (isinstance(c.args[0], ast.Name) and c.args[0].id in ('d', 'remap'))):
                sims.append(f'{name}: {unparse(c)[:60]}')
    for s_ in sims:
        chk.instance(B7, f'simultaneous mapping: {s_}')
    chk.instance(B7, f'{n_loops} loops of update.py scanned for entry-by-entry renumbering')
    if len(sims) < 2:
        raise AnalysisError(f'B7: simultaneous renumbering calls not recognised ({sims})')


def n_const(e):
    if isinstance(e, ast.Constant):
        return e.value
    if isinstance(e, ast.UnaryOp) and isinstance(e.op, ast.USub) and isinstance(e.operand, ast.Constant):
        return -e.operand.value
    return None


def run_b8(chk, repo):
    """B8 function alphabet: printing is a right inverse of reading; B9 the printer formats sub-expressions through itself"""
    import re as _re
    import sympy
    from sa import grammar as G
    B8 = chk.rule('B8', 'every intrinsic function the reader produces is printed as a token of the same grammar rule with '
                        'all its arguments; functions the reader builds from other functions use printable parts', floor=25)
    B9 = chk.rule('B9', 'printer methods format sub-expressions through the printer (no str()/f-string of a sympy '
                        'sub-expression)', floor=5)
    gdir = G.nonmem_grammar_dir()
    L = G.load_file(gdir / 'code_record.lark', start='root', keep_all_tokens=True, propagate_positions=True)
    tbl = G.rule_table(L)
    tdefs = G.terminal_defs(L)
    crm = repo.module(f'{NM}.records.code_record')
    ei = crm.classes.get('ExpressionInterpreter')
    pr = crm.classes.get('NMTranPrinter')
    if ei is None or pr is None:
        raise AnalysisError('ExpressionInterpreter / NMTranPrinter not found')
    arity = {}
    for grp, n in (('_fn1', 1), ('_fn2', 2)):
        for exp in tbl.get(grp, []):
            for s_ in exp:
                arity[s_] = n
    if len(arity) < 20:
        raise AnalysisError(f'B8: function rules of the grammar not found ({len(arity)})')

    def tokens_of(rule):
        toks = set()
        for exp in tbl.get(rule, []):
            if len(exp) == 1 and exp[0] in tdefs:
                alts = G.literal_alternatives(L, exp[0])
                if alts:
                    toks |= alts
                else:
                    rx = tdefs[exp[0]].pattern.to_regexp()
                    m_ = _re.match(r'\(\?:\(\?i:([A-Za-z0-9]+)\)', rx) or _re.match(r'\(\?i:([A-Za-z0-9]+)\)', rx)
                    if m_:
                        toks.add(m_.group(1).upper())
        return toks
    all_fn_tokens = {}
    for r in arity:
        for t in tokens_of(r):
            all_fn_tokens[t] = r

    def printed_as(cls):
        """(token, nargs printed) for an instance of sympy class `cls` according to the printer's methods"""
        for k in cls.__mro__:
            m = pr.methods.get(f'_print_{k.__name__}')
            if m is None:
                continue
            if k.__name__ == 'Function':
                # generic: name = expr.name or CLASSNAME.upper(); prints args[0]
                nargs = len({unparse(x) for x in ast.walk(m.node) if isinstance(x, ast.Subscript)
                             and unparse(x.value).endswith('.args')})
                return cls.__name__.upper(), max(nargs, 1), m
            js = [n for n in ast.walk(m.node) if isinstance(n, ast.JoinedStr)]
            for j in js:
                lit = ''.join(v.value for v in j.values if isinstance(v, ast.Constant))
                mm = _re.match(r'\s*([A-Za-z0-9]+)\(', lit)
                if mm:
                    nargs = sum(1 for v in j.values if isinstance(v, ast.FormattedValue))
                    return mm.group(1).upper(), nargs, m
            return None, None, m
        return None, None, None

    def check_sympy_callable(name, rule, origin):
        obj = getattr(sympy, name, None)
        if obj is None:
            raise AnalysisError(f'B8: sympy has no {name}')
        if isinstance(obj, type):
            tok, nargs, m = printed_as(obj)
            ok_tok = tok is not None and (tok in tokens_of(rule) if rule else tok in all_fn_tokens)
            want_n = arity.get(rule) if rule else arity.get(all_fn_tokens.get(tok))
            chk.instance(B8, f'{origin}: sympy.{name} printed as {tok}({nargs} arg) by {m.qualname if m else None}; '
                             f'rule tokens {sorted(tokens_of(rule)) if rule else "any"}')
            if not ok_tok:
                chk.violation(B8, crm.rel, 'NMTranPrinter', f'{origin}: sympy.{name} -> {tok}',
                              f'`{tok}` is not a function NM-TRAN (and the code grammar) knows'
                              + (f'; the reader maps {sorted(tokens_of(rule))} to this class' if rule else ''),
                              line=m.node.lineno if m else None,
                              witness=f'a statement using {sorted(tokens_of(rule))[0] if rule else origin} that is regenerated '
                                      f'(any transformation touching it): the generated code does not compile / cannot be '
                                      f're-read')
            elif want_n and nargs != want_n:
                chk.violation(B8, crm.rel, m.qualname, f'{origin}: {tok} printed with {nargs} of {want_n} argument(s)',
                              'an argument of the function is dropped in the generated code', line=m.node.lineno,
                              witness='X = MOD(TIME, 24) regenerated as MOD(TIME)')
        else:
            # a function returning another class (sqrt -> Pow): evaluate with sympy on a symbol
            res = obj(sympy.Symbol('x'))
            tok, nargs, m = printed_as(type(res))
            chk.instance(B8, f'{origin}: sympy.{name}(x) is a {type(res).__name__}, printed by {m.qualname if m else None}')
            if m is None or name.upper() not in ''.join(
                    v.value for j in ast.walk(m.node) if isinstance(j, ast.JoinedStr) for v in j.values
                    if isinstance(v, ast.Constant)).upper():
                chk.violation(B8, crm.rel, 'NMTranPrinter', f'{origin}: sympy.{name}',
                              f'no printer branch writes {name.upper()}(...)', line=pr.node.lineno,
                              witness=f'{name.upper()}(X) is regenerated in Python syntax')
    fm = repo.module('pharmpy.internals.expr.funcs')
    for rule in sorted(arity):
        from rules.C01b import interpreter_handler_value
        r = interpreter_handler_value(repo, crm, ei, rule)
        if r is None:
            if repo.find_method(ei, rule) is not None:
                raise AnalysisError(f'B8: handler {rule} has no single return')
            continue
        if isinstance(r, ast.Attribute) and unparse(r.value) == 'sympy':
            check_sympy_callable(r.attr, rule, f'rule {rule}')
        elif isinstance(r, ast.Name):
            if r.id in fm.classes:
                # Function subclass printed by the generic method under its class name
                tok = r.id.upper()
                ok = tok in tokens_of(rule)
                chk.instance(B8, f'rule {rule}: class {r.id} printed as {tok}: in rule tokens {ok}')
                if not ok:
                    chk.violation(B8, crm.rel, 'NMTranPrinter._print_Function', f'{r.id} -> {tok}',
                                  'printed name is not a token of the rule', witness=f'{sorted(tokens_of(rule))}')
            elif r.id in fm.functions:
                f = fm.functions[r.id]
                parts = sorted({c.func.attr for c in ast.walk(f.node) if isinstance(c, ast.Call)
                                and isinstance(c.func, ast.Attribute) and unparse(c.func.value) == 'sympy'})
                for part in parts:
                    if part == 'Piecewise':
                        chk.instance(B8, f'rule {rule}: {r.id} is built from a Piecewise')
                        chk.violation(B8, fm.rel, r.id, f'{sorted(tokens_of(rule))[0]} -> Piecewise inside an expression',
                                      'the protected function is represented by a Piecewise; the printer has no form for a '
                                      'Piecewise that is nested in an expression (only a top-level Piecewise becomes an IF '
                                      'block)', line=f.node.lineno,
                                      witness=f'A = 2*{sorted(tokens_of(rule))[0]}(X) regenerated after any change of that '
                                              f'statement: update_source raises an internal lark error')
                    else:
                        check_sympy_callable(part, None, f'{r.id} (rule {rule})')
            else:
                raise AnalysisError(f'B8: handler of {rule} returns unknown name {r.id}')
        else:
            raise AnalysisError(f'B8: handler of {rule} returns {unparse(r)}')
    # ---------------------------------------------------------------- B9
    for name, m in sorted(pr.methods.items()):
        if not name.startswith('_print_'):
            continue
        ps = [x for x in m.params if x != 'self']
        p0 = ps[0] if ps else 'expr'
        bad = []
        for j in [n for n in ast.walk(m.node) if isinstance(n, ast.JoinedStr)]:
            for v in j.values:
                if isinstance(v, ast.FormattedValue):
                    e = v.value
                    # allowed: calls (self.doprint / self._print / super()...), names bound to such calls, plain names
                    if isinstance(e, (ast.Attribute, ast.Subscript)) and unparse(e).startswith(p0 + '.') \
                            and not unparse(e).endswith('.name'):
                        bad.append(unparse(e))
        for c in [n for n in ast.walk(m.node) if isinstance(n, ast.Call) and dotted(n.func) == 'str']:
            if c.args and unparse(c.args[0]).startswith(p0 + '.') :
                bad.append(f'str({unparse(c.args[0])})')
        chk.instance(B9, f'{m.qualname}: sub-expressions formatted outside the printer: {bad}')
        for b in bad:
            chk.violation(B9, crm.rel, m.qualname, b,
                          'the sub-expression is formatted by sympy\'s default printer, not by the NM-TRAN printer '
                          '(function names, operators and numbers come out in Python syntax)', line=m.node.lineno,
                          witness='Y = 1/(A .. Abs(X) ..) or 1/LOG(X): AttributeError or Python-syntax code')


def run_b10(chk, repo):
    B10 = chk.rule('B10', 'a general-solver ADVAN (solver_to_advan) is only selected by code that also writes $DES and '
                          '$MODEL', floor=2)
    um = repo.module(f'{NM}.update')
    if 'solver_to_advan' not in um.functions:
        raise AnalysisError('solver_to_advan not found')
    n = 0
    for name, f in um.functions.items():
        calls = [c for c in calls_in(f.node) if dotted(c.func) == 'solver_to_advan']
        if not calls:
            continue
        n += 1
        recs = {c.args[0].value.split('\\n')[0].split('\n')[0].strip() for c in calls_in(f.node)
                if dotted(c.func) == 'create_record' and c.args and isinstance(c.args[0], ast.Constant)
                and isinstance(c.args[0].value, str)}
        ok = '$DES' in recs and '$MODEL' in recs
        chk.instance(B10, f'{name}: selects the ADVAN of the solver and creates records {sorted(recs)}: {ok}')
        if not ok:
            chk.violation(B10, um.rel, name, unparse(calls[0]),
                          'ADVAN6/8/9/13/14/15 is written to $SUBROUTINES by code that does not write the differential '
                          'equations', line=calls[0].lineno,
                          witness="set_ode_solver(load_example_model('pheno'), 'LSODA'): $SUBROUTINE TRANS2 ADVAN13 and "
                                  "$MODEL without $DES")
    chk.instance(B10, f'{n} function(s) of update.py select a solver ADVAN')
    if n == 0:
        raise AnalysisError('B10: no caller of solver_to_advan')


def run_b11(chk, repo):
    B11 = chk.rule('B11', 'an option that is replaced through a getter with an implicit default is appended when the record '
                          'does not spell it', floor=1)
    # getters with an absent-default: `x = self.get_option...(..); if x is None: x = <constant>`
    defaults = {}
    for cls in repo.all_classes():
        if not cls.module.name.startswith(f'{NM}.records'):
            continue
        for name, m in cls.methods.items():
            if not m.is_property:
                continue
            for n in walk_no_nested(m.node):
                if isinstance(n, ast.If) and isinstance(n.test, ast.Compare) and isinstance(n.test.ops[0], ast.Is) \
                        and isinstance(n.test.comparators[0], ast.Constant) and n.test.comparators[0].value is None \
                        and len(n.body) == 1 and isinstance(n.body[0], ast.Assign) \
                        and isinstance(n.body[0].value, ast.Constant) and isinstance(n.body[0].value.value, str):
                    defaults[name] = (cls.name, n.body[0].value.value)
    um = repo.module(f'{NM}.update')
    n_sites = 0
    for fname, f in um.functions.items():
        origin = {}
        for n in walk_no_nested(f.node):
            if isinstance(n, ast.Assign) and isinstance(n.targets[0], ast.Name) and isinstance(n.value, ast.Attribute) \
                    and n.value.attr in defaults:
                origin[n.targets[0].id] = n.value.attr
        for c in calls_in(f.node):
            if isinstance(c.func, ast.Attribute) and c.func.attr == 'replace_option' and c.args \
                    and isinstance(c.args[0], ast.Name) and c.args[0].id in origin:
                n_sites += 1
                prop = origin[c.args[0].id]
                # an append guarded by an absence test of the same option family
                fam = defaults[prop][1][:4].upper()
                guarded = False
                for t in [x for x in walk_no_nested(f.node) if isinstance(x, ast.If)]:
                    tt = unparse(t.test)
                    if ('get_option' in tt or 'has_option' in tt) and fam in tt.upper() and any(
                            isinstance(a, ast.Call) and isinstance(a.func, ast.Attribute) and a.func.attr == 'append_option'
                            for s_ in t.body for a in ast.walk(s_)):
                        guarded = True
                chk.instance(B11, f'{fname}: replace_option({c.args[0].id} = .{prop}, default {defaults[prop][1]!r}); append when '
                                  f'absent: {guarded}')
                if not guarded:
                    chk.violation(B11, um.rel, fname, unparse(c),
                                  f'`.{prop}` answers {defaults[prop][1]!r} when the record does not spell the option; replacing '
                                  f'that text is a no-op, the new value is never written', line=c.lineno,
                                  witness='a model that went to $DES (TRANS removed) and comes back to ADVAN4: $SUBROUTINE ADVAN4 '
                                          'without TRANS4 while the code defines CL, V2, Q, V3')
    chk.instance(B11, f'getters with an implicit default: {sorted(defaults)}')
    if n_sites == 0:
        raise AnalysisError('B11: no replace_option through a defaulted getter found')


def run_b12(chk, repo):
    B12 = chk.rule('B12', 'coming from a general linear ADVAN (5/7) the elimination rate constant is renamed to K for every '
                          'closed-form ADVAN that new_advan_trans can select', floor=2)
    um = repo.module(f'{NM}.update')
    f = um.functions.get('pk_param_conversion')
    g = um.functions.get('new_advan_trans')
    if f is None or g is None:
        raise AnalysisError('pk_param_conversion / new_advan_trans not found')
    selectable = {n.value.value for n in walk_no_nested(g.node) if isinstance(n, ast.Assign)
                  and unparse(n.targets[0]) == 'advan' and isinstance(n.value, ast.Constant)}
    closed = {a for a in selectable if a not in ('ADVAN5', 'ADVAN7', 'ADVAN6', 'ADVAN8', 'ADVAN9', 'ADVAN13')}
    covered = set()
    site = None
    for n in ast.walk(f.node):
        if isinstance(n, ast.If) and 'advan' in {x.id for x in ast.walk(n.test) if isinstance(x, ast.Name)}:
            renames_to_k = any(isinstance(a, ast.Assign) and isinstance(a.targets[0], ast.Subscript)
                               and unparse(a.value) == "Expr.symbol('K')" and 'K{' in unparse(a.targets[0])
                               for s_ in n.body for a in ast.walk(s_))
            if renames_to_k:
                site = n
                lits = {c.value for c in ast.walk(n.test) if isinstance(c, ast.Constant) and isinstance(c.value, str)}
                covered |= lits
    if site is None:
        raise AnalysisError('B12: renaming K<i>0 -> K not found in pk_param_conversion')
    chk.instance(B12, f'new_advan_trans can select {sorted(selectable)}; closed-form: {sorted(closed)}')
    chk.instance(B12, f'pk_param_conversion renames K<i>0 -> K for {sorted(covered)}')
    missing = sorted(closed - covered, key=lambda a: int(a[5:]))
    if missing:
        chk.violation(B12, um.rel, 'pk_param_conversion', f'K<i>0 -> K only for {sorted(covered)}',
                      f'going from ADVAN5/7 to {missing} keeps the elimination constant under its ADVAN5 name (K20, K10): '
                      f'PREDPP expects K', line=site.lineno,
                      witness='pheno -> first order absorption -> peripheral -> 2 transits -> 0 transits: $SUBROUTINE ADVAN4 '
                              'TRANS1 with K20 = CL/V2 and no K')


def run_b14(chk, repo):
    """partition loops: a loop that distributes its items over several lists puts every item into one of them"""
    from sa import lints
    B14 = chk.rule('B14', 'loops that sort the terms/statements into several lists append every item on every path', floor=1)
    n = 0
    for modname in (f'{NM}.records.code_record', f'{NM}.update'):
        try:
            m = repo.module(modname)
        except Exception:
            continue
        for f in [x for x in repo.all_funcs() if x.module is m]:
            for L in [x for x in walk_no_nested(f.node) if isinstance(x, ast.For) and isinstance(x.target, ast.Name)]:
                v = L.target.id
                lists = set()
                for c in ast.walk(L):
                    if isinstance(c, ast.Call) and isinstance(c.func, ast.Attribute) and c.func.attr == 'append' \
                            and len(c.args) == 1 and isinstance(c.args[0], ast.Name) and c.args[0].id == v \
                            and isinstance(c.func.value, ast.Name):
                        lists.add(c.func.value.id)
                if len(lists) < 2:
                    continue

                def target(s_, v=v):
                    return isinstance(s_, ast.Expr) and isinstance(s_.value, ast.Call) \
                        and isinstance(s_.value.func, ast.Attribute) and s_.value.func.attr == 'append' \
                        and len(s_.value.args) == 1 and isinstance(s_.value.args[0], ast.Name) and s_.value.args[0].id == v
                may, must = lints.exec_under(L.body, {}, target)
                key = (f.fq, L.lineno)
                n += 1
                chk.instance(B14, f'{f.qualname}: for {v} in {unparse(L.iter)[:30]}: distributed over {sorted(lists)}; every '
                                  f'path appends: {must}')
                if not must:
                    chk.violation(B14, m.rel, f.qualname, f'for {v} in {unparse(L.iter)}: lists {sorted(lists)}',
                                  f'some path through the loop body puts `{v}` into none of {sorted(lists)}: the item '
                                  f'disappears from the output', line=L.lineno,
                                  witness='Y = F + W*EPS(1)*EXP(ETA(3)) + EPS(2): a term with two random variables next to a '
                                          'term with one is dropped from the generated sum')
    if n == 0:
        raise AnalysisError('B14: no partition loop found')


def run_b15(chk, repo):
    from sa.cfg import CFG
    B15 = chk.rule('B15', 'the "statements unchanged" shortcut of update_statements is taken only if the THETA/ETA/EPS numbering is '
                          'unchanged too; the numbering comparison is made before the old_* snapshots are overwritten', floor=3)
    um = repo.module(f'{NM}.update')
    f = um.functions.get('update_statements')
    mm = repo.module(f'{NM}.model')
    mcls = mm.classes.get('Model')
    us = mcls.methods.get('update_source') if mcls else None
    if f is None or us is None:
        raise AnalysisError('update_statements / Model.update_source not found')
    old_p, new_p = f.params[1], f.params[2]
    guard = None
    for n in walk_no_nested(f.node):
        if isinstance(n, ast.If) and any(isinstance(r, ast.Return) for r in n.body):
            nm = {x.id for x in ast.walk(n.test) if isinstance(x, ast.Name)}
            if {old_p, new_p} <= nm:
                guard = n
                break
    if guard is None:
        chk.instance(B15, 'update_statements has no shortcut for unchanged statements')
        return
    extra = ({x.id for x in ast.walk(guard.test) if isinstance(x, ast.Name)} & set(f.all_params)) - {old_p, new_p, f.params[0]}
    chk.instance(B15, f'shortcut `if {unparse(guard.test)[:80]}` also depends on parameter(s) {sorted(extra)}')
    if not extra:
        chk.violation(B15, um.rel, 'update_statements', f'if {unparse(guard.test)}: return',
                      'unchanged statements are left as they are although a theta/eta/epsilon before the ones they use may have '
                      'been removed or added: the code keeps stale THETA(n)/ETA(n)', line=guard.lineno,
                      witness='Y = THETA(1) + THETA(3)*TIME with an unused THETA(2), then remove_unused_parameters_and_rvs: two '
                              '$THETA records remain and the code still says THETA(3)')
        return
    flag = sorted(extra)[0]
    idx = f.all_params.index(flag)
    cfg = CFG(us.node)
    calls = [(n, c) for n in cfg.nodes.values() if n.ast is not None and n.kind in ('stmt', 'return')
             for c in ast.walk(n.ast) if isinstance(c, ast.Call) and dotted(c.func) == 'update_statements']
    resets = {n.id for n in cfg.nodes.values() if n.ast is not None and n.kind == 'stmt'
              and any(isinstance(c, ast.Call) and any(k.arg in ('old_parameters', 'old_random_variables') for k in c.keywords)
                      for c in ast.walk(n.ast))}
    first = min(calls, key=lambda t: t[0].line) if calls else None
    if first is None:
        raise AnalysisError('B15: call of update_statements not found in update_source')
    node, call = first
    arg = call.args[idx] if len(call.args) > idx else next((k.value for k in call.keywords if k.arg == flag), None)
    if not resets and isinstance(arg, ast.Name):
        # the first phase (flag, update of the records, refresh of the snapshots) may have been moved into a helper that
        # returns the flag: `model, control_stream, renumbered = helper(model)`; the same obligations hold inside the helper
        for n_ in cfg.nodes.values():
            a_ = n_.ast
            if n_.kind == 'stmt' and isinstance(a_, ast.Assign) and isinstance(a_.targets[0], ast.Tuple) \
                    and isinstance(a_.value, ast.Call) and isinstance(a_.value.func, ast.Name):
                pos = [i_ for i_, t_ in enumerate(a_.targets[0].elts) if isinstance(t_, ast.Name) and t_.id == arg.id]
                r_ = repo.resolve(mm, a_.value.func.id)
                h_ = r_[1] if r_ and r_[0] == 'func' else None
                if pos and h_ is not None:
                    hret = [x.value for x in walk_no_nested(h_.node) if isinstance(x, ast.Return) and isinstance(x.value, ast.Tuple)]
                    if hret and pos[0] < len(hret[0].elts) and isinstance(hret[0].elts[pos[0]], ast.Name):
                        us, mm = h_, h_.module
                        cfg = CFG(h_.node)
                        arg = hret[0].elts[pos[0]]
                        resets = {n.id for n in cfg.nodes.values() if n.ast is not None and n.kind == 'stmt'
                                  and any(isinstance(c, ast.Call) and any(k.arg in ('old_parameters', 'old_random_variables')
                                                                          for k in c.keywords) for c in ast.walk(n.ast))}
    if not resets:
        raise AnalysisError('B15: reset of old_parameters not found in update_source (or the helper that computes the flag)')
    chk.instance(B15, f'update_source passes {unparse(arg) if arg is not None else None} as `{flag}`')
    if arg is None or not isinstance(arg, ast.Name):
        chk.violation(B15, mm.rel, us.qualname, unparse(call)[:100],
                      f'the numbering flag `{flag}` is not passed: the shortcut is always taken', line=call.lineno,
                      witness='remove an unused theta: stale THETA(n) in the code')
        return
    defs = [n for n in cfg.nodes.values() if n.kind == 'stmt' and isinstance(n.ast, ast.Assign)
            and any(isinstance(t, ast.Name) and t.id == arg.id for t in n.ast.targets)]
    ok_src = all('old_parameters' in unparse(d.ast.value) and 'old_random_variables' in unparse(d.ast.value) for d in defs) and defs
    before = all(not any(d.id in cfg.reachable(r) for r in resets) for d in defs)
    chk.instance(B15, f'`{arg.id}` compares old and new parameters and random variables: {bool(ok_src)}; computed before the '
                      f'old_* snapshots are overwritten: {before}')
    if not ok_src or not before:
        chk.violation(B15, mm.rel, us.qualname, f'{arg.id} = {unparse(defs[0].ast.value)[:80] if defs else "?"}',
                      'the renumbering flag does not compare both old/new parameters and old/new random variables, or is '
                      'computed after old_parameters/old_random_variables were replaced by the new ones (always False)',
                      line=defs[0].line if defs else us.node.lineno,
                      witness='remove an unused eta: ETA(n) in unchanged statements is stale')


def run_b16(chk, repo):
    """every (ADVAN, TRANS) pair that new_advan_trans can select exists in PREDPP"""
    import json
    from sa.report import VERIF
    from rules.C02 import eval_cond
    B16 = chk.rule('B16', 'new_advan_trans selects only (ADVAN, TRANS) combinations that PREDPP has', floor=20)
    spec = json.loads((VERIF / 'specs/predpp.json').read_text())
    valid = {a: {k for k in v if k.startswith('TRANS')} for a, v in spec.items() if a.startswith('ADVAN')}
    um = repo.module(f'{NM}.update')
    f = um.functions.get('new_advan_trans')
    if f is None:
        raise AnalysisError('new_advan_trans not found')

    def last_assign(stmts, env, var, found):
        for s_ in stmts:
            if isinstance(s_, ast.If):
                v = eval_cond(s_.test, env)
                if v is True:
                    last_assign(s_.body, env, var, found)
                elif v is False:
                    last_assign(s_.orelse, env, var, found)
                else:
                    # undecidable test (e.g. nonlin, oldtrans is None): explore both, results marked
                    f1, f2 = dict(found), dict(found)
                    last_assign(s_.body, env, var, f1)
                    last_assign(s_.orelse, env, var, f2)
                    vals = {f1.get(var), f2.get(var)}
                    found[var] = vals.pop() if len(vals) == 1 else ('?', f1.get(var), f2.get(var))
                continue
            if isinstance(s_, ast.Assign) and unparse(s_.targets[0]) == var:
                if isinstance(s_.value, ast.Constant):
                    found[var] = s_.value.value
                elif isinstance(s_.value, ast.Name) and s_.value.id in env:
                    found[var] = env[s_.value.id]
                else:
                    found[var] = ('expr', unparse(s_.value))
    n = 0
    for advan in sorted(valid, key=lambda a: int(a[5:])):
        for oldtrans in ('TRANS1', 'TRANS2', 'TRANS3', 'TRANS4', 'TRANS5', 'TRANS6'):
            env = {'advan': advan, 'oldtrans': oldtrans}
            found = {}
            # only the part after the ADVAN choice: statements that assign `trans`
            body = [s_ for s_ in f.node.body if any(isinstance(a, ast.Assign) and unparse(a.targets[0]) == 'trans'
                                                     for a in ast.walk(s_))]
            last_assign(body, env, 'trans', found)
            t = found.get('trans')
            cands = [t] if isinstance(t, str) or t is None else [x for x in t[1:] if isinstance(x, str)]
            n += 1
            chk.instance(B16, f'{advan}, old {oldtrans} -> {t}')
            for c in cands:
                if c is not None and c not in valid[advan]:
                    chk.violation(B16, um.rel, 'new_advan_trans', f'{advan} with old {oldtrans} -> {c}',
                                  f'PREDPP has no {c} for {advan} (valid: {sorted(valid[advan])})', line=f.node.lineno,
                                  witness='a TRANS3 model (CL, V, Q, VSS) that gets a second peripheral compartment: '
                                          '$SUBROUTINE ADVAN11 TRANS3 with none of its rate constants defined')
    if n < 20:
        raise AnalysisError('B16: table of new_advan_trans not evaluated')


def run_b17(chk, repo):
    """the PK parameters PREDPP reads for the selected (ADVAN, TRANS) are the ones update_needed_pk_parameters can define"""
    import json
    from sa.report import VERIF
    from rules.C02 import eval_cond
    B17 = chk.rule('B17', 'for every closed-form (ADVAN, TRANS) pair pharmpy selects, update_needed_pk_parameters names every '
                          'PK parameter PREDPP reads for it', floor=10)
    spec = json.loads((VERIF / 'specs/predpp.json').read_text())
    um = repo.module(f'{NM}.update')
    f = um.functions.get('update_needed_pk_parameters')
    if f is None:
        raise AnalysisError('update_needed_pk_parameters not found')
    if not {'advan', 'trans'} <= set(f.all_params):
        raise AnalysisError('update_needed_pk_parameters: parameters advan/trans not found')

    def consts(node, env, out, depth=0):
        if isinstance(node, ast.Dict) and node.keys and all(isinstance(k, ast.Constant) for k in node.keys) \
                and env['advan'] in [k.value for k in node.keys]:
            for k, v in zip(node.keys, node.values):
                if k.value == env['advan']:
                    consts(v, env, out, depth)
            return
        if isinstance(node, ast.Constant) and isinstance(node.value, str):
            out.add(node.value)
        if isinstance(node, ast.Name) and isinstance(um.globals_.get(node.id), (ast.Dict, ast.Tuple, ast.List)) \
                and depth < 3:
            # a module-level table (also one imported from another module of the package)
            consts(um.globals_[node.id], env, out, depth + 1)
            return
        for c in ast.iter_child_nodes(node):
            consts(c, env, out, depth)

    def walk(stmts, env, out):
        for s_ in stmts:
            if isinstance(s_, ast.If):
                v = eval_cond(s_.test, env)
                if v is not False:
                    if v is None:
                        consts(s_.test, env, out)
                    walk(s_.body, env, out)
                if v is not True:
                    walk(s_.orelse, env, out)
            elif isinstance(s_, (ast.For, ast.While, ast.With, ast.Try)):
                for fld in ('iter', 'test', 'items'):
                    x = getattr(s_, fld, None)
                    for y in (x if isinstance(x, list) else [x] if x is not None else []):
                        consts(y, env, out)
                for fld in ('body', 'orelse', 'finalbody'):
                    walk(getattr(s_, fld, []) or [], env, out)
                for h in getattr(s_, 'handlers', []):
                    walk(h.body, env, out)
            else:
                consts(s_, env, out)
    # TRANS values pharmpy itself selects for the closed-form ADVANs (B16 decides that no other is selected)
    pairs = [(a, t) for a in ('ADVAN1', 'ADVAN2', 'ADVAN3', 'ADVAN4', 'ADVAN11', 'ADVAN12')
             for t in ('TRANS1', 'TRANS2', 'TRANS4') if t in spec[a]]
    for advan, trans in pairs:
        env = {'advan': advan, 'trans': trans}
        named = set()
        walk(f.node.body, env, named)
        need = list(spec[advan][trans]['params'])
        missing = [p for p in need if p not in named]
        chk.instance(B17, f'{advan} {trans}: reads {need}; named in the branch taken: {sorted(set(need) & named)}')
        if missing:
            chk.violation(B17, um.rel, f.qualname, f'{advan} {trans}: {", ".join(missing)} not defined',
                          f'PREDPP reads {", ".join(missing)} for {advan} {trans}; no branch of update_needed_pk_parameters '
                          f'taken for this pair can define them, so the generated $PK leaves them undefined',
                          line=f.node.lineno,
                          witness='a TRANS1 model (K, V) that gets a peripheral compartment: $SUBROUTINE ADVAN3 TRANS1 with '
                                  'KCP1/KPC1 defined but not K12/K21 (findings/C02_trans1_peripheral_rates_demo.py)')


def run_b18(chk, repo):
    """TRANS4 (CL, V1, Q, V2: every rate a ratio of two PK parameters) is chosen for a model without TRANS only after the
    distribution rates were looked at, not on the elimination rate alone"""
    B18 = chk.rule('B18', 'new_advan_trans: without an old TRANS, TRANS4 is selected only under a test that reads the flows '
                          'between the central and the peripheral compartments', floor=1)
    um = repo.module(f'{NM}.update')
    f = um.functions.get('new_advan_trans')
    if f is None:
        raise AnalysisError('new_advan_trans not found')
    cfg = CFG(f.node)
    t4 = [n for n in cfg.nodes.values() if n.kind == 'stmt' and isinstance(n.ast, ast.Assign)
          and unparse(n.ast.targets[0]) == 'trans' and isinstance(n.ast.value, ast.Constant) and n.ast.value.value == 'TRANS4']
    # those on the `oldtrans is None` path
    from sa import guards as G_

    def no_old(e):
        if isinstance(e, ast.Compare) and len(e.ops) == 1 and unparse(e.left) == 'oldtrans' \
                and isinstance(e.comparators[0], ast.Constant) and e.comparators[0].value is None:
            return isinstance(e.ops[0], ast.Is) if isinstance(e.ops[0], (ast.Is, ast.IsNot)) else None
        return None
    sites = [n for n in t4 if G_.guarded(cfg, n.id, no_old)]
    if not sites:
        raise AnalysisError('B18: TRANS4 selection for a model without TRANS not found in new_advan_trans')

    def reads_distribution(e, depth=2):
        txt = unparse(e)
        if 'find_peripheral_compartments' in txt:
            return True
        for c in [x for x in ast.walk(e) if isinstance(x, ast.Call)]:
            if isinstance(c.func, ast.Attribute) and c.func.attr == 'get_flow' and len(c.args) == 2 \
                    and unparse(c.args[1]) != 'output':
                return True
            g = um.functions.get(dotted(c.func) or '')
            if g is not None and depth > 0 and any(reads_distribution(s_, depth - 1) for s_ in g.node.body):
                return True
        return False
    for n in sites:
        doms = [t for t in cfg.nodes.values() if t.kind == 'test' and t.ast is not None
                and any(cfg.edge_dominates(t.id, lab, n.id) for lab in ('true', 'false'))]
        ok = any(reads_distribution(t.ast) for t in doms)
        chk.instance(B18, f'trans = TRANS4 (no old TRANS) under {[t.text()[:50] for t in doms]}: reads distribution rates {ok}')
        if not ok:
            chk.violation(B18, um.rel, f.qualname, "trans = 'TRANS4' decided on the elimination rate only",
                          'TRANS4 defines K12 = Q/V1 and K21 = Q/V2; the writer takes Q and V2 from one flow and assumes the '
                          'other, so a model whose distribution rates are plain rate constants (K12, K21) is written with '
                          'another K12 than it has (and the integer 1 of the missing denominator is substituted everywhere)',
                          line=n.line,
                          witness='an ADVAN3 TRANS1 model (K12, K21 thetas) -> set_michaelis_menten_elimination -> '
                                  'set_first_order_elimination: $SUBROUTINE ADVAN3 TRANS4 with Q = K21, V2 = 1, V1 = VC: '
                                  'NONMEM computes K12 = K21/VC (findings/C02_trans4_needs_ratio_rates_demo.py)')


def run_b19(chk, repo):
    """a trailing (0, True) branch of a Piecewise is dropped as "our own default" only for a symbol that was not defined before"""
    from sa import reach
    B19 = chk.rule('B19', 'Piecewise -> IF: the trailing `ELSE X = 0` branch is treated as the reader\'s default only under a '
                          'test on defined_symbols', floor=1)
    cm = repo.module(f'{NM}.records.code_record')
    f = cm.functions.get('_translate_sympy_piecewise')
    if f is None:
        raise AnalysisError('_translate_sympy_piecewise not found')
    if len(f.params) < 2:
        raise AnalysisError('_translate_sympy_piecewise: defined-symbols parameter not found')
    dparam = f.params[1]
    cfg = CFG(f.node)
    drops = [I for I in walk_no_nested(f.node) if isinstance(I, ast.If) and any(
        isinstance(a, ast.Assign) and isinstance(a.value, ast.Subscript) and isinstance(a.value.slice, ast.Slice)
        and a.value.slice.upper is not None and unparse(a.value.slice.upper) == '-1' for a in I.body)]
    if not drops:
        raise AnalysisError('B19: the statement that drops the last Piecewise branch was not found')
    for I in drops:
        nid = reach.node_of(cfg, I)
        test = reach.expand_expr(cfg, nid, I.test) if nid is not None else I.test

        def zero_cmps(e, inside_and=None):
            out = []
            if isinstance(e, ast.BoolOp):
                for v in e.values:
                    out += zero_cmps(v, e if isinstance(e.op, ast.And) else inside_and)
            elif isinstance(e, ast.Compare) and len(e.ops) == 1 and isinstance(e.ops[0], ast.Eq) \
                    and any(isinstance(x, ast.Constant) and x.value == 0 and not isinstance(x.value, bool)
                            for x in [e.left, e.comparators[0]]):
                out.append((e, inside_and))
            return out
        zs = zero_cmps(test)
        if not zs:
            raise AnalysisError(f'B19: no `== 0` test in the condition `{unparse(test)[:80]}`')
        for cmp_, conj in zs:
            ok = conj is not None and any(
                isinstance(c, ast.Compare) and isinstance(c.ops[0], (ast.In, ast.NotIn)) and unparse(c.comparators[0]) == dparam
                for v in conj.values for c in ast.walk(v))
            chk.instance(B19, f'`{unparse(cmp_)}` decides "own default" together with a test on {dparam}: {ok}')
            if not ok:
                chk.violation(B19, cm.rel, f.name, unparse(test)[:120],
                              f'a trailing (0, True) branch is dropped without asking whether the symbol already has a value: an '
                              f'explicit ELSE X = 0 of an already defined X disappears from the generated code', line=I.lineno,
                              witness='X = 1 followed by IF (c) THEN X = a ELSE X = 0 END IF, regenerated after any change of '
                                      'that record: on the false side NONMEM keeps X = 1, the model says 0')


def run_b20(chk, repo):
    """a bolus that becomes an infusion with a duration parameter: the RATE column is (re)written with -2 on every path that
    publishes the copied dataset"""
    B20 = chk.rule('B20', 'update_infusion: the dataset published for a new duration infusion carries the rewritten RATE '
                          'column on every path (not only when the column was absent)', floor=1)
    um = repo.module(f'{NM}.update')
    f = um.functions.get('update_infusion')
    if f is None:
        raise AnalysisError('update_infusion not found')
    cfg = CFG(f.node)
    copies = [n for n in cfg.nodes.values() if n.kind == 'stmt' and isinstance(n.ast, ast.Assign)
              and isinstance(n.ast.targets[0], ast.Name) and isinstance(n.ast.value, ast.Call)
              and unparse(n.ast.value.func).endswith('dataset.copy')]
    n = 0
    for c in copies:
        var = c.ast.targets[0].id
        stores = {m.id for m in cfg.nodes.values() if m.kind == 'stmt' and isinstance(m.ast, ast.Assign)
                  and isinstance(m.ast.targets[0], ast.Subscript) and unparse(m.ast.targets[0].value) == var
                  and isinstance(m.ast.targets[0].slice, ast.Constant) and m.ast.targets[0].slice.value == 'RATE'}
        pubs = [m for m in cfg.nodes.values() if m.kind == 'stmt' and m.ast is not None and any(
            isinstance(x, ast.Call) and isinstance(x.func, ast.Attribute) and x.func.attr == 'replace'
            and any(k.arg == 'dataset' and unparse(k.value) == var for k in x.keywords) for x in ast.walk(m.ast))
            and m.id in cfg.reachable(c.id)]
        if not stores or not pubs:
            continue
        for p in pubs:
            n += 1
            ok = cfg.must_pass(c.id, p.id, stores)
            chk.instance(B20, f'update_infusion: `{p.text()[:50]}` after `{c.text()[:40]}` passes the RATE rewrite: {ok}')
            if not ok:
                path = cfg.path(c.id, p.id, avoid=stores)
                chk.violation(B20, um.rel, f.qualname, 'RATE rewritten only on some paths',
                              'the copied dataset is published without the RATE column having been set to -2 on the dose '
                              'records: an existing RATE column (all zero = bolus) stays, NONMEM gives bolus doses and ignores D1',
                              line=p.line, path=cfg.describe(path or []),
                              witness='a dataset that already has an all-zero RATE column, then set_zero_order_absorption')
    if n == 0:
        raise AnalysisError('B20: dataset copy / RATE rewrite / publication not found in update_infusion')


def run_b21_b22(chk, repo):
    """B21: the TRANS1 rate constants of the peripheral compartments are named K<central><peripheral> for the flow central ->
    peripheral and K<peripheral><central> for the flow back (PREDPP's numbering: central is 1 for ADVAN3/11, 2 for ADVAN4/12);
    B22: the columns of the initial individual estimates are written in the model's eta order"""
    from sa import reach
    B21 = chk.rule('B21', 'update_needed_pk_parameters: K<i><j> names and the (source, destination) of the flow they are given to '
                          'agree (central number first for central -> peripheral)', floor=4)
    um = repo.module(f'{NM}.update')
    f = um.functions.get('update_needed_pk_parameters')
    if f is None:
        raise AnalysisError('update_needed_pk_parameters not found')
    CENTRAL_NO = {'ADVAN3': '1', 'ADVAN11': '1', 'ADVAN4': '2', 'ADVAN12': '2'}
    import re as _re
    n = 0

    def table_of(e):
        if isinstance(e, ast.Name):
            # the dict literal assigned to the name (a function may reuse the name for something else in another branch), or
            # a module-level table
            vs = [a.value for a in ast.walk(f.node) if isinstance(a, ast.Assign) and isinstance(a.targets[0], ast.Name)
                  and a.targets[0].id == e.id and isinstance(a.value, ast.Dict)]
            if len(vs) == 1:
                return vs[0]
            return um.globals_.get(e.id)
        return e
    for c in calls_in(f.node):
        if dotted(c.func) != 'add_rate_assignment_if_missing' or len(c.args) < 5:
            continue
        name, src, dst = c.args[1], unparse(c.args[3]), unparse(c.args[4])
        if 'central' not in (src, dst) or not (src.startswith('peripheral') or dst.startswith('peripheral')):
            continue
        direction = 'cp' if src == 'central' else 'pc'
        cands = []          # (advan, name)
        if isinstance(name, ast.Constant) and isinstance(name.value, str):
            # the ADVAN of a literal name: from the enclosing `advan == '...'` test
            adv = None
            for I in ast.walk(f.node):
                if isinstance(I, ast.If) and any(x is c for s_ in I.body for x in ast.walk(s_)):
                    for k in ast.walk(I.test):
                        if isinstance(k, ast.Constant) and isinstance(k.value, str) and k.value in CENTRAL_NO:
                            adv = k.value
            cands.append((adv, name.value))
        elif isinstance(name, ast.Name):
            # a loop variable over the rows of a table {ADVAN: [(kcp, kpc), ..]}
            for L in ast.walk(f.node):
                if isinstance(L, ast.For) and any(x is c for x in ast.walk(L)):
                    pos = None
                    for t in ast.walk(L.target):
                        if isinstance(t, ast.Tuple) and any(isinstance(e, ast.Name) and e.id == name.id for e in t.elts):
                            pos = [isinstance(e, ast.Name) and e.id == name.id for e in t.elts].index(True)
                    tab = next((table_of(s_.value) for s_ in ast.walk(L.iter) if isinstance(s_, ast.Subscript)
                                and isinstance(table_of(s_.value), ast.Dict)), None)
                    if pos is None or tab is None:
                        continue
                    for k, v in zip(tab.keys, tab.values):
                        if isinstance(k, ast.Constant) and isinstance(v, (ast.List, ast.Tuple)):
                            for row in v.elts:
                                if isinstance(row, ast.Tuple) and pos < len(row.elts) and isinstance(row.elts[pos], ast.Constant):
                                    cands.append((k.value, row.elts[pos].value))
        for adv, nm in cands:
            if adv not in CENTRAL_NO or not _re.fullmatch(r'K\d\d', str(nm)):
                continue
            n += 1
            cen = CENTRAL_NO[adv]
            ok = (nm[1] == cen and nm[2] != cen) if direction == 'cp' else (nm[2] == cen and nm[1] != cen)
            chk.instance(B21, f'{adv}: {nm} names the flow {src} -> {dst} (central is compartment {cen}): {ok}')
            if not ok:
                chk.violation(B21, um.rel, f.qualname, f'{adv}: {nm} for {src} -> {dst}',
                              f'PREDPP reads K<i><j> as the rate from compartment i to j; central is compartment {cen} in {adv}',
                              line=c.lineno,
                              witness='a TRANS1 model that gets a second peripheral compartment: the generated code is valid but '
                                      'the two new rate constants are exchanged')
    if n == 0:
        raise AnalysisError('B21: no K<i><j> name given to a central/peripheral flow found')
    B22 = chk.rule('B22', 'the eta columns of the initial individual estimates are ordered by the model\'s random variables (not '
                          'by name)', floor=1)
    g = um.functions.get('_sort_eta_columns') or um.functions.get('update_initial_individual_estimates')
    if g is None:
        raise AnalysisError('B22: _sort_eta_columns / update_initial_individual_estimates not found')
    sel = [c.args[0] for c in calls_in(g.node) if isinstance(c.func, ast.Attribute) and c.func.attr == 'reindex' and c.args] + \
          [k.value for c in calls_in(g.node) if isinstance(c.func, ast.Attribute) and c.func.attr == 'reindex'
           for k in c.keywords if k.arg == 'columns'] + \
          [r.value.slice for r in ast.walk(g.node) if isinstance(r, ast.Return) and isinstance(r.value, ast.Subscript)]
    if not sel:
        raise AnalysisError('B22: column selection of the individual estimates not found')
    gcfg = CFG(g.node)
    for e in sel:
        at = reach.node_containing(gcfg, e)
        x = reach.expand_expr(gcfg, at, e) if at is not None else e
        resorted = any(isinstance(c, ast.Call) and dotted(c.func) == 'sorted' for c in ast.walk(x)) or any(
            isinstance(c, (ast.ListComp, ast.GeneratorExp)) and 'columns' in unparse(c.generators[0].iter) for c in ast.walk(x))
        chk.instance(B22, f'{g.name}: columns selected by `{unparse(x)[:60]}` keep the order of the random variables: '
                          f'{not resorted}')
        if resorted:
            chk.violation(B22, um.rel, g.name, unparse(x)[:100],
                          'the columns are relabelled ETA(1), ETA(2), ... by position afterwards: sorted by name (or taken in file '
                          'order) they no longer line up with the model\'s eta order', line=e.lineno,
                          witness='create_joint_distribution([ETA_1, ETA_3]) and initial individual estimates: the ETA(2) column '
                                  'of the written phi file holds the values of ETA_2 although ETA(2) is ETA_3')


def run_b23(chk, repo):
    """update_source compares the state the control stream was generated from (internals.old_*) with the current one; once
    `internals.replace(old_x=...)` has refreshed old_x, a comparison with old_x says "unchanged" whatever happened"""
    B23 = chk.rule('B23', 'nonmem Model.update_source: internals.old_<x> is not read after the statement that refreshes old_<x>',
                   floor=3)
    mm = repo.module(f'{NM}.model')
    cls = mm.classes.get('Model')
    f = cls.methods.get('update_source') if cls else None
    if f is None:
        raise AnalysisError('nonmem Model.update_source not found')
    cfg = CFG(f.node)
    refresh = {}
    for nd in cfg.nodes.values():
        if nd.ast is None or nd.kind != 'stmt':
            continue
        for c in ast.walk(nd.ast):
            if isinstance(c, ast.Call) and isinstance(c.func, ast.Attribute) and c.func.attr == 'replace':
                for k in c.keywords:
                    if k.arg and k.arg.startswith('old_'):
                        refresh.setdefault(k.arg, []).append(nd)
    if not refresh:
        raise AnalysisError('B23: no internals.replace(old_...=...) found in update_source')
    n = 0
    for nd in cfg.nodes.values():
        if nd.ast is None:
            continue
        root = nd.ast.test if nd.kind == 'test' and hasattr(nd.ast, 'test') else nd.ast
        for a in ast.walk(root) if isinstance(root, ast.AST) else []:
            if isinstance(a, ast.Attribute) and a.attr in refresh and isinstance(a.value, ast.Attribute) \
                    and a.value.attr == 'internals':
                n += 1
                # ... unless the current value was replaced in between (`model = model.replace(statements=new)`): then
                # old_x is again the state the text was generated from
                fld = a.attr[len('old_'):]
                kills = {k_.id for k_ in cfg.nodes.values() if k_.ast is not None and k_.kind == 'stmt' and any(
                    isinstance(c_, ast.Call) and isinstance(c_.func, ast.Attribute) and c_.func.attr == 'replace'
                    and any(kw.arg == fld for kw in c_.keywords) for c_ in ast.walk(k_.ast))}
                stale = [r for r in refresh[a.attr] if r.id != nd.id and nd.id in cfg.reachable(r.id, avoid=kills - {nd.id})]
                chk.instance(B23, f'update_source: `{unparse(a)}` at line {nd.line} read before it is refreshed: {not stale}')
                if stale:
                    chk.violation(B23, mm.rel, f.qualname, f'{unparse(a)} read after {stale[0].text()[:50]}',
                                  f'`{a.attr}` was already set to the current value: the comparison that uses it is always '
                                  f'"unchanged"', line=nd.line,
                                  witness='remove_unused_parameters_and_rvs on a model with an unused theta that is not the last: '
                                          'the $PK code keeps THETA(3), THETA(4) while $THETA has three records')
    if n == 0:
        raise AnalysisError('B23: no read of internals.old_* found in update_source')


def run_b24(chk, repo):
    """B24: the updater writes `ALAG1 = <lag time>` whenever the dose compartment has a lag time that differs from the one the
    code was generated for - also when there was a (different) lag time before. The guard of update_lag_time is evaluated over
    old in {0, A} x new in {0, A, B}"""
    import itertools
    from sa import tables as T_
    from sa import reach
    from sa.cfg import CFG
    B24 = chk.rule('B24', 'update_lag_time: ALAG is (re)written iff the new lag time is not 0 and differs from the old one '
                          '(6 combinations of old / new)', floor=6)
    um = repo.module('pharmpy.model.external.nonmem.update')
    f = um.functions.get('update_lag_time')
    if f is None:
        raise AnalysisError('B24: update_lag_time not found')
    cfg = CFG(f.node)
    # the node that creates the ALAG assignment, and the tests that control it
    mk = [n for n in cfg.nodes.values() if n.ast is not None and n.kind == 'stmt' and any(
        isinstance(c, ast.Call) and dotted(c.func) == 'Assignment' and c.args and 'ALAG' in unparse(c.args[0])
        for c in ast.walk(n.ast))]
    if not mk:
        raise AnalysisError('B24: the ALAG assignment is not created in update_lag_time')
    # names of the two lag times by what they are read from
    def origin(name):
        vs = reach.values(cfg, mk[0].id, name) or []
        return unparse(vs[0][1]) if len(vs) == 1 else ''
    tests = [t for t in cfg.nodes.values() if t.kind == 'test' and (
        cfg.edge_dominates(t.id, 'true', mk[0].id) or cfg.edge_dominates(t.id, 'false', mk[0].id))]
    if not tests:
        raise AnalysisError('B24: the ALAG assignment is unconditional')
    names_ = {x.id for t in tests for x in ast.walk(t.ast) if isinstance(x, ast.Name)}
    old_n = {n for n in names_ if origin(n).startswith('old') and 'lag_time' in origin(n)}
    new_n = {n for n in names_ if 'lag_time' in origin(n) and not origin(n).startswith('old')}
    if not old_n or not new_n:
        raise AnalysisError(f'B24: old / new lag time not identified among {sorted(names_)}')
    import sympy
    A, B = sympy.Symbol('MDT_A'), sympy.Symbol('MDT_B')
    for old, new in itertools.product((0, A), (0, A, B)):
        env = {**{n: old for n in old_n}, **{n: new for n in new_n}}
        written = True
        try:
            for t in tests:
                v = bool(T_.eval_pred(t.ast, env))
                if not (v if cfg.edge_dominates(t.id, 'true', mk[0].id) else not v):
                    written = False
        except T_.Undecidable as e:
            raise AnalysisError(f'B24: cannot evaluate the guard of the ALAG assignment: {e}')
        want = new != 0 and new != old
        chk.instance(B24, f'old lag {old}, new lag {new}: ALAG written {written} (expected {want})')
        if written != want:
            chk.violation(B24, um.rel, f.qualname, f'old lag time {old}, new lag time {new}: written={written}',
                          'the model has the new lag time while the generated $PK ' + (
                              'has no ALAG1 at all (add_lag_time removed the old assignment)' if want else
                              'gets an ALAG1 assignment that is not wanted'), line=tests[0].line,
                          witness='add_lag_time twice (or on a model that defines ALAG1 itself): the model has lag_time=MDT '
                                  'with its theta, the code has no ALAG1')


def run_b25(chk, repo):
    """B25: pk_param_conversion renames the general-linear micro-constants Kij (ADVAN5/7) from the old to the new compartment
    numbering in a loop over (source i, destination j). oldmap holds every compartment plus OUTPUT (n + 1 entries): the source
    index must run over all n compartments, 1 .. len(oldmap) - 1, i.e. the stop of its range is len(oldmap); the destination
    index runs over 0 .. len(oldmap) - 1. A shorter source range leaves the rate constants of the last compartment stale."""
    import sympy
    B25 = chk.rule('B25', 'pk_param_conversion: the Kij rename loop visits every old compartment as source (range stop = '
                          'len(oldmap)) and 0..n as destination', floor=2)
    um = repo.module('pharmpy.model.external.nonmem.update')
    f = um.functions.get('pk_param_conversion')
    if f is None:
        raise AnalysisError('B25: pk_param_conversion not found')
    defs = {}
    for a_ in ast.walk(f.node):
        if isinstance(a_, ast.Assign) and len(a_.targets) == 1 and isinstance(a_.targets[0], ast.Name):
            defs.setdefault(a_.targets[0].id, []).append(a_.value)

    def norm(e, depth=0):
        """the stop expression as a sympy polynomial in L = len(<map with OUTPUT>)"""
        if isinstance(e, ast.Constant) and isinstance(e.value, int):
            return sympy.Integer(e.value)
        if isinstance(e, ast.Call) and dotted(e.func) == 'len' and len(e.args) == 1:
            return sympy.Symbol('len_' + unparse(e.args[0]))
        if isinstance(e, ast.BinOp) and isinstance(e.op, (ast.Add, ast.Sub)):
            l_, r_ = norm(e.left, depth), norm(e.right, depth)
            if l_ is None or r_ is None:
                return None
            return l_ + r_ if isinstance(e.op, ast.Add) else l_ - r_
        if isinstance(e, ast.Name) and len(defs.get(e.id, [])) == 1 and depth < 4:
            return norm(defs[e.id][0], depth + 1)
        return None
    loops = []
    for L in ast.walk(f.node):
        if isinstance(L, ast.For) and isinstance(L.target, ast.Tuple) and len(L.target.elts) == 2 \
                and isinstance(L.iter, ast.Call) and (dotted(L.iter.func) or '').split('.')[-1] == 'product' and len(L.iter.args) == 2 \
                and all(isinstance(r_, ast.Call) and dotted(r_.func) == 'range' for r_ in L.iter.args) \
                and any(isinstance(j_, ast.JoinedStr) and unparse(j_).startswith("f'K{") for j_ in ast.walk(L)):
            loops.append(L)
    if not loops:
        raise AnalysisError('B25: the product(range, range) loop that renames K{i}{j} was not found in pk_param_conversion')
    for L in loops:
        for role, r_, start_expected in (('source', L.iter.args[0], 1), ('destination', L.iter.args[1], 0)):
            args = r_.args
            start = norm(args[0]) if len(args) >= 2 else sympy.Integer(0)
            stop = norm(args[1] if len(args) >= 2 else args[0])
            if stop is None or start is None:
                raise AnalysisError(f'B25: cannot normalise {unparse(r_)}')
            syms = sorted(stop.free_symbols, key=str)
            ok = len(syms) == 1 and stop - syms[0] == 0 and start == start_expected
            chk.instance(B25, f'pk_param_conversion: {role} index in {unparse(r_)} = [{start}, {stop}): {ok}')
            if not ok:
                chk.violation(B25, um.rel, f.qualname, f'{role}: {unparse(r_)} = [{start}, {stop})',
                              f'the {role} index does not cover every compartment of the old numbering (expected '
                              f'[{start_expected}, len(oldmap)) with OUTPUT included in oldmap)', line=r_.lineno,
                              witness='set_first_order_absorption; set_transit_compartments(2); add_peripheral_compartment; '
                                      'set_transit_compartments(1): $PK keeps the stale K54 and omits K43')
