"""C19 Ranking, criteria and statistics follow their definitions: N1 documented formula <-> code, N2 clone
consistency of per-kind strictness variables, N3 LRT orientation and cut-off sign table, N4 penalties applied
before the cut-off comparison, N5 delta-method gradient/covariance pairing."""
from __future__ import annotations

import ast
import re

import sympy

from sa.cfg import CFG
from sa.report import AnalysisError
from sa.srcmodel import unparse, walk_no_nested, calls_in, dotted

RES = 'pharmpy.modeling.results'
LRT = 'pharmpy.modeling.lrt'
RUN = 'pharmpy.tools.run'
SYM = {n: sympy.Symbol(n) for n in ['LL2', 'n_estimated_parameters', 'n_observations', 'n_individuals',
                                    'n_random_parameters', 'n_fixed_parameters', 'n_estimated_iiv_omega_parameters']}


def names(node):
    return {n.id for n in ast.walk(node) if isinstance(n, ast.Name)}


def parse_doc_formula(txt: str):
    """'-2LL + n_random_parameters * log(n_individuals) + ...' -> sympy"""
    t = txt.replace('-2LL', 'LL2').replace('|', ' ')
    t = re.sub(r'\s+', ' ', t).strip()
    loc = dict(SYM)
    loc['log'] = sympy.log
    return sympy.sympify(t, locals=loc)


def code_to_sympy(node, env):
    """python expression of the criteria functions -> sympy with the idiom table"""
    if isinstance(node, ast.Constant) and isinstance(node.value, (int, float)):
        return sympy.Integer(node.value) if isinstance(node.value, int) else sympy.Float(node.value)
    if isinstance(node, ast.Name):
        if node.id in env:
            v = env[node.id]
            return v if not isinstance(v, ast.AST) else code_to_sympy(v, env)
        raise AnalysisError(f'N1: unbound name {node.id} in criterion expression')
    if isinstance(node, ast.BinOp):
        a, b = code_to_sympy(node.left, env), code_to_sympy(node.right, env)
        if isinstance(node.op, ast.Add):
            return a + b
        if isinstance(node.op, ast.Sub):
            return a - b
        if isinstance(node.op, ast.Mult):
            return a * b
        if isinstance(node.op, ast.Div):
            return a / b
    if isinstance(node, ast.Call):
        fn = dotted(node.func)
        if fn in ('math.log', 'np.log', 'log'):
            return sympy.log(code_to_sympy(node.args[0], env))
        if fn == 'len' and node.args:
            a = node.args[0]
            while isinstance(a, ast.Name) and isinstance(env.get(a.id), ast.AST):
                a = env[a.id]
            txt = unparse(a)
            # idiom table (one line of reason each)
            if txt == 'get_observations(model)':
                return SYM['n_observations']          # one row per observation record
            if txt == 'get_ids(model)':
                return SYM['n_individuals']           # list of subject identifiers
            if txt == 'model.parameters.nonfixed':
                return SYM['n_estimated_parameters']  # estimated = not fixed
            if isinstance(a, ast.Name) and a.id in env and isinstance(env[a.id], str):
                return SYM[env[a.id]]
    raise AnalysisError(f'N1: unsupported criterion expression {unparse(node)[:80]}')


def run(chk, repo, tier):
    run_n15(chk, repo)       # before N9, whose evaluator gives up (exit 2) on sort keys it cannot execute
    run_n12(chk, repo)       # first: N1 below gives up (exit 2) on a counting idiom it does not know
    chk.explanation = (
        'N1: the expression returned by calculate_aic and by each branch of calculate_bic, with the counting idioms '
        'mapped to named counts, equals the formula documented in the docstring (parsed and compared algebraically). '
        'N2: sibling definitions of per-kind strictness variables (theta/omega/sigma) use their own kind in every '
        'position. N3: LRT orientation: dofv = parent - child, df = |child| - |parent|, the cut-off is +chi2 for df>0, '
        '-chi2(-df) for df<0 and 0 for df=0. N4: the penalty is added to a candidate\'s rank value before it is compared '
        'with the (penalised) reference. N5: the delta-method gradient and the covariance sub-matrix are ordered by the '
        'same list of names. NOT decided: bootstrap/cdd/shrinkage numerics, rank ties and filtering on run-time values.')
    N1 = chk.rule('N1', 'documented criterion formula == returned expression', floor=5)
    N2 = chk.rule('N2', 'per-kind strictness variables use their own kind in every hole (clone consistency)', floor=9)
    N3 = chk.rule('N3', 'LRT orientation and cut-off sign table', floor=5)
    N4 = chk.rule('N4', 'penalty added before the cut-off comparison', floor=1)
    N5 = chk.rule('N5', 'delta method: gradient and covariance sub-matrix ordered by the same name list', floor=1)

    rm = repo.module(RES)
    # ---------------------------------------------------------------- N1
    aic = rm.functions.get('calculate_aic')
    bic = rm.functions.get('calculate_bic')
    if aic is None or bic is None:
        raise AnalysisError('calculate_aic / calculate_bic not found')

    def doc_formulas(f):
        doc = ast.get_docstring(f.node) or ''
        out = {}
        lines = doc.split('\n')
        cur = None
        buf = []
        for ln in lines:
            m = re.match(r'\s*\*\s*\|\s*(\w+)', ln)
            if m:
                cur = m.group(1)
                continue
            m2 = re.match(r'\s*\|?\s*(?:AIC|BIC)\s*=\s*(.*)', ln)
            if m2:
                buf = [m2.group(1)]
                out[cur or 'default'] = buf
                continue
            m3 = re.match(r'\s*\|\s+(.*\S)', ln)
            if m3 and buf is not None and (cur or 'default') in out and not re.match(r'\s*\*', ln):
                out[cur or 'default'].append(m3.group(1))
        return {k: ' '.join(v) for k, v in out.items()}
    # AIC
    fa = doc_formulas(aic)
    env = {'likelihood': SYM['LL2']}
    for n in walk_no_nested(aic.node):
        if isinstance(n, ast.Assign) and isinstance(n.targets[0], ast.Name):
            if unparse(n.value) == 'model.parameters.nonfixed':
                env[n.targets[0].id] = 'n_estimated_parameters'     # estimated = not fixed
    ret = [n.value for n in walk_no_nested(aic.node) if isinstance(n, ast.Return)]
    if not fa or len(ret) != 1:
        raise AnalysisError('N1: AIC docstring formula / return not found')
    want = parse_doc_formula(list(fa.values())[0])
    got = code_to_sympy(ret[0], env)
    chk.instance(N1, f'AIC: doc {want} code {got}')
    if sympy.simplify(want - got) != 0:
        chk.violation(N1, rm.rel, 'calculate_aic', f'return {unparse(ret[0])}', f'the docstring defines AIC = {want}',
                      line=aic.node.lineno, witness='any model: the reported AIC differs from -2LL + 2*(number of estimated '
                                                    'parameters); ranking by AIC changes')
    # BIC: the function body is interpreted for each documented type (constant dispatch on `type`, straight-line
    # assignments, counting idioms), whatever locals / helpers the computation is split into
    fb = doc_formulas(bic)
    from rules.C02 import eval_cond
    cat = rm.functions.get('_categorize_parameters')
    cat_ret = [unparse(n.value) for n in walk_no_nested(cat.node) if isinstance(n, ast.Return)] if cat else []

    def expand(node, env, depth=6):
        """node with local names replaced by the expressions bound to them (for idiom matching)"""
        import copy

        class T(ast.NodeTransformer):
            def visit_Name(self, n):
                v = env.get(n.id)
                if isinstance(v, ast.AST) and depth > 0:
                    return expand(v, env, depth - 1)
                return n
        return T().visit(copy.deepcopy(node))

    def count_idiom(v, env):
        """named count for len(<collection>) / sum(1 for ...), or None"""
        coll = None
        if isinstance(v, ast.Call) and dotted(v.func) == 'len' and v.args:
            coll = v.args[0]
        elif isinstance(v, ast.Call) and dotted(v.func) == 'sum' and v.args \
                and isinstance(v.args[0], (ast.GeneratorExp, ast.ListComp)) \
                and isinstance(v.args[0].elt, ast.Constant) and v.args[0].elt.value == 1:
            coll = v.args[0]
        if coll is None:
            return None
        if isinstance(coll, ast.Name) and isinstance(env.get(coll.id), str):
            return SYM[env[coll.id]]
        x = expand(coll, env)
        txt = unparse(x)
        if txt == 'get_ids(model)':
            return SYM['n_individuals']             # list of subject identifiers
        if txt == 'get_observations(model)':
            return SYM['n_observations']            # one row per observation record
        if txt == 'model.parameters.nonfixed':
            return SYM['n_estimated_parameters']    # estimated = not fixed
        if isinstance(x, (ast.GeneratorExp, ast.ListComp)) and len(x.generators) == 1:
            g = x.generators[0]
            memb = [unparse(i.comparators[0]) for i in g.ifs if isinstance(i, ast.Compare) and len(i.ops) == 1
                    and isinstance(i.ops[0], ast.In) and unparse(i.left) == unparse(g.target)]
            nonfixed = [m_ for m_ in memb if m_ in ('model.parameters.nonfixed', 'parameters')
                        or (m_ in env and env[m_] == 'n_estimated_parameters')]
            if 'iiv.parameter_names' in unparse(g.iter) and len(g.ifs) == 1 and nonfixed:
                return SYM['n_estimated_iiv_omega_parameters']   # iiv omegas that are estimated
        raise AnalysisError(f'N1: unknown count idiom {txt[:60]}')

    def interp(stmts, env, kind):
        for i, s_ in enumerate(stmts):
            if isinstance(s_, ast.If):
                v = eval_cond(s_.test, {'type': kind})
                if v is None:
                    raise AnalysisError(f'N1: undecidable test in calculate_bic: {unparse(s_.test)[:60]}')
                return interp(list(s_.body if v else s_.orelse) + list(stmts[i + 1:]), env, kind)
            if isinstance(s_, ast.Return):
                return code_to_sympy(s_.value, env) if s_.value is not None else None
            if isinstance(s_, ast.Raise):
                return None
            if isinstance(s_, ast.Assign) and len(s_.targets) == 1:
                tg, v = s_.targets[0], s_.value
                if isinstance(tg, ast.Tuple) and cat is not None and dotted(getattr(v, 'func', None)) in ('_categorize_parameters', cat.name):
                    order = cat_ret[0] if cat_ret else ''
                    for e, part in zip(tg.elts, [p_.strip() for p_ in order.strip('()').split(',')]):
                        role = 'n_fixed_parameters' if part.startswith('fixed') else (
                            'n_random_parameters' if part.startswith('rand') else None)
                        if role and isinstance(e, ast.Name):
                            env[e.id] = role
                elif isinstance(tg, ast.Name):
                    if unparse(v) == 'model.parameters.nonfixed':
                        env[tg.id] = 'n_estimated_parameters'
                    else:
                        c_ = count_idiom(v, env)
                        env[tg.id] = c_ if c_ is not None else v
        return None
    kinds = sorted(k for k in fb if k != 'default')
    if len(kinds) < 4:
        raise AnalysisError('N1: BIC branches / return not found')
    body_b = [s_ for s_ in bic.node.body if not (isinstance(s_, ast.Expr) and isinstance(s_.value, ast.Constant))]
    for kind in kinds:
        got = interp(body_b, {'likelihood': SYM['LL2']}, kind)
        want = parse_doc_formula(fb.get(kind, '0'))
        chk.instance(N1, f'BIC {kind}: doc {want} code {got}')
        if got is None or sympy.simplify(want - got) != 0:
            chk.violation(N1, rm.rel, 'calculate_bic', f'type={kind}: {got}', f'the docstring defines BIC({kind}) = {want}',
                          line=bic.node.lineno,
                          witness=f'a model with different numbers of individuals and observations: BIC({kind}) is computed '
                                  f'with the wrong count / factor and candidates are ranked differently')

    # ---------------------------------------------------------------- N2
    tm = repo.module(RUN)
    isf = tm.functions.get('is_strictness_fulfilled')
    if isf is None:
        raise AnalysisError('is_strictness_fulfilled not found')
    KINDS = ('theta', 'omega', 'sigma')
    families = {}
    for n in ast.walk(isf.node):
        if isinstance(n, ast.Assign) and isinstance(n.targets[0], ast.Name):
            nm = n.targets[0].id
            for k in KINDS:
                if nm.endswith('_' + k):
                    families.setdefault(nm[:-len(k) - 1], {})[k] = n.value
    if len(families) < 3:
        raise AnalysisError(f'N2: only {len(families)} per-kind variable families found')
    for fam, members in sorted(families.items()):
        for k, v in sorted(members.items()):
            # the getter of the kind, called here or handed to a local helper as a function (of_kind(ser, get_thetas))
            getters = re.findall(r'get_(thetas|omegas|sigmas)\b', unparse(v))
            chk.instance(N2, f'{fam}_{k}: uses {getters}')
            wrong = [g for g in getters if g != k + 's']
            if wrong or not getters:
                chk.violation(N2, tm.rel, 'is_strictness_fulfilled', f'{fam}_{k} = {unparse(v)[:120]}',
                              f'the {k} variant of `{fam}` selects rows with get_{wrong[0] if wrong else "?"}(model)',
                              line=v.lineno,
                              witness=f'a strictness expression using {fam}_{k} on results where only a {k.upper()} '
                                      f'value is missing/zero: the criterion looks at the wrong parameters and a failed '
                                      f'candidate is ranked')
        # structural equality of the siblings modulo the kind
        norm = {k: re.sub(r'get_(thetas|omegas|sigmas)', 'get_K', unparse(v)) for k, v in members.items()}
        if len(set(norm.values())) > 1:
            chk.violation(N2, tm.rel, 'is_strictness_fulfilled', f'{fam}_*: siblings differ beyond the kind',
                          'the three per-kind definitions are not the same expression up to the parameter kind',
                          line=list(members.values())[0].lineno,
                          witness='the same strictness criterion means different things for THETA, OMEGA and SIGMA')

    # ---------------------------------------------------------------- N3
    lm = repo.module(LRT)
    dfn = lm.functions.get('degrees_of_freedom')
    rets = [unparse(n.value) for n in walk_no_nested(dfn.node) if isinstance(n, ast.Return)] if dfn else []
    chk.instance(N3, f'degrees_of_freedom returns {rets}')
    if rets != ['len(child_parameters) - len(parent_parameters)']:
        chk.violation(N3, lm.rel, 'degrees_of_freedom', str(rets), 'df must be |child| - |parent|',
                      witness='forward steps get negative degrees of freedom: every extension is accepted/rejected with the '
                              'backward rule')
    for fname, a, b in (('p_value', 'reduced_ofv', 'extended_ofv'), ('test', 'parent_ofv', 'child_ofv')):
        f = lm.functions.get(fname)
        d = [unparse(n.value) for n in walk_no_nested(f.node) if isinstance(n, ast.Assign)
             and unparse(n.targets[0]) == 'dofv'] if f else []
        chk.instance(N3, f'{fname}: dofv = {d}')
        if d != [f'{a} - {b}']:
            chk.violation(N3, lm.rel, fname, str(d), f'dofv must be {a} - {b}',
                          witness='a child with a lower OFV than its parent is rejected and a worse one accepted')
    tf = lm.functions.get('test')
    cmp_ok = any(isinstance(n, ast.Compare) and unparse(n.left) == 'dofv' and isinstance(n.ops[0], ast.GtE)
                 and 'cutoff(parent, child, alpha)' in unparse(n.comparators[0]) for n in ast.walk(tf.node))
    chk.instance(N3, f'test: dofv >= cutoff(parent, child, alpha): {cmp_ok}')
    if not cmp_ok:
        chk.violation(N3, lm.rel, 'test', 'comparison with the cut-off', 'the test must be dofv >= cutoff(parent, child, alpha)',
                      witness='the accepted region of the likelihood ratio test is inverted or uses swapped models')
    co = lm.functions.get('cutoff')
    if co is None:
        raise AnalysisError('lrt.cutoff not found')
    # evaluate the sign structure symbolically: replace chi2.isf(q, df=X) by Q(X)
    Q = sympy.Function('Q')
    dfs = sympy.Symbol('df')

    def sgn(e):
        if isinstance(e, ast.IfExp):
            return ('if', unparse(e.test), sgn(e.body), sgn(e.orelse))
        if isinstance(e, ast.Constant):
            return ('const', e.value)
        if isinstance(e, ast.UnaryOp) and isinstance(e.op, ast.USub):
            inner = sgn(e.operand)
            return ('neg', inner)
        if isinstance(e, ast.Call) and dotted(e.func) in ('float', 'abs') and e.args:
            return sgn(e.args[0]) if dotted(e.func) == 'float' else ('abs', sgn(e.args[0]))
        if isinstance(e, ast.Call) and (dotted(e.func) or '').endswith('chi2.isf'):
            dfarg = next((kw.value for kw in e.keywords if kw.arg == 'df'), e.args[1] if len(e.args) > 1 else None)
            return ('isf', unparse(dfarg) if dfarg is not None else '?')
        return ('?', unparse(e))
    table = {}
    body_rets = [n for n in walk_no_nested(co.node) if isinstance(n, ast.Return)]
    ifs = [n for n in walk_no_nested(co.node) if isinstance(n, ast.If)]

    def evaluate(e, dfval):
        k = e[0]
        if k == 'if':
            cond = e[1].replace(' ', '')
            val = {'df==0': dfval == 0, 'df>0': dfval > 0, 'df<0': dfval < 0, 'df>=0': dfval >= 0, 'df<=0': dfval <= 0,
                   'df!=0': dfval != 0}.get(cond)
            if val is None:
                raise AnalysisError(f'N3: unknown condition {e[1]} in cutoff')
            return evaluate(e[2] if val else e[3], dfval)
        if k == 'const':
            return ('const', e[1])
        if k == 'neg':
            v = evaluate(e[1], dfval)
            return ('neg',) + v if v[0] != 'neg' else v[1:]
        if k == 'isf':
            arg = e[1].replace(' ', '')
            n_ = {'df': dfval, '-df': -dfval, 'abs(df)': abs(dfval)}.get(arg)
            return ('isf', n_)
        return e
    # statement form: if df == 0: return 0 ; return ...
    expr_tree = None
    if len(body_rets) == 1 and not ifs:
        expr_tree = sgn(body_rets[0].value)
    else:
        # build a chain from if statements followed by a final return
        chain = None
        stmts = [s for s in co.node.body if isinstance(s, (ast.If, ast.Return))]
        for s in reversed(stmts):
            if isinstance(s, ast.Return):
                chain = sgn(s.value)
            elif isinstance(s, ast.If) and len(s.body) == 1 and isinstance(s.body[0], ast.Return):
                other = chain if not s.orelse else (sgn(s.orelse[0].value) if isinstance(s.orelse[0], ast.Return) else chain)
                chain = ('if', unparse(s.test), sgn(s.body[0].value), other)
        expr_tree = chain
    if expr_tree is None:
        raise AnalysisError('N3: cannot extract the cut-off expression')
    want = {2: ('isf', 2), 0: ('const', 0), -3: ('neg', 'isf', 3)}
    for dfval, w in want.items():
        got = evaluate(expr_tree, dfval)
        chk.instance(N3, f'cutoff for df={dfval}: {got}')
        if tuple(got) != w:
            chk.violation(N3, lm.rel, 'cutoff', f'df={dfval}: {got}',
                          f'the cut-off for df={dfval} must be {w} (chi-square quantile with |df|, negative for backward steps)',
                          line=co.node.lineno,
                          witness='a backward step (child with fewer parameters): the reduced model must now improve the OFV '
                                  'by the chi-square quantile instead of being accepted unless significantly worse')

    # ---------------------------------------------------------------- N4
    rk = tm.functions.get('rank_models')
    if rk is None:
        raise AnalysisError('rank_models not found')
    cfg = CFG(rk.node)
    cmps = [n for n in cfg.nodes.values() if n.kind == 'test' and 'ref_value - rank_value' in unparse(n.ast)]
    pens = [n for n in cfg.nodes.values() if isinstance(n.ast, ast.AugAssign) and unparse(n.ast.target) == 'rank_value'
            and 'penalties' in unparse(n.ast.value)]
    pen_tests = [n for n in cfg.nodes.values() if n.kind == 'test' and unparse(n.ast) == 'penalties'
                 and any(p.id in set(cfg.succ(n.id, ['true'])) for p in pens)]
    ref_pen = any(isinstance(n.ast, ast.AugAssign) and unparse(n.ast.target) == 'ref_value' for n in cfg.nodes.values())
    if not cmps:
        raise AnalysisError('N4: cut-off comparison not found in rank_models')
    if not pens and ref_pen:
        chk.instance(N4, 'candidate rank values are never penalised although the reference is')
        chk.violation(N4, tm.rel, 'rank_models', 'rank_value never penalised',
                      'the reference value gets its penalty but the candidates do not', line=rk.node.lineno,
                      witness='rank_models with penalties: deltas are off by the reference penalty, candidates pass the '
                              'cut-off that they should fail')
    for c in cmps:
        ok = any(cfg.dominates(t.id, c.id) for t in pen_tests)
        chk.instance(N4, f'`{c.text()}` after the penalty step: {ok} (reference penalised: {ref_pen})')
        if ref_pen and not ok:
            chk.violation(N4, tm.rel, 'rank_models', c.text(),
                          'the cut-off compares the penalised reference with an unpenalised candidate value', line=c.line,
                          witness='rank_models with both penalties and cutoff where the penalty moves a candidate across the '
                                  'cut-off: it stays ranked (and may be reported best)')

    # ---------------------------------------------------------------- N5
    mm = repo.module('pharmpy.internals.math')
    sd = mm.functions.get('se_delta_method')
    if sd is None:
        raise AnalysisError('se_delta_method not found')
    grad_src = None
    for n in walk_no_nested(sd.node):
        if isinstance(n, ast.Assign) and isinstance(n.value, ast.ListComp) and 'diff' in unparse(n.value.elt):
            grad_src = unparse(n.value.generators[0].iter)
    cov_defs = [unparse(n.value) for n in walk_no_nested(sd.node) if isinstance(n, ast.Assign)
                and unparse(n.targets[0]) == 'cov']
    if grad_src is None:
        raise AnalysisError('N5: gradient comprehension not found')
    ok = any(d.replace(' ', '') in (f'cov[{grad_src}].loc[{grad_src}]', f'cov.loc[{grad_src},{grad_src}]',
                                    f'cov.loc[{grad_src}][{grad_src}]', f'cov.reindex(index={grad_src},columns={grad_src})')
             for d in cov_defs)
    chk.instance(N5, f'gradient over `{grad_src}`; covariance sub-matrix {cov_defs}')
    if not ok:
        chk.violation(N5, mm.rel, 'se_delta_method', f'cov = {cov_defs}',
                      f'the covariance sub-matrix is not re-indexed by the same list `{grad_src}` that orders the gradient',
                      line=sd.node.lineno,
                      witness='an expression of two parameters whose order in the covariance matrix is not the order of the '
                              'gradient list (THETA before OMEGA vs alphabetical): sqrt(g\' C g) pairs gradient components '
                              'with the wrong rows')
    run_more(chk, repo)
    run_n8(chk, repo)
    run_n9_n11(chk, repo)
    run_n13(chk, repo)
    run_n14(chk, repo)


def run_more(chk, repo):
    N6 = chk.rule('N6', 'rank_models: the reference model that selects the LRT cut-off (forward/backward) is the one the '
                        'test is run against', floor=3)
    N7 = chk.rule('N7', 'mixed BIC categories: what is removed from the fixed group is what is added to the random group',
                  floor=2)
    rm = repo.module('pharmpy.tools.run')
    f = rm.functions.get('rank_models')
    if f is None:
        raise AnalysisError('rank_models not found')
    refs = {}
    for c in calls_in(f.node):
        fn = dotted(c.func) or ''
        if fn in ('lrt_df', 'lrt_test', 'lrt_p_value') and len(c.args) >= 2:
            refs.setdefault((unparse(c.args[0]), unparse(c.args[1])), []).append(c)
    if sum(len(v) for v in refs.values()) < 2 or not any(dotted(c.func) == 'lrt_test' for v in refs.values() for c in v):
        raise AnalysisError(f'N6: LRT calls of rank_models not recognised ({list(refs)})')
    for (a, b), cs in sorted(refs.items()):
        chk.instance(N6, f'rank_models: {len(cs)} LRT call(s) on ({a}, {b})', n=len(cs))
    if len(refs) > 1:
        main = max(refs, key=lambda k: any(dotted(c.func) == 'lrt_test' for c in refs[k]))
        for k, cs in refs.items():
            if k != main:
                chk.violation(N6, rm.rel, 'rank_models', f'{unparse(cs[0])} vs test on {main}',
                              f'the direction (added or removed parameters) is taken from the pair {k} but the likelihood '
                              f'ratio test compares {main}', line=cs[0].lineno,
                              witness='base 6, parent 8, child 7 parameters and a dOFV between the two cut-offs: the backward step '
                                      'is judged with the forward p-value')
    mm = repo.module('pharmpy.modeling.results')
    g = mm.functions.get('_categorize_parameters')
    if g is None:
        raise AnalysisError('_categorize_parameters not found')
    n7 = 0
    for blk in [n for n in ast.walk(g.node) if isinstance(n, ast.If)]:
        for body in (blk.body, blk.orelse):
            subs_ = [s_ for s_ in body if isinstance(s_, ast.AugAssign) and isinstance(s_.op, ast.Sub)
                     and isinstance(s_.target, ast.Name)]
            adds = [s_ for s_ in body if isinstance(s_, ast.AugAssign) and isinstance(s_.op, ast.BitOr)
                    and isinstance(s_.target, ast.Name)]
            for s1 in subs_:
                for s2 in adds:
                    if s1.target.id == s2.target.id:
                        continue
                    n7 += 1
                    ok = unparse(s1.value) == unparse(s2.value)
                    chk.instance(N7, f'{unparse(s1)} ; {unparse(s2)}: same set {ok}')
                    if not ok:
                        chk.violation(N7, mm.rel, g.name, f'{unparse(s1)} ; {unparse(s2)}',
                                      'a parameter that leaves the fixed group must enter the random group, otherwise it is '
                                      'counted in neither penalty term of the mixed BIC', line=s1.lineno,
                                      witness='a model with IIV on the residual error (eta and epsilon in Y): the sigma is not '
                                              'counted, BIC(mixed) is too low by log(n_individuals)')
    if n7 < 2:
        raise AnalysisError(f'N7: only {n7} move(s) between the groups recognised')


def run_n8(chk, repo):
    N8 = chk.rule('N8', 'bootstrap: parameter estimates of the replicates are combined by label, not by position', floor=1)
    bm = repo.module('pharmpy.tools.bootstrap.results')
    f = bm.functions.get('calculate_results')
    if f is None:
        raise AnalysisError('bootstrap calculate_results not found')
    uses = [n for n in ast.walk(f.node) if isinstance(n, ast.Attribute) and n.attr == 'parameter_estimates']
    if not uses:
        raise AnalysisError('N8: parameter_estimates not used in calculate_results')
    parent = {}
    for n in ast.walk(f.node):
        for c in ast.iter_child_nodes(n):
            parent[c] = n
    bad = []
    for u in uses:
        p = parent.get(u)
        while p is not None and not isinstance(p, ast.stmt):
            if isinstance(p, ast.Call):
                fn = dotted(p.func) or ''
                if fn.split('.')[-1] in ('vstack', 'array', 'stack', 'asarray', 'column_stack', 'hstack') \
                        or (isinstance(p.func, ast.Attribute) and p.func.attr in ('to_numpy',)):
                    bad.append((p, fn))
            if isinstance(p, ast.Attribute) and p.attr == 'values' and p.value is u:
                bad.append((p, '.values'))
            p = parent.get(p)
    chk.instance(N8, f'calculate_results: {len(uses)} uses of replicate.parameter_estimates; label-dropping combinations: '
                     f'{[b[1] for b in bad]}')
    for p, fn in bad[:1]:
        chk.violation(N8, bm.rel, 'calculate_results', unparse(p)[:100],
                      f'{fn} drops the parameter labels of the Series: replicates whose estimates are listed in another order '
                      f'are combined by position', line=p.lineno,
                      witness='one bootstrap replicate that lists SIGMA before the OMEGAs: its sigma is averaged with the others\' '
                              'omegas in mean, bias, stderr and percentiles')


def run_n9_n11(chk, repo):
    """N9: competition ranking (rank = 1 + number of strictly better models) of the ranking loop, evaluated on small value
    lists; N10: the strictness evaluator compares element-wise; N11: each term of the mBIC penalty uses p-quantities or
    q-quantities, not a mixture"""
    from sa import iterspace as IS, reach
    tm = repo.module(RUN)
    N9 = chk.rule('N9', 'rank_models: ties share a rank and the next rank skips them (1 + number of strictly better models), '
                        'evaluated on value lists with ties of two and three', floor=3)
    rk = tm.functions.get('rank_models')
    if rk is None:
        raise AnalysisError('rank_models not found')
    def rank_store(L):
        # D[...] = r where r is a counter advanced in this loop
        counters = {a.target.id for a in ast.walk(L) if isinstance(a, ast.AugAssign) and isinstance(a.target, ast.Name)}
        return next((a for a in L.body if isinstance(a, ast.Assign) and isinstance(a.targets[0], ast.Subscript)
                     and isinstance(a.value, ast.Name) and a.value.id in counters), None)
    def has_prev_test(L):
        # `if value != prev:` ... `prev = value`
        for c in ast.walk(L):
            if isinstance(c, ast.Compare) and len(c.ops) == 1 and isinstance(c.ops[0], (ast.NotEq, ast.Eq)) \
                    and isinstance(c.left, ast.Name) and isinstance(c.comparators[0], ast.Name):
                a_, b_ = c.left.id, c.comparators[0].id
                if any(isinstance(x, ast.Assign) and isinstance(x.targets[0], ast.Name) and isinstance(x.value, ast.Name)
                       and {x.targets[0].id, x.value.id} == {a_, b_} for x in ast.walk(L)):
                    return True
        return False
    loops = [L for L in ast.walk(rk.node) if isinstance(L, ast.For) and rank_store(L) is not None and has_prev_test(L)]
    if not loops:
        raise AnalysisError('N9: ranking loop of rank_models not found')
    L = loops[0]
    store = rank_store(L)
    rankdict = unparse(store.targets[0].value)
    # initialisations directly before the loop (rank, count, prev = 0, 0, None)
    body = None
    for parent in ast.walk(rk.node):
        for fld in ('body', 'orelse'):
            b = getattr(parent, fld, None)
            if isinstance(b, list) and L in b:
                i = b.index(L)
                body = [s_ for s_ in b[max(0, i - 4):i] if isinstance(s_, ast.Assign) and not isinstance(
                    s_.value, (ast.Call, ast.ListComp, ast.DictComp))] + [L]
    if body is None:
        raise AnalysisError('N9: statements around the ranking loop not found')
    stub_names = {c.func.id for c in ast.walk(L) if isinstance(c, ast.Call) and isinstance(c.func, ast.Name)}
    for values in ([10, 20, 20, 30], [10, 20, 20, 20, 30, 40], [5, 5, 7]):
        # the loop runs over the models from best to worst: the list given is in that order
        want = [1 + sum(1 for w in values[:i] if w != v) for i, v in enumerate(values)]
        if isinstance(L.target, ast.Tuple) and len(L.target.elts) == 2:
            items = [(f'm{i}', v) for i, v in enumerate(values)]
        else:
            items = [{'name': f'm{i}', 'value': v} for i, v in enumerate(values)]
        env = {unparse(L.iter): items, rankdict: {}}
        for sn in stub_names:
            env[sn] = lambda m: m['value'] if isinstance(m, dict) else m[1]
        try:
            out = IS.run_tail(body, env)
        except (IS.Unknown, KeyError, TypeError) as e:
            raise AnalysisError(f'N9: ranking loop not evaluable: {type(e).__name__} {e}')
        got = [out[rankdict].get(f'm{i}') for i in range(len(values))]
        chk.instance(N9, f'values {values}: ranks {got} (wanted {want})')
        if got != want:
            chk.violation(N9, tm.rel, rk.name, f'values {values}: ranks {got}',
                          f'a model\'s rank must be 1 + the number of strictly better models ({want})', line=L.lineno,
                          witness='three candidates with exactly the same criterion value and one worse model: the worse model '
                                  'gets a rank that is too small')
    N10 = chk.rule('N10', 'ArrayEvaluator: every comparison holds element-wise (all(e <op> value for e in x)), so that a NaN '
                          'element fails it', floor=4)
    ae = tm.classes.get('ArrayEvaluator')
    if ae is None:
        raise AnalysisError('ArrayEvaluator not found')
    OPS = {'__lt__': ast.Lt, '__le__': ast.LtE, '__gt__': ast.Gt, '__ge__': ast.GtE, '__eq__': ast.Eq}
    for name, op in OPS.items():
        f = ae.methods.get(name)
        if f is None:
            continue
        rets = [r.value for r in ast.walk(f.node) if isinstance(r, ast.Return) and r.value is not None]
        ok = False
        for r in rets:
            if isinstance(r, ast.Call) and (getattr(r.func, 'id', '') == 'all' or (
                    isinstance(r.func, ast.Attribute) and r.func.attr == 'all')):
                cmps = [c for c in ast.walk(r) if isinstance(c, ast.Compare) and len(c.ops) == 1 and isinstance(c.ops[0], op)]
                # operator.lt(e, value) is e < value
                opname = {ast.Lt: 'lt', ast.LtE: 'le', ast.Gt: 'gt', ast.GtE: 'ge', ast.Eq: 'eq'}[op]
                cmps += [c for c in ast.walk(r) if isinstance(c, ast.Call) and unparse(c.func) == f'operator.{opname}'
                         and len(c.args) == 2]
                ok = ok or bool(cmps)
        chk.instance(N10, f'ArrayEvaluator.{name}: element-wise all(...) with the matching operator: {ok}')
        if not ok:
            chk.violation(N10, tm.rel, f'ArrayEvaluator.{name}', unparse(rets[0])[:80] if rets else 'no return',
                          'the comparison is not made for every element: max()/min() skip a NaN that is not the first element, '
                          'so a NaN relative standard error passes `rse < x`', line=f.node.lineno,
                          witness='a candidate whose RSE of one omega is NaN fulfils the strictness criterion and is ranked')
    N11 = chk.rule('N11', 'calculate_bic_penalty: each term of the penalty uses the p-quantities (k_p, p, E_p) or the '
                          'q-quantities (k_q, q, E_q), never a mixture', floor=2)
    bp = tm.functions.get('calculate_bic_penalty')
    if bp is None:
        raise AnalysisError('calculate_bic_penalty not found')
    cfg = CFG(bp.node)
    rets = [n for n in cfg.nodes.values() if n.kind == 'return' and n.ast.value is not None]
    if not rets:
        raise AnalysisError('N11: return of calculate_bic_penalty not found')
    e = reach.expand_expr(cfg, rets[-1].id, rets[-1].ast.value)

    def terms(x):
        if isinstance(x, ast.BinOp) and isinstance(x.op, ast.Add):
            return terms(x.left) + terms(x.right)
        return [x]
    ts = terms(e)
    if len(ts) < 2:
        raise AnalysisError(f'N11: penalty is not a sum of two terms: {unparse(e)[:80]}')
    for t in ts:
        kinds = set()
        for x in ast.walk(t):
            if isinstance(x, ast.Name):
                if x.id in ('p', 'q'):
                    kinds.add(x.id)
                elif x.id.endswith(('_p', '_q')):
                    kinds.add(x.id[-1])
        chk.instance(N11, f'term `{unparse(t)[:60]}` uses the {sorted(kinds)} quantities')
        if len(kinds) != 1:
            chk.violation(N11, tm.rel, bp.name, unparse(t)[:80],
                          'the covariance part of the penalty is scaled with the expected number of variances (or the other '
                          'way round)', line=rets[-1].line,
                          witness="search_space=['iiv_diag', 'iiv_block'] with E_p=1, E_q=3: the full block penalty is twice "
                                  "what it should be and the diagonal model is ranked best")


def run_n12(chk, repo):
    """BIC(iiv): the penalty counts the ESTIMATED iiv variance parameters: the count must be restricted to the non-fixed
    parameters"""
    from sa import lints
    N12 = chk.rule('N12', 'calculate_bic type "iiv": the number of omegas depends on the non-fixed parameter list', floor=1)
    rm = repo.module('pharmpy.modeling.results')
    f = rm.functions.get('calculate_bic')
    if f is None:
        raise AnalysisError('calculate_bic not found')
    nonfixed = {a.targets[0].id for a in walk_no_nested(f.node) if isinstance(a, ast.Assign)
                and isinstance(a.targets[0], ast.Name) and 'nonfixed' in unparse(a.value)}
    branch = None
    for I in ast.walk(f.node):
        if isinstance(I, ast.If) and any(isinstance(c, ast.Constant) and c.value == 'iiv' for c in ast.walk(I.test)):
            branch = I.body
    if branch is None or not nonfixed:
        raise AnalysisError(f'N12: branch for type "iiv" / non-fixed parameter list of calculate_bic not found ({sorted(nonfixed)})')
    deps = lints.dependence(branch)
    # what the branch contributes: its last top-level assignment (whatever the variable is called) or its return value
    pen = [a for a in branch if isinstance(a, ast.Assign) and isinstance(a.targets[0], ast.Name)][-1:] or \
          [ast.Assign(targets=[ast.Name(id='<returned>', ctx=ast.Store())], value=r_.value, lineno=r_.lineno)
           for r_ in branch if isinstance(r_, ast.Return) and r_.value is not None][-1:]
    if not pen:
        raise AnalysisError('N12: penalty of the iiv branch not found')
    used = lints.closure(deps, {x.id for x in ast.walk(pen[-1].value) if isinstance(x, ast.Name)})
    direct = {x.id for x in ast.walk(pen[-1].value) if isinstance(x, ast.Name)}
    ok = bool((used | direct) & nonfixed) or 'nonfixed' in unparse(pen[-1].value) or any(
        'nonfixed' in unparse(s_) for s_ in branch)
    chk.instance(N12, f'calculate_bic(iiv): `{unparse(pen[-1])[:60]}` counts among the non-fixed parameters {sorted(nonfixed)}: {ok}')
    if not ok:
        chk.violation(N12, rm.rel, f.name, unparse(pen[-1])[:90],
                      'fixed iiv omegas are counted as estimated: every one adds log(n_individuals) to BIC(iiv)', line=pen[-1].lineno,
                      witness='a candidate with a fixed omega is ranked below an otherwise identical one by iivsearch')


def run_n13(chk, repo):
    """N13: an estimate is "near a bound" iff it is near its finite lower bound OR near its finite upper bound. The decision
    (in _is_close_to_bound, or in check_parameters_near_bounds when the helper was inlined) is evaluated over the 16 combinations
    of (lower finite, upper finite, near lower, near upper): every comparison / call that sets the value against a bound is
    abstracted to one boolean per bound, the tests of a bound against +-infinity are evaluated"""
    import copy
    import itertools
    import math
    from sa import tables as T_
    N13 = chk.rule('N13', 'check_parameters_near_bounds / _is_close_to_bound (behind the estimate_near_boundary* strictness '
                          'terms): the answer is (lower finite and near lower) or (upper finite and near upper) in all 16 cases',
                   floor=16)
    rm = repo.module('pharmpy.modeling.results')
    f = rm.functions.get('_is_close_to_bound')
    if f is not None:
        f = repo.follow_delegation(f)
    else:
        f = rm.functions.get('check_parameters_near_bounds')
    if f is None:
        raise AnalysisError('N13: neither _is_close_to_bound nor check_parameters_near_bounds found')
    pars = {a.value.id for a in ast.walk(f.node) if isinstance(a, ast.Attribute) and a.attr in ('lower', 'upper')
            and isinstance(a.value, ast.Name)}
    pars = {p_ for p_ in pars if {'lower', 'upper'} <= {a.attr for a in ast.walk(f.node) if isinstance(a, ast.Attribute)
                                                          and isinstance(a.value, ast.Name) and a.value.id == p_}}
    if len(pars) != 1:
        raise AnalysisError(f'N13: the parameter whose bounds are tested was not identified ({sorted(pars)})')
    par = next(iter(pars))
    LOW, UP = f'{par}.lower', f'{par}.upper'

    def is_inf(e):
        if isinstance(e, ast.UnaryOp) and isinstance(e.op, ast.USub):
            return is_inf(e.operand)
        if isinstance(e, ast.Constant) and isinstance(e.value, float) and math.isinf(e.value):
            return True
        if isinstance(e, ast.Call) and (dotted(e.func) or '') == 'float' and e.args and isinstance(e.args[0], ast.Constant) \
                and str(e.args[0].value).lower().lstrip('+-') in ('inf', 'infinity'):
            return True
        return unparse(e) in ('math.inf', 'np.inf', 'numpy.inf', 'INF', 'inf')

    def bounds_in(e):
        return {unparse(a) for a in ast.walk(e) if isinstance(a, ast.Attribute) and unparse(a) in (LOW, UP)}

    def finiteness(e):
        """a test of a bound against infinity only"""
        if isinstance(e, ast.Compare) and len(e.ops) == 1:
            sides = [e.left, e.comparators[0]]
            return any(unparse(x) in (LOW, UP) for x in sides) and any(is_inf(x) for x in sides)
        if isinstance(e, ast.Call) and (dotted(e.func) or '').split('.')[-1] in ('isfinite', 'isinf') and e.args:
            return unparse(e.args[0]) in (LOW, UP)
        return False

    def near(e):
        b = bounds_in(e)
        if len(b) != 1:
            raise T_.Undecidable(f'`{unparse(e)[:50]}` mentions both bounds')
        return ast.Name(id='__near_lower' if LOW in b else '__near_upper', ctx=ast.Load())

    class Prep(ast.NodeTransformer):
        def visit_IfExp(self, e):
            if bounds_in(e.test) and not finiteness(e.test):
                return near(e)                      # `.. if bound == 0 else ..`: one comparison of the value with the bound
            return self.generic_visit(e)

        def visit_Compare(self, e):
            if bounds_in(e) and not finiteness(e):
                return near(e)
            if finiteness(e):
                e = copy.deepcopy(e)
                e.left = ast.Constant(value=-math.inf if unparse(e.left).startswith('-') else math.inf) if is_inf(e.left) else e.left
                e.comparators = [ast.Constant(value=-math.inf if unparse(c).startswith('-') else math.inf) if is_inf(c) else c
                                 for c in e.comparators]
            return e

        def visit_Call(self, c):
            d = dotted(c.func) or ''
            if finiteness(c):
                fin = ast.Compare(left=ast.Call(func=ast.Name(id='abs', ctx=ast.Load()), args=[c.args[0]], keywords=[]),
                                  ops=[ast.Lt()], comparators=[ast.Constant(value=math.inf)])
                return fin if d.split('.')[-1] == 'isfinite' else ast.UnaryOp(op=ast.Not(), operand=fin)
            if bounds_in(c) and d.split('.')[-1] not in ('bool', 'any', 'all'):
                return near(c)
            return self.generic_visit(c)

    # the statements that hold the decision: the function body, or the body of the loop over the parameters
    body = f.node.body
    for L in ast.walk(f.node):
        if isinstance(L, ast.For) and bounds_in(L) == {LOW, UP}:
            body = L.body
    try:
        body = [Prep().visit(copy.deepcopy(s_)) for s_ in body]
    except T_.Undecidable as e:
        raise AnalysisError(f'N13: {e}')

    def ev(e, env):
        if isinstance(e, ast.Call) and dotted(e.func) == 'abs' and e.args:
            return abs(ev(e.args[0], env))
        if isinstance(e, ast.IfExp):
            return ev(e.body, env) if ev(e.test, env) else ev(e.orelse, env)
        if isinstance(e, ast.Call) and dotted(e.func) in ('bool', 'any', 'all') and e.args:
            v = ev(e.args[0], env)
            return bool(v) if dotted(e.func) == 'bool' else (any(v) if dotted(e.func) == 'any' else all(v))
        if isinstance(e, ast.BoolOp):
            r = None
            for v in e.values:
                r = ev(v, env)
                if (isinstance(e.op, ast.And) and not r) or (isinstance(e.op, ast.Or) and r):
                    return r
            return r
        if isinstance(e, ast.UnaryOp) and isinstance(e.op, ast.Not):
            return not ev(e.operand, env)
        if isinstance(e, ast.Compare):
            return T_.eval_pred(ast.Compare(left=ast.Constant(value=ev(e.left, env)), ops=e.ops,
                                            comparators=[ast.Constant(value=ev(c, env)) for c in e.comparators]), {})
        if isinstance(e, (ast.Tuple, ast.List)):
            return [ev(x, env) for x in e.elts]
        return T_.eval_pred(e, env)

    def run_block(stmts, env):
        for s_ in stmts:
            if isinstance(s_, ast.Expr):
                c = s_.value
                if isinstance(c, ast.Call) and isinstance(c.func, ast.Attribute) and c.func.attr == 'append' and c.args:
                    try:
                        return ('ret', ev(c.args[0], env))      # the verdict for this parameter is collected
                    except T_.Undecidable:
                        pass
                continue
            if isinstance(s_, ast.Return):
                return ('ret', ev(s_.value, env) if s_.value is not None else None)
            if isinstance(s_, ast.If):
                try:
                    t = ev(s_.test, env)
                except T_.Undecidable:
                    if not (bounds_in(s_) or any(isinstance(x, ast.Name) and x.id.startswith('__near') for x in ast.walk(s_))):
                        continue                       # a test about something else (value is None: ...)
                    raise
                r = run_block(s_.body if t else s_.orelse, env)
                if r is not None:
                    return r
                continue
            if isinstance(s_, ast.Assign) and len(s_.targets) == 1 and isinstance(s_.targets[0], ast.Name):
                try:
                    env[s_.targets[0].id] = ev(s_.value, env)
                except T_.Undecidable:
                    env.pop(s_.targets[0].id, None)
                continue
            if isinstance(s_, (ast.AnnAssign, ast.AugAssign, ast.Pass)):
                continue
            raise T_.Undecidable(f'statement {unparse(s_)[:50]}')
        return None

    for lf, uf, nl, nu in itertools.product((True, False), repeat=4):
        env = {LOW: 0.0 if lf else -math.inf, UP: 1.0 if uf else math.inf, '__near_lower': nl, '__near_upper': nu}
        try:
            r = run_block(body, env)
        except T_.Undecidable as e:
            raise AnalysisError(f'N13: cannot evaluate the near-bound decision in {f.name}: {e}')
        if r is None and f.name != '_is_close_to_bound':
            raise AnalysisError(f'N13: no verdict reached in {f.name}')
        got = bool(r[1]) if r is not None else False
        want = (lf and nl) or (uf and nu)
        chk.instance(N13, f'lower finite={lf} upper finite={uf} near lower={nl} near upper={nu}: {got} (expected {want})')
        if got != want:
            chk.violation(N13, rm.rel, f.qualname,
                          f'lower finite={lf}, upper finite={uf}, near lower={nl}, near upper={nu} -> {got}',
                          f'the estimate is{"" if want else " not"} at a finite bound but the function answers {got}',
                          line=f.node.lineno,
                          witness='a theta with both bounds finite, (0, x, 0.01), whose estimate sits at the upper bound: '
                                  'check_parameters_near_bounds says False, the strictness term estimate_near_boundary passes and '
                                  'the candidate can be ranked best')


def run_n14(chk, repo):
    """N14: the bootstrap summaries are statistics of the replicates that are available: a replicate without an estimate for a
    parameter (NaN) is left out of that column. The pandas reductions do that (skipna); numpy's quantile / percentile / median /
    mean / std / min / max propagate NaN to the whole column (the nan* family does not)"""
    N14 = chk.rule('N14', 'bootstrap results: the statistics over the replicate tables are NaN-skipping reductions (pandas or '
                          'numpy nan*), never NaN-propagating numpy reductions of the table', floor=6)
    bm = repo.module('pharmpy.tools.bootstrap.results')
    PROP = {'quantile', 'percentile', 'median', 'mean', 'average', 'std', 'var', 'min', 'max', 'amin', 'amax', 'sum', 'ptp'}
    PANDAS = {'quantile', 'median', 'mean', 'std', 'var', 'min', 'max', 'sum', 'skew', 'kurt'}
    n = 0
    for f in dict.values(bm.functions):
        for c in [c for c in ast.walk(f.node) if isinstance(c, ast.Call)]:
            d = dotted(c.func) or ''
            head, _, last = d.rpartition('.')
            if head in ('np', 'numpy') and last in PROP and c.args:
                n += 1
                chk.instance(N14, f'{f.qualname}: {unparse(c)[:60]}: NaN-propagating')
                chk.violation(N14, bm.rel, f.qualname, unparse(c)[:100],
                              f'np.{last} returns NaN for every column that has a single missing replicate value, while the '
                              f'other statistics of the same column are computed from the available replicates',
                              line=c.lineno,
                              witness='30 replicates, one without an estimate for IVCL: the percentile row of IVCL is all NaN '
                                      'next to a finite mean / median / standard error')
            elif head in ('np', 'numpy') and last.startswith('nan') and last[3:] in PROP:
                n += 1
                chk.instance(N14, f'{f.qualname}: {unparse(c)[:60]}: NaN-skipping numpy reduction')
            elif isinstance(c.func, ast.Attribute) and c.func.attr in PANDAS and head and head.split('.')[0] not in ('np', 'numpy', 'math') \
                    and not any(k.arg == 'skipna' and isinstance(k.value, ast.Constant) and k.value.value is False for k in c.keywords):
                n += 1
                chk.instance(N14, f'{f.qualname}: {unparse(c)[:60]}: pandas reduction (skipna)')
            elif isinstance(c.func, ast.Attribute) and c.func.attr in PANDAS and any(
                    k.arg == 'skipna' and isinstance(k.value, ast.Constant) and k.value.value is False for k in c.keywords):
                n += 1
                chk.violation(N14, bm.rel, f.qualname, unparse(c)[:100], 'skipna=False propagates a missing replicate value',
                              line=c.lineno)
    if n < 3:
        raise AnalysisError(f'N14: only {n} reductions found in bootstrap/results.py')


def run_n15(chk, repo):
    """N15: rank_models sorts best-first. With an eligible base model the key is the delta to the reference (larger is
    better); when the base model has no reference value (it failed the strictness criteria or its OFV is NaN) the key must
    order by the rank value itself with the opposite sign (smaller criterion value is better). Structural clause: on the
    isnan(<reference>) path the sort key of `sorted(models_to_rank, key=.., reverse=R)` is -rank_value when R is True and
    +rank_value when R is False."""
    N15 = chk.rule('N15', 'rank_models: without a reference value the candidates are still sorted best-first (key = -rank value '
                          'under reverse=True)', floor=1)
    m = repo.module('pharmpy.tools.run')
    f = m.functions.get('rank_models')
    if f is None:
        raise AnalysisError('N15: rank_models not found')
    sorts = [c for c in ast.walk(f.node) if isinstance(c, ast.Call) and dotted(c.func) == 'sorted'
             and any(k.arg == 'key' for k in c.keywords) and c.args and 'rank' in unparse(c.args[0])]
    if not sorts:
        raise AnalysisError('N15: sorted(<models to rank>, key=..) not found in rank_models')
    ldefs, fdefs = {}, {}
    for a_ in ast.walk(f.node):
        if isinstance(a_, ast.Assign) and len(a_.targets) == 1 and isinstance(a_.targets[0], ast.Name):
            ldefs.setdefault(a_.targets[0].id, []).append(a_.value)
        elif isinstance(a_, ast.FunctionDef) and a_ is not f.node:
            fdefs[a_.name] = a_

    def isnan_test(t):
        return any(isinstance(c, ast.Call) and (dotted(c.func) or '').split('.')[-1] in ('isnan', 'isna', 'isnull') for c in ast.walk(t))

    def on_nan_path(e, depth=0):
        """the expression the key evaluates to when the reference value is NaN: (sign, table name) or None"""
        if depth > 6:
            return None
        if isinstance(e, ast.Lambda):
            return on_nan_path(e.body, depth + 1)
        if isinstance(e, ast.UnaryOp) and isinstance(e.op, ast.USub):
            r = on_nan_path(e.operand, depth + 1)
            return None if r is None else (-r[0], r[1])
        if isinstance(e, ast.IfExp) and isnan_test(e.test):
            neg = isinstance(e.test, ast.UnaryOp) and isinstance(e.test.op, ast.Not)
            return on_nan_path(e.orelse if neg else e.body, depth + 1)
        if isinstance(e, ast.Subscript):
            return on_nan_path(e.value, depth + 1)
        if isinstance(e, ast.Call) and isinstance(e.func, ast.Attribute) and e.func.attr == 'get':
            return on_nan_path(e.func.value, depth + 1)
        if isinstance(e, ast.Call) and (dotted(e.func) or '').split('.')[-1] == 'partial' and e.args:
            return on_nan_path(e.args[0], depth + 1)
        if isinstance(e, ast.Name):
            if e.id in fdefs or (e.id in m.functions and e.id not in ldefs):
                fd = fdefs[e.id] if e.id in fdefs else m.functions[e.id].node
                for s in fd.body:
                    if isinstance(s, ast.If) and isnan_test(s.test):
                        neg = isinstance(s.test, ast.UnaryOp) and isinstance(s.test.op, ast.Not)
                        br = s.orelse if neg else s.body
                        rets = [x for x in br if isinstance(x, ast.Return)]
                        if not rets and neg:
                            rets = [x for x in fd.body[fd.body.index(s) + 1:] if isinstance(x, ast.Return)]
                        return on_nan_path(rets[0].value, depth + 1) if rets else None
                    if isinstance(s, ast.Return):
                        return on_nan_path(s.value, depth + 1)
                return None
            if 'rank_value' in e.id:
                return (1, e.id)
            if len(ldefs.get(e.id, [])) == 1:
                return on_nan_path(ldefs[e.id][0], depth + 1)
            return None
        return None
    for c in sorts:
        key = next(k.value for k in c.keywords if k.arg == 'key')
        rev = next((k.value for k in c.keywords if k.arg == 'reverse'), ast.Constant(False))
        if not isinstance(rev, ast.Constant):
            raise AnalysisError(f'N15: reverse={unparse(rev)} is not a constant')
        r = on_nan_path(key)
        if r is None:
            raise AnalysisError(f'N15: cannot follow the sort key {unparse(key)[:60]} on the no-reference path')
        sign, table = r
        ok = (sign == -1) == bool(rev.value)
        chk.instance(N15, f'rank_models: {unparse(c)[:70]}: key on the NaN-reference path = {"-" if sign < 0 else "+"}{table}, '
                          f'reverse={rev.value}: best first: {ok}')
        if not ok:
            chk.violation(N15, m.rel, f.qualname, unparse(c)[:90],
                          f'without a reference value the candidates are sorted by {"-" if sign < 0 else "+"}{table} with '
                          f'reverse={rev.value}: the WORST candidate gets rank 1', line=c.lineno,
                          witness='base model with minimization_successful=False and two eligible candidates with different OFV: '
                                  'the higher OFV is ranked 1 and summarize_tool selects it')
