"""C20 Estimation results are read faithfully: Z1 special iteration codes, Z2 encoder/decoder agreement,
Z3 label renaming symmetry, Z4 header fields paired with their labels, Z5 positional column slices on the
canonical layout, Z6 final results come from the last matching table."""
from __future__ import annotations

import ast
import json
import re._parser as sre_parse

from sa.cfg import CFG
from sa.report import AnalysisError, VERIF
from sa.srcmodel import unparse, walk_no_nested, calls_in, dotted

TBL = 'pharmpy.model.external.nonmem.table'
RES = 'pharmpy.tools.external.nonmem.results'
WRES = 'pharmpy.workflows.results'


_CONST_SCOPE = {}


def const_int(e):
    """integer value of -1000000000, -(10**9), 0, or of a module- / class-level constant bound to one"""
    from sa.tables import const_value
    v = const_value(e, _CONST_SCOPE.get('module'), _CONST_SCOPE.get('cls'))
    return v if isinstance(v, int) and not isinstance(v, bool) else None


def names(node):
    return {n.id for n in ast.walk(node) if isinstance(n, ast.Name)}


def run(chk, repo, tier):
    chk.explanation = (
        'Z1: every ExtTable accessor asks for the ITERATION code NONMEM documents for that quantity (reference table '
        'specs/ext_codes.json) and the final estimates/OFV fall back to the last regular iteration only on KeyError. '
        'Z2: every tag the results JSON encoder emits has a decoder branch that reads exactly the payload keys written. '
        'Z3: rename_index rewrites THETAn on the columns and, for matrices, on the index with the same pattern. Z4: each '
        'header counter attribute is assigned from the regex group that follows its own label. Z5: positional slices of '
        'the ext column list are taken from the unmodified ITERATION..OBJ layout. Z6: quantities reported as final '
        'come from the last matching table of a multi-table file. NOT decided: fixed-width number parsing, matrix '
        'relations (numeric).')
    Z1 = chk.rule('Z1', 'ExtTable accessors use the documented special ITERATION codes; fallbacks only on KeyError',
                  floor=8)
    Z2 = chk.rule('Z2', 'results JSON: encoder tags and payload keys == decoder branches and keys read', floor=4)
    Z3 = chk.rule('Z3', 'rename_index applies the same THETA(n) rewrite to columns and (for matrices) to the index',
                  floor=2)
    Z4 = chk.rule('Z4', 'table header: attribute X is read from the regex group following the label X=', floor=6)
    Z5 = chk.rule('Z5', 'list(df.columns)[1:-1]-style slices are applied to frames with the canonical ext layout',
                  floor=1)
    Z6 = chk.rule('Z6', 'single-table selection for final results takes the last matching table', floor=2)

    spec = json.loads((VERIF / 'specs/ext_codes.json').read_text())
    tm = repo.module(TBL)
    ext = tm.classes.get('ExtTable')
    if ext is None:
        raise AnalysisError('ExtTable not found')
    _CONST_SCOPE.update(module=tm, cls=ext)
    # ---------------------------------------------------------------- Z1
    for acc, want in spec['accessors'].items():
        f = ext.methods.get(acc)
        if f is None:
            raise AnalysisError(f'ExtTable.{acc} not found')
        calls = [c for c in calls_in(f.node) if isinstance(c.func, ast.Attribute)
                 and c.func.attr in ('_get_parameters', '_get_ofv') and c.args]
        codes = [const_int(c.args[0]) for c in calls]
        # primary code = the call in the try body / the only call
        tries = [n for n in walk_no_nested(f.node) if isinstance(n, ast.Try)]
        primary = None
        if tries:
            pc = [c for c in calls if any(c is x for s in tries[0].body for x in ast.walk(s))]
            primary = const_int(pc[0].args[0]) if pc else None
        elif calls:
            primary = codes[0]
        chk.instance(Z1, f'ExtTable.{acc}: primary code {primary} (all {codes})')
        if primary != want:
            chk.violation(Z1, tm.rel, f'ExtTable.{acc}', f'code {primary}',
                          f'{acc} reads ITERATION {primary}; NONMEM writes that quantity in row {want} '
                          f'({spec["codes"].get(str(want), "regular iteration")})', line=f.node.lineno,
                          witness=f'any ext file: {acc} returns the numbers of another special row')
        if acc in ('standard_errors', 'fixed', 'omega_sigma_stdcorr', 'omega_sigma_se_stdcorr', 'condition_number'):
            wrong_method = [c for c in calls if c.func.attr != '_get_parameters']
            if wrong_method:
                chk.violation(Z1, tm.rel, f'ExtTable.{acc}', unparse(wrong_method[0]),
                              'parameter-valued row read through the OFV accessor', line=f.node.lineno,
                              witness='the OBJ column is returned instead of the parameter row')
        if acc in ('final_parameter_estimates', 'final_ofv'):
            ok = bool(tries) and all(h.type is not None and unparse(h.type) == 'KeyError' for h in tries[0].handlers) \
                and any('max(self.iterations)' in unparse(s) for h in tries[0].handlers for s in h.body)
            chk.instance(Z1, f'ExtTable.{acc}: fallback to the last regular iteration only on KeyError: {ok}')
            if not ok:
                chk.violation(Z1, tm.rel, f'ExtTable.{acc}', 'fallback structure',
                              'the final row is not preferred over the last regular iteration', line=f.node.lineno,
                              witness='a successful run: the estimates of the last printed iteration (before the final '
                                      'step) are reported as final')
    its = ext.methods.get('iterations')
    cmp_ok = its is not None and any(isinstance(n, ast.Compare) and isinstance(n.ops[0], ast.GtE)
                                     and const_int(n.comparators[0]) == 0 for n in ast.walk(its.node))
    chk.instance(Z1, f'ExtTable.iterations keeps ITERATION >= 0: {cmp_ok}')
    if not cmp_ok:
        chk.violation(Z1, tm.rel, 'ExtTable.iterations', 'it >= 0', 'special rows are not excluded from the regular iterations',
                      witness='max(iterations) picks a special code / iteration 0 is dropped')
    # getters select by equality on ITERATION and drop ITERATION/OBJ
    gp = ext.methods.get('_get_parameters')
    sel = any(isinstance(n, ast.Compare) and isinstance(n.ops[0], ast.Eq) and "'ITERATION'" in unparse(n.left)
              and unparse(n.comparators[0]) == 'iteration' for n in ast.walk(gp.node))
    dels = {unparse(t.slice) for n in walk_no_nested(gp.node) if isinstance(n, ast.Delete) for t in n.targets
            if isinstance(t, ast.Subscript)}
    chk.instance(Z1, f'_get_parameters: row selected by ITERATION == iteration: {sel}; non-parameter columns removed: {sorted(dels)}')
    if not sel or dels != {"'ITERATION'", "'OBJ'"}:
        chk.violation(Z1, tm.rel, 'ExtTable._get_parameters', 'row selection / column removal',
                      'the parameter row is not exactly the row ITERATION == code without the ITERATION and OBJ columns',
                      line=gp.node.lineno, witness='estimates contain the OFV or the iteration number as a parameter')

    # ---------------------------------------------------------------- Z2
    wm = repo.module(WRES)
    enc = wm.classes.get('ResultsJSONEncoder')
    dec = wm.classes.get('ResultsJSONDecoder')
    if enc is None or dec is None:
        raise AnalysisError('ResultsJSONEncoder / ResultsJSONDecoder not found')
    ed = enc.methods['default']
    dh = dec.methods['object_hook']
    # encoder: literal tags with literal payload keys
    enc_tags = {}
    for n in ast.walk(ed.node):
        if isinstance(n, ast.Dict):
            ks = [k.value if isinstance(k, ast.Constant) else None for k in n.keys]
            if '__class__' in ks:
                tagv = n.values[ks.index('__class__')]
                if isinstance(tagv, ast.Constant):
                    enc_tags[tagv.value] = {k for k in ks if k and k != '__class__'}
        if isinstance(n, ast.Assign) and isinstance(n.targets[0], ast.Subscript) \
                and isinstance(n.targets[0].slice, ast.Constant) and n.targets[0].slice.value == '__class__' \
                and isinstance(n.value, ast.Constant):
            enc_tags.setdefault(n.value.value, None)     # payload built by a helper (dict of a frame)
    dyn = [unparse(n.value) for n in ast.walk(ed.node) if isinstance(n, ast.Assign)
           and isinstance(n.targets[0], ast.Subscript) and isinstance(n.targets[0].slice, ast.Constant)
           and n.targets[0].slice.value == '__class__' and not isinstance(n.value, ast.Constant)]
    dec_tags = {}
    for n in ast.walk(dh.node):
        if isinstance(n, ast.If) and isinstance(n.test, ast.Compare) and isinstance(n.test.ops[0], ast.Eq) \
                and unparse(n.test.left) == 'cls' and isinstance(n.test.comparators[0], ast.Constant):
            tag = n.test.comparators[0].value
            keys = {x.slice.value for s in n.body for x in ast.walk(s) if isinstance(x, ast.Subscript)
                    and unparse(x.value) == 'obj' and isinstance(x.slice, ast.Constant)}
            whole = [c for s in n.body for c in ast.walk(s) if isinstance(c, ast.Call)
                     and any(isinstance(a, ast.Name) and a.id == 'obj' for a in c.args)]
            dec_tags[tag] = (keys, [dotted(c.func) or unparse(c.func) for c in whole], n)
    # table-driven dispatch: `decoder = _TABLE.get(cls); return decoder(obj)` with _TABLE = {'tag': function, ..}
    for n in ast.walk(dh.node):
        tbl = None
        if isinstance(n, ast.Call) and isinstance(n.func, ast.Attribute) and n.func.attr == 'get' and n.args \
                and unparse(n.args[0]) == 'cls' and isinstance(n.func.value, ast.Name):
            tbl = n.func.value.id
        elif isinstance(n, ast.Subscript) and unparse(n.slice) == 'cls' and isinstance(n.value, ast.Name):
            tbl = n.value.id
        d_ = wm.globals_.get(tbl) if tbl else None
        if not isinstance(d_, ast.Dict):
            continue
        for k_, v_ in zip(d_.keys, d_.values):
            if not (isinstance(k_, ast.Constant) and isinstance(k_.value, str) and isinstance(v_, ast.Name)):
                continue
            g_ = wm.functions.get(v_.id)
            if g_ is None or not g_.node.args.args:
                continue
            pn = g_.node.args.args[0].arg
            keys = {x.slice.value for x in ast.walk(g_.node) if isinstance(x, ast.Subscript)
                    and unparse(x.value) == pn and isinstance(x.slice, ast.Constant)}
            whole = [c for c in ast.walk(g_.node) if isinstance(c, ast.Call)
                     and any(isinstance(a, ast.Name) and a.id == pn for a in c.args)]
            # the function itself may BE the consumer of the whole dict (_df_read_json registered directly)
            wl = [dotted(c.func) or unparse(c.func) for c in whole]
            if not keys and not wl:
                wl = [g_.name]
            dec_tags.setdefault(k_.value, (keys, wl if (keys or whole) else [g_.name], g_.node))
            if g_.name in ('_df_read_json', '_multi_index_read_json'):
                dec_tags[k_.value] = (set(), [g_.name], g_.node)
    if len(enc_tags) < 3 or len(dec_tags) < 5:
        raise AnalysisError(f'Z2: encoder tags {sorted(enc_tags)} / decoder tags {sorted(dec_tags)}: extraction failed')
    DICT_CONSUMERS = {'_df_read_json', '_multi_index_read_json', 'Log.from_dict', 'results_class.from_dict',
                      'class_.from_dict', 'alt.Chart.from_dict'}
    for tag, payload in sorted(enc_tags.items()):
        chk.instance(Z2, f'encoder tag {tag!r} payload {sorted(payload) if payload else "(frame json)"}; decoder '
                         f'{"reads " + str(sorted(dec_tags[tag][0])) + " / passes obj to " + str(dec_tags[tag][1]) if tag in dec_tags else "MISSING"}')
        if tag not in dec_tags:
            chk.violation(Z2, wm.rel, 'ResultsJSONDecoder.object_hook', f'no branch for tag {tag!r}',
                          f'objects encoded with __class__={tag!r} are returned as plain dicts', line=dh.node.lineno,
                          witness=f'read_results(res.to_json()) where res contains such an object != res')
            continue
        keys, whole, node = dec_tags[tag]
        if payload:
            bad_whole = [w for w in whole if w not in DICT_CONSUMERS]
            if keys != payload or bad_whole:
                chk.violation(Z2, wm.rel, 'ResultsJSONDecoder.object_hook', f'tag {tag!r}: reads {sorted(keys)}, '
                              f'passes whole dict to {bad_whole}',
                              f'the decoder branch for {tag!r} does not read exactly the payload keys {sorted(payload)} '
                              f'the encoder writes', line=node.lineno,
                              witness=f'a results object containing a {tag}: read_results(to_json(r)) raises TypeError/'
                                      f'KeyError or loses the value')
    for d_ in dyn:
        chk.instance(Z2, f'encoder dynamic tag {d_}')
    # Log and *Results dynamic tags need decoder branches
    for needed, test in (('Log', "cls == 'Log'"), ('Results', "cls.endswith('Results')")):
        ok = test in unparse(dh.node)
        chk.instance(Z2, f'decoder handles dynamic tag family {needed}: {ok}')
        if not ok:
            chk.violation(Z2, wm.rel, 'ResultsJSONDecoder.object_hook', f'no branch `{test}`',
                          f'{needed} objects are not rebuilt', line=dh.node.lineno,
                          witness='read_results(res.to_json()) returns a dict instead of the results object')

    # ---------------------------------------------------------------- Z3
    nt = tm.classes.get('NONMEMTable')
    ri = nt.methods.get('rename_index') if nt else None
    if ri is None:
        raise AnalysisError('NONMEMTable.rename_index not found')
    reps = [c for c in calls_in(ri.node) if isinstance(c.func, ast.Attribute) and c.func.attr == 'replace'
            and len(c.args) >= 2 and isinstance(c.args[0], ast.Constant)]
    by_target = {}
    for c in reps:
        tgt = 'columns' if '.columns' in unparse(c.func) else ('index' if '.index' in unparse(c.func) else '?')
        by_target[tgt] = (c.args[0].value, c.args[1].value if isinstance(c.args[1], ast.Constant) else None)
    chk.instance(Z3, f'rename_index rewrites: {by_target}')
    if 'columns' not in by_target or 'index' not in by_target or by_target['columns'] != by_target['index']:
        chk.violation(Z3, tm.rel, 'NONMEMTable.rename_index', f'{by_target}',
                      'columns and index labels are rewritten differently', line=ri.node.lineno,
                      witness='a covariance matrix: row labels THETA1 vs column labels THETA(1); renaming to model '
                              'parameter names misses one axis')
    idx_guard = any(isinstance(n, ast.If) and 'ext' in names(n.test) and any('index' in unparse(s) for s in n.body)
                    for n in walk_no_nested(ri.node))
    chk.instance(Z3, f'index rewritten only for matrices (not ext): {idx_guard}')
    if not idx_guard:
        chk.violation(Z3, tm.rel, 'NONMEMTable.rename_index', 'index rewrite guard', 'index rewrite is not tied to the '
                      'matrix case', line=ri.node.lineno, witness='ext tables get a string index')

    # ---------------------------------------------------------------- Z4
    tf = tm.classes.get('NONMEMTableFile')
    pt = tf.methods.get('_parse_table') if tf else None
    if pt is None:
        raise AnalysisError('NONMEMTableFile._parse_table not found')
    # find the long header regex (concatenated string constants)
    hdr = None
    for c in calls_in(pt.node):
        if dotted(c.func) == 're.match' and c.args:
            try:
                v = ast.literal_eval(c.args[0])
            except Exception:
                continue
            if isinstance(v, str) and 'Subproblem=' in v:
                hdr = v
    if hdr is None:
        # the pattern may have been hoisted into a module-level re.compile(..) constant
        comp_ = {}
        for a_ in tm.tree.body:
            if isinstance(a_, ast.Assign) and len(a_.targets) == 1 and isinstance(a_.targets[0], ast.Name) \
                    and isinstance(a_.value, ast.Call) and dotted(a_.value.func) == 're.compile' and a_.value.args:
                try:
                    comp_[a_.targets[0].id] = ast.literal_eval(a_.value.args[0])
                except Exception:
                    pass
        for c in calls_in(pt.node):
            if isinstance(c.func, ast.Attribute) and c.func.attr in ('match', 'fullmatch', 'search') \
                    and isinstance(c.func.value, ast.Name) and isinstance(comp_.get(c.func.value.id), str) \
                    and 'Subproblem=' in comp_[c.func.value.id]:
                hdr = comp_[c.func.value.id]
    if hdr is None:
        raise AnalysisError('Z4: header regex not found in _parse_table')
    parsed = list(sre_parse.parse(hdr))

    def labels_of_groups(seq, acc, prefix=''):
        lit = prefix
        for op, av in seq:
            if op is sre_parse.LITERAL:
                lit += chr(av)
            elif op is sre_parse.SUBPATTERN:
                gid = av[0]
                if gid:
                    acc[gid] = lit
                    lit = ''
                else:
                    lit = labels_of_groups(av[3], acc, lit)
            elif op in (sre_parse.MAX_REPEAT, sre_parse.MIN_REPEAT):
                labels_of_groups(av[2], acc, lit)
                lit = ''
            else:
                lit = ''
        return lit
    glabel = {}
    labels_of_groups(parsed, glabel)
    n4 = 0
    for n in walk_no_nested(pt.node):
        if isinstance(n, ast.Assign) and isinstance(n.targets[0], ast.Attribute) and unparse(n.targets[0].value) == 'table':
            attr = n.targets[0].attr
            grp = [c for c in ast.walk(n.value) if isinstance(c, ast.Call) and isinstance(c.func, ast.Attribute)
                   and c.func.attr == 'group' and c.args and isinstance(c.args[0], ast.Constant)]
            if not grp:
                continue
            k = grp[0].args[0].value
            lab = glabel.get(k, '')
            m_ = lab.rstrip('=').split(' ')[-1].split(':')[-1].strip()
            if not lab.endswith('='):
                continue      # unlabelled group (method, goal function text)
            n4 += 1
            chk.instance(Z4, f'table.{attr} = group({k}) labelled {m_!r}')
            if m_.lower().replace(' ', '_') != attr.lower() and not (attr == 'goal_function' and m_ == 'Function'):
                chk.violation(Z4, tm.rel, pt.qualname, unparse(n),
                              f'table.{attr} is read from the group labelled `{m_}=` in the header line', line=n.lineno,
                              witness='output of a $SUPER run (Iteration1 != Superproblem2): header counters are swapped, '
                                      'NONMEMTableFile.table(...) returns the wrong table')
    if n4 < 6:
        raise AnalysisError(f'Z4: only {n4} labelled header assignments found')

    # ---------------------------------------------------------------- Z5 / Z6
    rm = repo.module(RES)
    n5 = 0
    for f in rm.functions.values():
        slices = [n for n in walk_no_nested(f.node) if isinstance(n, ast.Subscript) and isinstance(n.slice, ast.Slice)
                  and 'columns' in unparse(n.value) and n.slice.lower is not None and n.slice.upper is not None]
        if not slices:
            continue
        cfg = CFG(f.node)
        for s_ in slices:
            var = next((x.id for x in ast.walk(s_.value) if isinstance(x, ast.Name) and x.id != 'list'), None)
            if var is None:
                continue
            use = next((nd for nd in cfg.nodes.values() if nd.ast is not None and nd.kind in ('stmt', 'test', 'return')
                        and not isinstance(nd.ast, (ast.FunctionDef, ast.ClassDef))
                        and any(x is s_ for x in ast.walk(nd.ast))), None)
            if use is None:
                continue
            defs = [nd for nd in cfg.nodes.values() if isinstance(nd.ast, ast.Assign)
                    and any(isinstance(t, ast.Name) and t.id == var for t in nd.ast.targets)]
            # reaching definitions: defs from which `use` is reachable without passing another def of var
            reaching = [d for d in defs if use.id in cfg.reachable(d.id, avoid={x.id for x in defs if x.id != d.id})]
            n5 += 1
            chk.instance(Z5, f'{f.qualname}: {unparse(s_)} on {var} defined by {[unparse(d.ast.value)[:50] for d in reaching]}')
            for d in reaching:
                v = d.ast.value
                altered = any(isinstance(c, ast.Call) and isinstance(c.func, ast.Attribute)
                              and c.func.attr in ('drop', 'rename', 'reindex', 'insert', 'assign', 'filter')
                              for c in ast.walk(v)) or isinstance(v, ast.Subscript)
                if altered:
                    chk.violation(Z5, rm.rel, f.qualname, f'{unparse(s_)} after {unparse(d.ast)[:80]}',
                                  'a positional slice that assumes the ITERATION ... OBJ column layout is applied to a '
                                  'frame whose columns were already changed', line=s_.lineno,
                                  witness='a model whose last parameter (last SIGMA) is fixed: it is not recognised as '
                                          'fixed and is reported as estimated')
    if n5 == 0:
        raise AnalysisError('Z5: no positional column slice found in results.py (anchor moved)')
    n6 = 0
    for f in rm.functions.values():
        # (a) for-loops over X.tables
        for lp in [n for n in walk_no_nested(f.node) if isinstance(n, ast.For) and '.tables' in unparse(lp_iter := n.iter)]:
            rev = any(isinstance(c, ast.Call) and dotted(c.func) == 'reversed' for c in ast.walk(lp.iter))
            early = any(isinstance(x, (ast.Break, ast.Return)) for s in lp.body for x in ast.walk(s))
            n6 += 1
            chk.instance(Z6, f'{f.qualname}: for ... in {unparse(lp.iter)} (reversed={rev}, early exit={early})')
            if early and not rev:
                chk.violation(Z6, rm.rel, f.qualname, f'for ... in {unparse(lp.iter)} with early exit',
                              'the first matching table is selected, final results belong to the last estimation step',
                              line=lp.lineno,
                              witness='a run with two $ESTIMATION steps: individual estimates / OFVs of the first step '
                                      'are reported together with population estimates of the last step')
        # (b) next(generator over X.tables)
        for c in calls_in(f.node):
            if dotted(c.func) == 'next' and c.args and isinstance(c.args[0], ast.GeneratorExp) \
                    and '.tables' in unparse(c.args[0].generators[0].iter):
                rev = 'reversed(' in unparse(c.args[0].generators[0].iter)
                n6 += 1
                chk.instance(Z6, f'{f.qualname}: {unparse(c)[:70]} (reversed={rev})')
                if not rev:
                    chk.violation(Z6, rm.rel, f.qualname, unparse(c)[:120],
                                  'the first matching table is selected, final results belong to the last estimation step',
                                  line=c.lineno,
                                  witness='a run with two $ESTIMATION steps: the phi table of the first step is used')
    if n6 < 2:
        raise AnalysisError('Z6: table selection loops not found in results.py')
    run_more(chk, repo)
    run_z10_z11(chk, repo)
    run_z12_z14(chk, repo)
    run_z15_z17(chk, repo)
    run_z18_z19(chk, repo)
    run_z20(chk, repo)


def run_more(chk, repo):
    Z8 = chk.rule('Z8', 'MU values for PHI -> ETA: final estimates take precedence over the initial estimates of the model',
                  floor=1)
    Z9 = chk.rule('Z9', 'PhiTable views (iofv, etas, etc_data) drop the same rows (all columns after ID zero)', floor=3)
    rm = repo.module('pharmpy.tools.external.nonmem.results')
    f = rm.functions.get('_parse_individual_estimates')
    if f is None:
        raise AnalysisError('_parse_individual_estimates not found')
    pe = f.params[1]

    def kind(e):
        t = unparse(e)
        if pe in {x.id for x in ast.walk(e) if isinstance(x, ast.Name)}:
            return 'estimates'
        if 'inits' in t or 'parameters' in t:
            return 'inits'
        return None
    found = 0
    dict_defs = {n.targets[0].id: n.value for n in walk_no_nested(f.node) if isinstance(n, ast.Assign)
                 and isinstance(n.targets[0], ast.Name) and isinstance(n.value, ast.Dict)}
    for c in ast.walk(f.node):
        if not (isinstance(c, ast.Call) and isinstance(c.func, ast.Attribute) and c.func.attr == 'subs' and c.args):
            continue
        # chain: X.subs(A).subs(B)  -> order [A, B]: the first substitution wins for symbols in both
        chain = []
        cur = c
        while isinstance(cur, ast.Call) and isinstance(cur.func, ast.Attribute) and cur.func.attr == 'subs' and cur.args:
            chain.append(cur.args[0])
            cur = cur.func.value
        chain = chain[::-1]
        order = []
        for a in chain:
            if isinstance(a, ast.Name) and a.id in dict_defs:
                a = dict_defs[a.id]
            if isinstance(a, ast.Dict) and all(k is None for k in a.keys):
                # {**A, **B}: the LAST spread wins -> precedence order is reversed
                order += [kind(v) for v in a.values][::-1]
            else:
                order.append(kind(a))
        order = [o for o in order if o]
        if 'estimates' in order or 'inits' in order:
            if any(isinstance(p, ast.Call) and p is not c and isinstance(p.func, ast.Attribute) and p.func.attr == 'subs'
                   and p.func.value is c for p in ast.walk(f.node)):
                continue    # inner link of a longer chain, reported at the outermost call
            found += 1
            ok = order[:1] == ['estimates'] and 'inits' in order
            chk.instance(Z8, f'{unparse(c)[:80]}: precedence {order}')
            if not ok:
                chk.violation(Z8, rm.rel, f.name, unparse(c)[:100],
                              f'the values substituted into MU_i have precedence {order}: the model\'s initial estimates must '
                              f'only fill in what the final estimates do not provide (fixed parameters)', line=c.lineno,
                              witness='SAEM/IMP run of a MU-referenced model whose final thetas differ from the initial ones: '
                                      'every individual estimate is shifted by log(theta_final/theta_init)')
    if found == 0:
        raise AnalysisError('Z8: substitution of the parameter values into MU not recognised')
    tm = repo.module('pharmpy.model.external.nonmem.table')
    pt = tm.classes.get('PhiTable')
    if pt is None:
        raise AnalysisError('PhiTable not found')
    filters = {}
    for name, m in pt.methods.items():
        for n in walk_no_nested(m.node):
            if isinstance(n, ast.Assign) and isinstance(n.value, ast.Subscript) and isinstance(n.value.value, ast.Attribute) \
                    and n.value.value.attr == 'loc' and any(isinstance(c, ast.Call) and isinstance(c.func, ast.Attribute)
                                                             and c.func.attr == 'any' for c in ast.walk(n.value.slice)):
                # the name of the frame the filter is applied to is immaterial (df / df_copy / ...): written DF
                recv = n.value.value.value
                txt = unparse(n.value.slice)
                import re as _re
                txt = _re.sub(rf'(?<![\w.]){_re.escape(unparse(recv))}\b', 'DF', txt)
                filters[name] = txt
    if len(filters) < 3:
        raise AnalysisError(f'Z9: row filters of PhiTable not recognised ({filters})')
    common = max(set(filters.values()), key=list(filters.values()).count)
    for name, flt in sorted(filters.items()):
        chk.instance(Z9, f'PhiTable.{name}: rows kept where {flt}')
        if flt != common:
            chk.violation(Z9, tm.rel, f'PhiTable.{name}', flt,
                          f'the sibling views keep rows where {common}; this view uses another rule, so the views disagree '
                          f'about which individuals exist', line=pt.methods[name].node.lineno,
                          witness='an individual whose ETAs are exactly zero but whose OBJ/ETC are not: present in '
                                  'individual_ofv and the covariances, missing from individual_estimates')


def run_z10_z11(chk, repo):
    Z10 = chk.rule('Z10', 'rows/columns of FIXed parameters in cov/cor/coi tables are recognised by exact zeros (no tolerance)',
                   floor=1)
    Z11 = chk.rule('Z11', 'flattened triangular matrices of NONMEM tables are unpacked row-wise (lower triangle): through '
                          'flattened_to_symmetric / tril indices, never triu indices', floor=1)
    tm = repo.module('pharmpy.model.external.nonmem.table')
    cov = tm.classes.get('CovTable')
    f = cov.methods.get('data_frame') if cov else None
    if f is None:
        raise AnalysisError('CovTable.data_frame not found')
    tol = [c for c in ast.walk(f.node) if isinstance(c, ast.Call) and (dotted(c.func) or '').split('.')[-1] in
           ('isclose', 'allclose', 'round', 'around')]
    zero_cmp = [c for c in ast.walk(f.node) if isinstance(c, ast.Compare) and isinstance(c.ops[0], (ast.NotEq, ast.Eq))
                and isinstance(c.comparators[0], ast.Constant) and c.comparators[0].value == 0]
    chk.instance(Z10, f'CovTable.data_frame: exact zero comparisons {len(zero_cmp)}, tolerance calls {[unparse(t)[:30] for t in tol]}')
    if tol or not zero_cmp:
        site = tol[0] if tol else f.node
        chk.violation(Z10, tm.rel, f.qualname, unparse(site)[:80] if tol else 'no exact zero test',
                      'NONMEM writes exact zeros for FIXed parameters; a tolerance also drops an estimated parameter on a small '
                      'scale (variance ~1e-14)', line=site.lineno,
                      witness='clearance in other units (THETA ~ 5e-6): its row of the .cov file is below 1e-8 everywhere and the '
                              'parameter disappears from covariance_matrix')
    n = 0
    for c_ in tm.classes.values():
        for m in c_.methods.values():
            calls = [c for c in ast.walk(m.node) if isinstance(c, ast.Call)]
            tri = [c for c in calls if (dotted(c.func) or '').split('.')[-1] in ('triu_indices', 'triu_indices_from',
                                                                                  'tril_indices', 'tril_indices_from')]
            helper = [c for c in calls if (dotted(c.func) or '').split('.')[-1] == 'flattened_to_symmetric']
            if not tri and not helper:
                continue
            n += 1
            bad = [c for c in tri if 'triu' in (dotted(c.func) or '')]
            chk.instance(Z11, f'{m.qualname}: unpacks through {[unparse(c.func) for c in helper + tri]}')
            for c in bad:
                chk.violation(Z11, tm.rel, m.qualname, unparse(c),
                              'NONMEM lists ETC(1,1), ETC(2,1), ETC(2,2), ETC(3,1), ...: upper-triangle indices enumerate the '
                              'lower triangle column by column, which differs from three variables on', line=c.lineno,
                              witness='a model with three etas: ETC(2,2) and ETC(3,1) are swapped in every individual matrix')
    if n == 0:
        raise AnalysisError('Z11: no triangular unpacking found in table.py')


def run_z12_z14(chk, repo):
    """Z12: the search for the last real estimation step looks at every step including the first; Z13: a log keyed by position
    is rebuilt in numeric order; Z14: $TABLE without NOAPPEND: PRED RES WRES move to the appended block, an explicit DV stays"""
    from sa.scans import scan
    from sa import reach
    Z12 = chk.rule('Z12', '_get_last_est: the backward scan over the estimation steps reaches step 0', floor=1)
    rm = repo.module('pharmpy.tools.external.nonmem.results')
    f = rm.functions.get('_get_last_est')
    if f is None:
        raise AnalysisError('_get_last_est not found')
    its = [L.iter for L in ast.walk(f.node) if isinstance(L, ast.For)] + \
          [g.iter for c in ast.walk(f.node) if isinstance(c, (ast.GeneratorExp, ast.ListComp)) for g in c.generators]
    if not its:
        raise AnalysisError('Z12: scan over the estimation steps not found')
    for it in its:
        sc = scan(it)
        ok = sc is not None and sc.direction == 'desc' and sc.reaches_zero()
        chk.instance(Z12, f'_get_last_est: scan `{unparse(it)}` '
                          f'{"(%s, first %s, last %s)" % (sc.direction, sc.first, sc.last) if sc else "(not recognised)"}: '
                          f'backwards down to step 0: {ok}')
        if sc is None:
            raise AnalysisError(f'Z12: scan `{unparse(it)}` not recognised')
        if not ok:
            chk.violation(Z12, rm.rel, f.name, unparse(it),
                          'step 0 is never examined (or the scan runs forwards): when the only real estimation is the first step '
                          'and evaluation-only steps follow, the status of the evaluation is reported',
                          line=it.lineno,
                          witness='FOCE followed by IMP EONLY=1: minimization_successful, function_evaluations and the runtime '
                                  'are those of the evaluation step')
    Z13 = chk.rule('Z13', 'Log.from_dict rebuilds the entries in the order of the (positional) keys as numbers: no '
                          'lexicographic sort of keys that JSON turned into strings', floor=1)
    lm = repo.module('pharmpy.workflows.log')
    lg = lm.classes.get('Log')
    fd = lg.methods.get('from_dict') if lg else None
    if fd is None:
        raise AnalysisError('Log.from_dict not found')
    sorts = [c for c in ast.walk(fd.node) if isinstance(c, ast.Call) and dotted(c.func) == 'sorted']
    chk.instance(Z13, f'Log.from_dict: {len(sorts)} sorted() call(s)')
    for c in sorts:
        keyfn = [k for k in c.keywords if k.arg == 'key']
        numeric = keyfn and ({'int', 'float'} & names(keyfn[0].value))
        if not numeric:
            chk.violation(Z13, lm.rel, fd.qualname, unparse(c),
                          'position keys become strings in JSON; sorted() orders them 0, 1, 10, 11, 2, ...', line=c.lineno,
                          witness='read_results(res.to_json()).log for a log with 12 entries comes back permuted')
    Z14 = chk.rule('Z14', '$TABLE without NOAPPEND: DV PRED RES WRES are appended; PRED RES WRES listed explicitly are moved '
                          'there, an explicitly listed DV keeps its place', floor=1)
    pm = repo.module('pharmpy.model.external.nonmem.parsing')
    pt = pm.functions.get('parse_table_columns')
    if pt is None:
        raise AnalysisError('parse_table_columns not found')
    cfg = CFG(pt.node)

    def literal_list(e, at):
        x = reach.expand_expr(cfg, at, e) if at is not None else e
        parts = []

        def flat(y):
            if isinstance(y, ast.BinOp) and isinstance(y.op, ast.Add):
                flat(y.left)
                flat(y.right)
            else:
                parts.append(y)
        flat(x)
        out = []
        for p_ in parts:
            if isinstance(p_, (ast.List, ast.Tuple)) and all(isinstance(z, ast.Constant) for z in p_.elts):
                out += [z.value for z in p_.elts]
            else:
                return None
        return out
    found = 0
    for I in [x for x in ast.walk(pt.node) if isinstance(x, ast.If) and 'noappend' in unparse(x.test)]:
        removed = appended = None
        for s_ in ast.walk(I):
            if isinstance(s_, (ast.ListComp, ast.GeneratorExp)) and s_.generators[0].ifs:
                t = s_.generators[0].ifs[0]
                if isinstance(t, ast.Compare) and isinstance(t.ops[0], ast.NotIn):
                    removed = literal_list(t.comparators[0], reach.node_containing(cfg, s_))
            if isinstance(s_, ast.Call) and isinstance(s_.func, ast.Attribute) and s_.func.attr == 'extend' and s_.args:
                appended = literal_list(s_.args[0], reach.node_containing(cfg, s_))
        if removed is None and appended is None:
            continue
        found += 1
        ok = removed is not None and set(removed) == {'PRED', 'RES', 'WRES'} and appended == ['DV', 'PRED', 'RES', 'WRES']
        chk.instance(Z14, f'parse_table_columns: removed from the listed items {removed}, appended {appended}: as NONMEM does {ok}')
        if not ok:
            chk.violation(Z14, pm.rel, pt.name, f'removed {removed}, appended {appended}',
                          'NONMEM appends DV PRED RES WRES; explicitly listed PRED/RES/WRES are printed only there, an explicitly '
                          'listed DV is printed in place as well', line=I.lineno,
                          witness='$TABLE ID TIME DV IPRED CWRES (no NOAPPEND): every column after DV is read one position too '
                                  'early')
    if found == 0:
        raise AnalysisError('Z14: handling of the appended columns not found in parse_table_columns')


def run_z15_z17(chk, repo):
    """Z15: a Series that holds DataFrames is encoded element-wise also when it has ONE element; Z16: rows of the residual table
    are observation rows iff at least one residual is non-zero; Z17: when the ext file has no standard errors of the sd/corr
    form, the covariance step counts as aborted (cov/cor/coi are not reported next to NaN standard errors)"""
    from sa import iterspace as IS
    from sa import reach
    Z15 = chk.rule('Z15', 'ResultsJSONEncoder: the Series-of-DataFrames case includes size 1', floor=1)
    wm = repo.module('pharmpy.workflows.results')
    enc = wm.classes.get('ResultsJSONEncoder')
    df = enc.methods.get('default') if enc else None
    if df is None:
        raise AnalysisError('ResultsJSONEncoder.default not found')
    n = 0
    for I in [x for x in ast.walk(df.node) if isinstance(x, ast.If)]:
        if 'DataFrame' in unparse(I.test) and 'iloc' in unparse(I.test):
            for c in [x for x in ast.walk(I.test) if isinstance(x, ast.Compare) and 'size' in unparse(x.left) + 'len' in ''
                      or isinstance(x, ast.Compare) and ('.size' in unparse(x) or 'len(' in unparse(x))]:
                n += 1
                key = unparse(c.left)
                try:
                    res = {k: bool(IS.ev_x(c, {key: k})) for k in (0, 1, 2)}
                except Exception as ex:
                    raise AnalysisError(f'Z15: size test not evaluable: {ex}')
                ok = res == {0: False, 1: True, 2: True}
                chk.instance(Z15, f'encoder: `{unparse(c)}` for sizes 0, 1, 2: {res}: {ok}')
                if not ok:
                    chk.violation(Z15, wm.rel, df.qualname, unparse(c),
                                  'a Series with exactly one DataFrame takes the generic Series path: the frame is flattened to a '
                                  'list of dicts', line=c.lineno,
                                  witness='individual_estimates_covariance of a run with one individual: read_results(to_json) '
                                          'returns a list instead of a DataFrame')
    if n == 0:
        raise AnalysisError('Z15: size test of the Series-of-DataFrames case not found')
    rm = repo.module('pharmpy.tools.external.nonmem.results')
    Z16 = chk.rule('Z16', '_parse_residuals keeps a row iff at least one residual column is non-zero', floor=1)
    f = rm.functions.get('_parse_residuals')
    if f is None:
        raise AnalysisError('_parse_residuals not found')
    n16 = 0
    for c in ast.walk(f.node):
        if isinstance(c, ast.Call) and isinstance(c.func, ast.Attribute) and c.func.attr in ('any', 'all') \
                and any(isinstance(k.value, ast.Constant) and k.value.value == 1 for k in c.keywords if k.arg == 'axis'):
            cmp_ = next((x for x in ast.walk(c.func.value) if isinstance(x, ast.Compare) and isinstance(x.comparators[0], ast.Constant)
                         and x.comparators[0].value == 0), None)
            if cmp_ is None:
                continue
            n16 += 1
            # is the whole selector negated?
            neg = False
            for p_ in ast.walk(f.node):
                if isinstance(p_, ast.UnaryOp) and isinstance(p_.op, (ast.Invert, ast.Not)) and p_.operand is c:
                    neg = True
            form = (type(cmp_.ops[0]).__name__, c.func.attr, neg)
            ok = form in (('NotEq', 'any', False), ('Eq', 'all', True))
            chk.instance(Z16, f'_parse_residuals: row selector {form} means "some residual is non-zero": {ok}')
            if not ok:
                chk.violation(Z16, rm.rel, f.name, unparse(c)[:80],
                              'an observation whose residual in one column is exactly zero is dropped (or non-observation rows '
                              'are kept)', line=c.lineno,
                              witness='DV equal to PRED on one record (RES = 0.0000E+00, CWRES = -0.40): 154 of 155 residual rows')
    if n16 == 0:
        raise AnalysisError('Z16: row selector of _parse_residuals not found')
    Z17 = chk.rule('Z17', '_parse_standard_errors: when the sd/corr standard errors are missing the covariance step is flagged as '
                          'aborted', floor=1)
    g = rm.functions.get('_parse_standard_errors')
    if g is None:
        raise AnalysisError('_parse_standard_errors not found')
    cfg = CFG(g.node)
    n17 = 0
    for T in [x for x in ast.walk(g.node) if isinstance(x, ast.Try)]:
        if not any('omega_sigma_se_stdcorr' in unparse(s_) for s_ in T.body):
            continue
        for h in T.handlers:
            rets = [n_ for n_ in cfg.nodes.values() if n_.kind == 'return' and any(n_.ast is x for x in ast.walk(h))]
            for r in rets:
                n17 += 1
                v = r.ast.value
                last = v.elts[-1] if isinstance(v, ast.Tuple) and v.elts else v
                e = reach.expand_expr(cfg, r.id, last) if isinstance(last, ast.Name) else last
                # the value of the flag on this path: its reaching definitions at the return
                vals = reach.values(cfg, r.id, last.id) if isinstance(last, ast.Name) else [(None, last)]
                ok = bool(vals) and all(isinstance(val, ast.Constant) and val.value is True for _d, val in vals)
                chk.instance(Z17, f'_parse_standard_errors: missing sd/corr row -> returns cov_abort = '
                                  f'{[unparse(val) for _d, val in (vals or [])]}: {ok}')
                if not ok:
                    chk.violation(Z17, rm.rel, g.name, unparse(r.ast)[:80],
                                  'the covariance matrices are read and reported although the standard errors are all NaN',
                                  line=r.line,
                                  witness='an ext file with the -1000000001 row but without -1000000005: cov/cor/coi are '
                                          'reported next to NaN standard errors')
    if n17 == 0:
        raise AnalysisError('Z17: handler for the missing sd/corr standard errors not found')


def run_z18_z19(chk, repo):
    """Z18: the final OFV is read from the last table that passed the subproblem / design-optimality filter, i.e. from the
    loop variable of the filtered loop, not from a position in the unfiltered table list; Z19: the method-specific name of the
    objective-function column (SAEMOBJ, MCMCOBJ, ..) is normalised to OBJ before any table class that reads 'OBJ' is built"""
    from sa.cfg import CFG
    Z18 = chk.rule('Z18', '_parse_ofv: the table whose final_ofv is reported is the last one that passed the filter of the loop '
                          'that collects the iterations', floor=1)
    rm = repo.module('pharmpy.tools.external.nonmem.results')
    po = rm.functions.get('_parse_ofv')
    if po is None:
        raise AnalysisError('Z18: _parse_ofv not found')
    reads = [a for a in ast.walk(po.node) if isinstance(a, ast.Attribute) and a.attr == 'final_ofv' and isinstance(a.value, ast.Name)]
    if not reads:
        raise AnalysisError('Z18: no <table>.final_ofv read in _parse_ofv')
    loops = [L for L in ast.walk(po.node) if isinstance(L, ast.For) and 'tables' in unparse(L.iter)
             and any(isinstance(x, ast.Continue) for x in ast.walk(L))]
    if not loops:
        raise AnalysisError('Z18: no filtered loop over the ext tables in _parse_ofv')
    for a in reads:
        var = a.value.id
        defs = [n for n in ast.walk(po.node) if isinstance(n, ast.Assign) and any(
            isinstance(t, ast.Name) and t.id == var for t in n.targets)]
        for d in defs:
            if isinstance(d.value, ast.Constant) and d.value.value is None:
                continue
            L = next((L for L in loops if any(x is d for x in ast.walk(L))), None)
            tnames = {x.id for x in ast.walk(L.target) if isinstance(x, ast.Name)} if L is not None else set()
            if L is not None:
                # plain copies of the loop variables inside the body (`n, table = (n_, table_)` left by an inlined generator)
                for _ in range(3):
                    for a_ in ast.walk(L):
                        if isinstance(a_, ast.Assign) and len(a_.targets) == 1:
                            tg, vl = a_.targets[0], a_.value
                            pairs_ = list(zip(tg.elts, vl.elts)) if isinstance(tg, ast.Tuple) and isinstance(vl, ast.Tuple) \
                                and len(tg.elts) == len(vl.elts) else [(tg, vl)]
                            for t_, v_ in pairs_:
                                if isinstance(t_, ast.Name) and isinstance(v_, ast.Name) and v_.id in tnames:
                                    tnames.add(t_.id)
            # position in the loop body, not line numbers (statements of an inlined helper keep the lines of the helper)
            pos_d = next((k for k, s_ in enumerate(L.body) if any(x is d for x in ast.walk(s_))), -1) if L is not None else -1
            after_filter = L is not None and any(
                isinstance(s_, ast.If) and any(isinstance(x, ast.Continue) for x in ast.walk(s_)) and k < pos_d
                for k, s_ in enumerate(L.body))
            ok = L is not None and isinstance(d.value, ast.Name) and d.value.id in tnames and after_filter
            chk.instance(Z18, f'_parse_ofv: {unparse(d)} (read as {unparse(a)}): loop variable after the filter: {ok}')
            if not ok:
                chk.violation(Z18, rm.rel, '_parse_ofv', unparse(d)[:100],
                              'the final OFV is taken from a table that did not pass the subproblem / design-optimality filter',
                              line=d.lineno,
                              witness='an estimation table followed by a D-OPTIMALITY evaluation table, or subproblem=1 of 2: the '
                                      'reported ofv is the design criterion / the OFV of another subproblem while ofv_iterations '
                                      'ends at the right value')
    Z19 = chk.rule('Z19', 'NONMEMTableFile._parse_table: the [A-Z]*OBJ -> OBJ header normalisation dominates the construction of '
                          'every table class that reads the OBJ column', floor=2)
    tm = repo.module('pharmpy.model.external.nonmem.table')
    tf = tm.classes.get('NONMEMTableFile')
    pt = tf.methods.get('_parse_table') if tf else None
    if pt is None:
        raise AnalysisError('Z19: NONMEMTableFile._parse_table not found')
    readers = {c.name for c in dict.values(tm.classes) if any(
        isinstance(x, ast.Constant) and x.value == 'OBJ' for m_ in c.methods.values() for x in ast.walk(m_.node))}
    cfg = CFG(pt.node)
    compiled = {a_.targets[0].id: a_.value.args[0].value for a_ in tm.tree.body
                if isinstance(a_, ast.Assign) and len(a_.targets) == 1 and isinstance(a_.targets[0], ast.Name)
                and isinstance(a_.value, ast.Call) and dotted(a_.value.func) == 're.compile' and a_.value.args
                and isinstance(a_.value.args[0], ast.Constant) and isinstance(a_.value.args[0].value, str)}

    def is_norm(c):
        if not (isinstance(c, ast.Call) and (dotted(c.func) or '').endswith('sub')):
            return False
        if len(c.args) >= 2 and isinstance(c.args[0], ast.Constant) and str(c.args[0].value).endswith('OBJ') \
                and isinstance(c.args[1], ast.Constant) and c.args[1].value == 'OBJ':
            return True                     # re.sub(r'[A-Z]*OBJ', 'OBJ', text)
        return isinstance(c.func, ast.Attribute) and isinstance(c.func.value, ast.Name) \
            and str(compiled.get(c.func.value.id, '')).endswith('OBJ') and c.args \
            and isinstance(c.args[0], ast.Constant) and c.args[0].value == 'OBJ'      # _OBJ_RE.sub('OBJ', text)
    norm = [n for n in cfg.nodes.values() if n.ast is not None and n.kind == 'stmt' and any(is_norm(c) for c in ast.walk(n.ast))]
    if not norm or not readers:
        raise AnalysisError(f'Z19: normalisation ({len(norm)}) or table classes reading OBJ ({sorted(readers)}) not found')
    for n in cfg.nodes.values():
        if n.ast is None or n.kind != 'stmt':
            continue
        for c in [c for c in ast.walk(n.ast) if isinstance(c, ast.Call) and isinstance(c.func, ast.Name) and c.func.id in readers]:
            ok = any(cfg.dominates(m_.id, n.id) for m_ in norm)
            chk.instance(Z19, f'_parse_table: {c.func.id}(..) built from normalised text: {ok}')
            if not ok:
                chk.violation(Z19, tm.rel, pt.qualname, unparse(c)[:80],
                              f'{c.func.id} reads the column OBJ, but its text reaches it without the SAEMOBJ/MCMCOBJ -> OBJ '
                              f'normalisation', line=c.lineno,
                              witness='a phi file written by SAEM or BAYES: PhiTable.iofv raises KeyError, _parse_phi swallows it '
                                      'and individual_ofv / individual_estimates are silently None')


def run_z20(chk, repo):
    """Z20: ext-files of NONMEM 7.2 have no -1000000006 (FIXED) row; the fallback of _get_fixed_parameters takes the flags of the
    model parameters from the model and must flag every other ext column (the structural zeros of a diagonal OMEGA/SIGMA, which
    NONMEM prints but never estimates) as fixed: the constant that fills the flags of the non-model columns is True."""
    Z20 = chk.rule('Z20', '_get_fixed_parameters (no FIXED row in the ext-file): columns that are not model parameters are '
                          'flagged fixed (fill constant True)', floor=1)
    rm = repo.module('pharmpy.tools.external.nonmem.results')
    f = rm.functions.get('_get_fixed_parameters')
    if f is None:
        raise AnalysisError('Z20: _get_fixed_parameters not found')
    fills = []
    for c in ast.walk(f.node):
        if not isinstance(c, ast.Call):
            continue
        nm = (dotted(c.func) or unparse(c.func)).split('.')[-1]
        if nm == 'Series' and c.args and isinstance(c.args[0], ast.Constant) and isinstance(c.args[0].value, bool):
            fills.append((c, c.args[0].value))
        for k in c.keywords:
            if k.arg in ('fill_value', 'value') and isinstance(k.value, ast.Constant) and isinstance(k.value.value, bool):
                fills.append((c, k.value.value))
        if nm in ('fillna', 'full') and c.args and isinstance(c.args[-1], ast.Constant) and isinstance(c.args[-1].value, bool):
            fills.append((c, c.args[-1].value))
    if not fills:
        raise AnalysisError('Z20: no boolean fill constant for the non-model columns found in _get_fixed_parameters')
    for c, v in fills:
        chk.instance(Z20, f'_get_fixed_parameters: {unparse(c)[:70]}: fill {v}')
        if v is not True:
            chk.violation(Z20, rm.rel, f.qualname, unparse(c)[:80],
                          'ext columns that are not parameters of the model (OMEGA(2,1) of a diagonal OMEGA) are flagged as '
                          'estimated: they appear in parameter_estimates, standard_errors and the matrices', line=c.lineno,
                          witness='pheno_real with the -1000000006 row removed from the ext-file: parameter_estimates gains '
                                  "'OMEGA(2,1)'")
