"""C06 Models are immutable values: M1 dataset alias/mutation analysis, M2 value-class field discipline,
M3 eq/hash consistency, M4 validated concatenation, M5 validators dominate constructor returns."""
from __future__ import annotations

import ast

from sa.alias import AliasAnalysis
from sa.cfg import CFG
from sa.classes import (init_fields, init_param_of_field, method_fields, fields_of, uses_as_sequence,
                        seq_field, self_name)
from sa.report import AnalysisError
from sa.srcmodel import unparse, walk_no_nested, calls_in, owner_class, dotted

IMMUTABLE = 'pharmpy.internals.immutable.Immutable'
UNHASHABLE_ANN = ('DataFrame', 'Series', 'list', 'List', 'dict', 'Dict', 'set', 'Set', 'ndarray', 'DiGraph', 'Graph')
IDENTITY_CTORS = ('nx.freeze', 'nx.DiGraph', 'nx.Graph', 'networkx.DiGraph', 'pd.DataFrame')


def is_public(f):
    if f.parent is not None:
        return False
    n = f.name
    return not n.startswith('_') or (n.startswith('__') and n.endswith('__'))


def names(node):
    return {n.id for n in ast.walk(node) if isinstance(n, ast.Name)}


def run(chk, repo, tier):
    chk.explanation = (
        'M1: interprocedural may-alias analysis (tags: parameter / its dataset / model carrying it) over all '
        'functions of pharmpy, reporting every in-place write (item/attribute store, del, inplace=True, mutator '
        'method, callee that mutates its argument) that can reach the DataFrame owned by a model passed in by an API '
        'caller. M2: no store to a hash/eq-relevant constructor field of a value class outside __init__ (on self or '
        'on a copy-constructed instance), no list stored into a hashed field. M3: fields feeding __hash__ are a '
        'subset of the fields compared by __eq__, no identity-hashed or unhashable field is hashed directly. M4: containers whose create() enforces unique names do not concatenate '
        'foreign elements through the raw constructor. M5: the bound / uniqueness validators dominate every '
        'constructor return. NOT decided: well-formedness of values computed at run time, generated code.')
    M1 = chk.rule('M1', 'no in-place mutation reaches the DataFrame (dataset / initial individual estimates) of a '
                        'model owned by the caller', floor=100)
    M2 = chk.rule('M2', 'hash/eq-relevant constructor fields of value classes are stored only in __init__/__new__ '
                        '(or on a fresh, not copy-constructed local) and never hold an unhashable display', floor=60)
    M3 = chk.rule('M3', 'hash fields subset of eq fields; no identity-hashed / unhashable field hashed directly', floor=20)
    M4 = chk.rule('M4', 'a container whose create() enforces unique names never builds self+foreign elements with the '
                        'raw constructor', floor=2)
    M5 = chk.rule('M5', 'validators (bounds, unique names) are evaluated on every path to the constructor return',
                  floor=3)

    # ------------------------------------------------------------------ M1
    aa = AliasAnalysis(repo)
    aa.run()
    ext = aa.external_params(is_public)
    n_src = 0
    for f in repo.all_funcs():
        src = sum(1 for n in walk_no_nested(f.node) if isinstance(n, ast.Attribute)
                  and n.attr in ('dataset', '_dataset', 'initial_individual_estimates'))
        src += sum(1 for c in calls_in(f.node) if unparse(c.func).endswith('get_and_check_dataset'))
        if src:
            n_src += 1
            chk.instance(M1, f'{f.fq}: {src} dataset source(s), {len(aa.sinks.get(f.fq, []))} tagged sink(s)')
    chk.extra['M1_functions_summarised'] = len(aa.summ)
    chk.extra['M1_calls_resolved'] = aa.resolved
    chk.extra['M1_calls_unresolved_assumed_non_mutating'] = aa.unresolved
    for fq, sinks in aa.sinks.items():
        for s in sinks:
            if s.tag[0] != 'D':
                continue
            if s.via != 'direct':
                callee = s.via
                # the callee's own sink is reported there when it mutates an attribute of its parameter;
                # report here only when the callee mutates the object it was handed (a DataFrame parameter)
                if not aa.summ[callee].mut:
                    continue
                if not any(('V', j) for j in aa.summ[callee].mut):
                    continue
                if 'is mutated by' in s.chain and s.chain.startswith('.'):
                    continue
            f = s.func
            i = s.tag[1]
            if (f.fq, i) not in ext:
                continue
            pname = f.all_params[i] if i < len(f.all_params) else '?'
            entry = _entry_path(aa, f, is_public)
            chk.violation(M1, f.module.rel, f.qualname, s.text,
                          f'in-place write reaches `{pname}.{s.tag[2]}` (the caller\'s DataFrame): {s.chain}',
                          witness=f'call {" -> ".join(entry)} with a model and compare model.{s.tag[2]} '
                                  f'before/after: columns/values of the argument change',
                          line=s.line, path=entry)

    # ------------------------------------------------------------------ value classes
    value_classes = [c for c in repo.all_classes()
                     if '__hash__' in c.methods or repo.is_subclass(c, IMMUTABLE)]
    hashrel = {}    # class fq -> fields feeding __hash__ / __eq__ (own or inherited methods)
    for c in value_classes:
        flds = set()
        for meth in ('__hash__', '__eq__'):
            m = repo.find_method(c, meth)
            if m is not None and owner_class(m) is not None:
                flds |= method_fields(repo, owner_class(m), m)
        # memo caches written by __hash__ itself (e.g. `_hash`) are not value fields
        hm = repo.find_method(c, '__hash__')
        memo = {'_hash'}
        if hm is not None:
            for n in ast.walk(hm.node):
                if isinstance(n, ast.Assign):
                    for t in n.targets:
                        if isinstance(t, ast.Attribute) and isinstance(t.value, ast.Name) and t.value.id == 'self':
                            memo.add(t.attr)
        hashrel[c.fq] = (flds & set(init_fields(repo, c))) - memo
    name_based = set()
    for c in value_classes:
        name_based |= hashrel[c.fq]
    by_name = {c.name: c for c in value_classes}

    # ---- M2
    for f in repo.all_funcs():
        oc = owner_class(f)
        params = set(f.all_params)
        binds = {}     # local -> list of value expressions
        for n in walk_no_nested(f.node):
            if isinstance(n, ast.Assign) and len(n.targets) == 1 and isinstance(n.targets[0], ast.Name):
                binds.setdefault(n.targets[0].id, []).append(n.value)
        for n in walk_no_nested(f.node):
            tgts = []
            val = None
            if isinstance(n, ast.Assign):
                tgts, val = n.targets, n.value
            elif isinstance(n, (ast.AugAssign, ast.AnnAssign)):
                tgts, val = [n.target], n.value
            for t in tgts:
                for tt in (t.elts if isinstance(t, ast.Tuple) else [t]):
                    # obj.field[key] = value writes into the container held by the field: same discipline
                    if isinstance(tt, ast.Subscript) and isinstance(tt.value, ast.Attribute) \
                            and isinstance(tt.value.value, ast.Name):
                        tt = tt.value
                    if not (isinstance(tt, ast.Attribute) and isinstance(tt.value, ast.Name)):
                        continue
                    who, attr = tt.value.id, tt.attr
                    me = self_name(f) if oc else None
                    if who == me and oc is not None and oc.fq in hashrel:
                        in_init = f.name in ('__init__', '__new__', '__setstate__') and f.parent is None
                        if attr in hashrel[oc.fq] or (repo.is_subclass(oc, IMMUTABLE) and attr in init_fields(repo, oc)):
                            chk.instance(M2, f'{f.fq}: self.{attr} store (in constructor: {in_init})')
                            if not in_init:
                                chk.violation(M2, f.module.rel, f.qualname, unparse(n).split('\n')[0],
                                              f'constructor field {oc.name}.{attr} is rebound outside the constructor',
                                              line=n.lineno,
                                              witness='an object that was handed out (or already hashed / stored in '
                                                      'a set) changes its value')
                            if in_init and attr in hashrel[oc.fq] and isinstance(val, (ast.List, ast.ListComp, ast.Dict,
                                                                                      ast.Set, ast.DictComp)):
                                chk.violation(M2, f.module.rel, f.qualname, unparse(n).split('\n')[0],
                                              'an unhashable display is stored into a hashed field', line=n.lineno,
                                              witness='hash(obj) raises TypeError')
                        continue
                    if who == me:
                        continue
                    # store on another object
                    K = None
                    vals = binds.get(who, [])
                    fresh_calls = [v for v in vals if isinstance(v, ast.Call)]
                    for v in fresh_calls:
                        cn = unparse(v.func).split('.')[-1]
                        if cn in by_name:
                            K = by_name[cn]
                    is_param = who in params
                    if K is None and is_param:
                        pt = repo.param_types(f).get(who)
                        if pt is not None and pt.fq in hashrel:
                            K = pt
                    if K is None:
                        # receiver class unknown: cannot decide (name collisions such as CodeRecord._statements)
                        if attr in name_based and attr.startswith('_'):
                            chk.violation(M2, f.module.rel, f.qualname, unparse(n).split('\n')[0],
                                          f'store to `{attr}` on an object of unknown class', line=n.lineno,
                                          advisory=True)
                        continue
                    relevant = attr in hashrel[K.fq]
                    if not relevant:
                        continue
                    copy_constructed = any(
                        any(isinstance(a, ast.Name) and (a.id == me or a.id in params) for a in v.args)
                        for v in fresh_calls if K is not None and unparse(v.func).split('.')[-1] == K.name)
                    fresh = bool(fresh_calls) and len(fresh_calls) == len(vals) and not is_param
                    chk.instance(M2, f'{f.fq}: {who}.{attr} store on '
                                     f'{"fresh" if fresh and not copy_constructed else "shared"} object')
                    if not fresh or copy_constructed:
                        chk.violation(M2, f.module.rel, f.qualname, unparse(n).split('\n')[0],
                                      f'hash/eq-relevant field `{attr}` of '
                                      f'{"a copy-constructed " + K.name if copy_constructed else "an object that is not fresh"} '
                                      f'is overwritten outside the constructor', line=n.lineno,
                                      witness='copy construction carries the cached hash of the source: the new '
                                              'object keeps the hash of the old content, so equal objects get different '
                                              'hashes (or the argument object itself is changed)')
                    if isinstance(val, (ast.List, ast.ListComp, ast.Dict, ast.Set, ast.DictComp)) and relevant:
                        chk.violation(M2, f.module.rel, f.qualname, unparse(n).split('\n')[0],
                                      f'an unhashable display is stored into the hashed field `{attr}`', line=n.lineno,
                                      witness='hash(result) raises TypeError although all other instances hash')
    # every Immutable subclass: no __copy__/__deepcopy__ override returning something else, counted as instances
    imm = repo.subclasses(IMMUTABLE)
    if len(imm) < 50:
        raise AnalysisError(f'only {len(imm)} Immutable subclasses found (expected > 50)')
    for c in imm:
        chk.instance(M2, f'{c.fq}: Immutable subclass')
        for meth in ('__copy__', '__deepcopy__', '__setattr__'):
            if meth in c.methods:
                chk.violation(M2, c.module.rel, c.name, f'def {meth}', f'{c.name} overrides {meth} of Immutable',
                              line=c.methods[meth].node.lineno,
                              witness='copy.copy(obj) no longer returns an equal (the same) object')

    # ---- M6 validated collections are not built through the raw constructor when new names enter
    M6 = chk.rule('M6', 'modeling functions that add a newly named Parameter build the collection through Parameters.create '
                        '(the raw constructor skips the unique-name validation)', floor=10)
    n6 = 0
    for f in repo.all_funcs():
        if not f.module.name.startswith('pharmpy.modeling'):
            continue
        raw = [c for c in calls_in(f.node) if isinstance(c.func, ast.Name) and c.func.id == 'Parameters' and c.args]
        for c in raw:
            n6 += 1
            arg = c.args[0]
            base = arg.args[0] if isinstance(arg, ast.Call) and unparse(arg.func) in ('tuple', 'list') and arg.args else arg
            news = []
            if isinstance(base, ast.Name):
                L = base.id
                for n in walk_no_nested(f.node):
                    val = None
                    if isinstance(n, ast.Expr) and isinstance(n.value, ast.Call) and isinstance(n.value.func, ast.Attribute) \
                            and n.value.func.attr in ('append', 'insert') and unparse(n.value.func.value) == L and n.value.args:
                        val = n.value.args[-1]
                    if isinstance(n, ast.AugAssign) and unparse(n.target) == L:
                        val = n.value
                    if val is None:
                        continue
                    for pc in ast.walk(val):
                        if isinstance(pc, ast.Call) and unparse(pc.func) in ('Parameter', 'Parameter.create'):
                            name_arg = pc.args[0] if pc.args else next((k.value for k in pc.keywords if k.arg == 'name'), None)
                            if name_arg is None or isinstance(name_arg, ast.Constant):
                                continue
                            if isinstance(name_arg, ast.Attribute) and name_arg.attr == 'name':
                                continue      # the name of an existing parameter
                            news.append(unparse(pc)[:60])
            chk.instance(M6, f'{f.qualname}: Parameters({unparse(arg)[:40]}) raw constructor; newly named members: {news}')
            for nw in news:
                chk.violation(M6, f.module.rel, f.qualname, f'Parameters({unparse(arg)[:50]}) with {nw}',
                              'a parameter with a computed name is added and the collection is built without the unique-name '
                              'check of Parameters.create', line=c.lineno,
                              witness="add_iiv twice on the same parameter with custom eta_names: the model has two parameters "
                                      "named IIV_<param> and the code two $OMEGA records with that name")
    if n6 < 5:
        raise AnalysisError(f'M6: only {n6} raw Parameters(...) constructions found in pharmpy.modeling')
    # ---- M3
    for c in repo.all_classes():
        e, h = c.methods.get('__eq__'), c.methods.get('__hash__')
        if not (e and h):
            continue
        eq_self = method_fields(repo, c, e)
        other = e.params[1] if len(e.params) > 1 else None
        eq_other = fields_of(repo, c, e.node, other) if other else set()
        if other and uses_as_sequence(e.node, other):
            eq_other |= seq_field(repo, c)
        hf = method_fields(repo, c, h)
        # super().__eq__ / super().__hash__ : add inherited method's fields
        for meth, acc in ((e, eq_self), (h, hf)):
            if any(isinstance(x, ast.Call) and unparse(x.func).startswith('super().') for x in ast.walk(meth.node)):
                for k in repo.mro(c)[1:]:
                    if meth.name in k.methods:
                        acc |= method_fields(repo, k, k.methods[meth.name])
                        break
        ctor = set(init_fields(repo, c))
        eq_self &= ctor
        eq_other &= ctor
        hf &= ctor
        # the `hash(self) != hash(other)` pre-check makes __eq__ depend on all hashed fields
        precheck = any(isinstance(x, ast.Compare) and 'hash(self)' in unparse(x) and 'hash(other)' in unparse(x)
                       for x in ast.walk(e.node))
        eq_eff = eq_self | (hf if precheck else set())
        chk.instance(M3, f'{c.fq}: hash{sorted(hf)} eq{sorted(eq_eff)}')
        for fld in sorted(hf - eq_eff):
            chk.violation(M3, c.module.rel, c.name, f'__hash__ uses {fld}, __eq__ does not',
                          f'{c.name}.__hash__ depends on `{fld}` which __eq__ ignores', line=h.node.lineno,
                          witness=f'two {c.name} objects that differ only in {fld}: a == b but hash(a) != hash(b) '
                                  f'(both stay in a set / dict lookups miss)')
        # directly hashed identity / unhashable fields
        ann = {}
        initf = repo.find_method(c, '__init__')
        if initf:
            for a in initf.node.args.args + initf.node.args.kwonlyargs:
                if a.annotation is not None:
                    ann[a.arg] = unparse(a.annotation)
        p_of = init_param_of_field(repo, c)
        fvals = init_fields(repo, c)
        for call in [x for x in ast.walk(h.node) if isinstance(x, ast.Call) and unparse(x.func) == 'hash']:
            elts = []
            for a in call.args:
                elts += a.elts if isinstance(a, ast.Tuple) else [a]
            for el in elts:
                if isinstance(el, ast.Attribute) and isinstance(el.value, ast.Name) and el.value.id == 'self' \
                        and el.attr in fvals:
                    a_txt = ann.get(p_of.get(el.attr, ''), '')
                    v_txt = unparse(fvals[el.attr])
                    bad = any(u in a_txt.replace('Optional', '') for u in UNHASHABLE_ANN) or \
                        any(v_txt.startswith(ic) for ic in IDENTITY_CTORS)
                    # tuple[...] annotations are fine
                    if a_txt.startswith(('tuple', 'Tuple', 'Optional[tuple', 'frozen')):
                        bad = False
                    chk.instance(M3, f'{c.name}.__hash__ element self.{el.attr}: {a_txt or v_txt}')
                    if bad:
                        chk.violation(M3, c.module.rel, c.name, f'hash(... self.{el.attr} ...)',
                                      f'`{el.attr}` ({a_txt or v_txt}) is hashed directly: unhashable or hashed by '
                                      f'identity', line=call.lineno,
                                      witness='hash(obj) raises TypeError, or two equal objects built separately '
                                              'have different hashes')

    # ---- M8: computed estimates and bounds go through the validating constructor
    M8 = chk.rule('M8', 'a Parameter whose initial estimate or bounds are computed inside pharmpy.modeling (result of a '
                        'helper call, e.g. bounds derived from the data) is built with Parameter.create (validates '
                        'lower <= init <= upper), not with the raw constructor', floor=3)
    n8 = 0
    for f in repo.all_funcs():
        if not f.module.name.startswith('pharmpy.modeling'):
            continue
        raw = [c for c in calls_in(f.node) if dotted(c.func) == 'Parameter']
        if not raw:
            continue
        params = set(f.all_params)

        def computed(e, depth=3):
            # the value comes out of a call made in this function (directly, subscripted, or through a local)
            if isinstance(e, ast.Call):
                return dotted(e.func) not in ('float', 'int', 'str', 'abs')
            if isinstance(e, ast.Subscript):
                return computed(e.value, depth)
            if isinstance(e, (ast.BinOp,)):
                return computed(e.left, depth) or computed(e.right, depth)
            if isinstance(e, ast.Name) and e.id not in params and depth > 0:
                defs = [a.value for a in walk_no_nested(f.node) if isinstance(a, ast.Assign)
                        and any(isinstance(t, ast.Name) and t.id == e.id for t in a.targets)]
                return any(computed(d, depth - 1) for d in defs)
            return False
        for c in raw:
            n8 += 1
            vals = list(c.args[1:]) + [k.value for k in c.keywords if k.arg in ('init', 'lower', 'upper')]
            comp = [unparse(v) for v in vals if computed(v)]
            chk.instance(M8, f'{f.qualname}: {unparse(c)[:70]} computed values: {comp}')
            if len(comp) >= 2:
                chk.violation(M8, f.module.rel, f.qualname, unparse(c)[:100],
                              f'initial estimate and bounds ({", ".join(comp)}) are computed and handed to the raw constructor: '
                              f'nothing checks lower <= init <= upper', line=c.lineno,
                              witness='a covariate whose range makes the computed upper bound smaller than the default '
                                      'initial estimate: the returned model has an initial value outside its bounds')
    if n8 < 3:
        raise AnalysisError(f'M8: only {n8} raw Parameter(...) calls found in pharmpy.modeling')

    # ---- M7: the same view of a field in __eq__ and __hash__
    M7 = chk.rule('M7', '__eq__ and __hash__ read a field through the same view: a property that transforms the stored value '
                        '(sorts, filters, converts) is not mixed with the raw attribute', floor=5)
    for c in repo.all_classes():
        e, h = c.methods.get('__eq__'), c.methods.get('__hash__')
        if not (e and h):
            continue
        from sa.classes import prop_field_map
        plain = prop_field_map(repo, c)          # property name -> field for `return self._f`
        ctor_fields = set(init_fields(repo, c))
        transforming = {}
        for k in repo.mro(c):
            for pname, pf in k.methods.items():
                if not pf.is_property() or pname in plain or pname in transforming:
                    continue
                fld = '_' + pname
                if fld in ctor_fields and any(isinstance(a, ast.Attribute) and isinstance(a.value, ast.Name)
                                              and a.value.id == 'self' and a.attr == fld for a in ast.walk(pf.node)):
                    transforming[pname] = fld
        pmap = dict(plain)
        pmap.update(transforming)
        def views(m):
            v = {}
            for a in ast.walk(m.node):
                if isinstance(a, ast.Attribute) and isinstance(a.value, ast.Name) and a.value.id == 'self':
                    if a.attr in transforming:
                        v.setdefault(transforming[a.attr], set()).add('property ' + a.attr)
                    elif a.attr in set(pmap.values()):
                        v.setdefault(a.attr, set()).add('raw')
            return v
        ve, vh = views(e), views(h)
        for fld in sorted(set(ve) & set(vh)):
            chk.instance(M7, f'{c.fq}.{fld}: __eq__ via {sorted(ve[fld])}, __hash__ via {sorted(vh[fld])}')
            if ve[fld] != vh[fld]:
                chk.violation(M7, c.module.rel, c.name, f'{fld}: __eq__ via {sorted(ve[fld])}, __hash__ via {sorted(vh[fld])}',
                              f'`{fld}` is compared through a view that normalises the stored value and hashed through another: '
                              f'two objects can be equal and hash differently', line=e.node.lineno,
                              witness='a compartment with a bolus and an infusion attached in different order along two '
                                      'routes: a == b but {a, b} has two elements')

    run_m9(chk, repo)
    run_m10(chk, repo)
    run_m11(chk, repo)

    # ---- M4
    n4 = 0
    for c in repo.all_classes():
        cr = c.methods.get('create')
        if not cr or not cr.is_classmethod():
            continue
        uniq = False
        for loop in [n for n in ast.walk(cr.node) if isinstance(n, ast.For)]:
            for n in ast.walk(loop):
                if isinstance(n, ast.If) and isinstance(n.test, ast.Compare) and len(n.test.ops) == 1 \
                        and isinstance(n.test.ops[0], ast.In) and any(isinstance(x, ast.Raise) for x in n.body):
                    uniq = True
        if not uniq:
            continue
        n4 += 1
        for name, f in c.methods.items():
            if name in ('create', '__init__', '__new__'):
                continue
            foreign = set(f.all_params) - {'self', 'cls'}
            changed = True
            while changed:
                changed = False
                for n in walk_no_nested(f.node):
                    if isinstance(n, ast.Assign) and len(n.targets) == 1 and isinstance(n.targets[0], ast.Name) \
                            and names(n.value) & foreign and n.targets[0].id not in foreign:
                        foreign.add(n.targets[0].id)
                        changed = True
            for call in calls_in(f.node):
                fn = unparse(call.func)
                raw = fn in (c.name, 'cls', 'type(self)', 'self.__class__')
                viacreate = fn in (f'{c.name}.create', 'cls.create', 'self.create', 'type(self).create')
                if not (raw or viacreate) or not call.args:
                    continue
                a0 = call.args[0]
                concat = isinstance(a0, ast.BinOp) and isinstance(a0.op, ast.Add) and \
                    any(names(side) & foreign for side in (a0.left, a0.right)) and \
                    any('self' in names(side) for side in (a0.left, a0.right))
                if not concat:
                    continue
                chk.instance(M4, f'{c.name}.{name}: {unparse(call)[:70]} via {"raw constructor" if raw else "create"}')
                if raw:
                    chk.violation(M4, c.module.rel, f.qualname, unparse(call),
                                  f'{c.name} concatenates its elements with foreign ones through the raw constructor, '
                                  f'bypassing the unique-name validation of create()', line=call.lineno,
                                  witness=f'x + y where y contains an element whose name is already in x: the result '
                                          f'has duplicate names')
    if n4 < 2:
        raise AnalysisError('M4: fewer than 2 containers with a unique-name validator found (Parameters, '
                            'RandomVariables expected)')

    # ---- M5 validators dominate returns
    pc = repo.cls('pharmpy.model.parameters.Parameter').methods.get('create')
    if pc is None:
        raise AnalysisError('Parameter.create not found')
    # a helper expanded by sa/inline.py keeps its parameters under `<name>__<helper>`: the same quantities
    import copy as _copy
    import re as _re_

    class _Strip(ast.NodeTransformer):
        def visit_Name(self, n_):
            return ast.copy_location(ast.Name(id=_re_.sub(r'__\w+$', '', n_.id), ctx=n_.ctx), n_)
    pcn = _Strip().visit(_copy.deepcopy(pc.node))
    ast.fix_missing_locations(pcn)
    cfg = CFG(pcn)
    rets = [n for n in cfg.nodes.values() if n.kind == 'return']
    guards = []
    for t in [n for n in cfg.nodes.values() if n.kind == 'test']:
        if not isinstance(t.ast, (ast.Compare, ast.BoolOp)):
            continue
        if not (names(t.ast) <= {'init', 'lower', 'upper'} and 'init' in names(t.ast)):
            continue
        raises = any(cfg.nodes[m].kind == 'raiseS' for m in cfg.succ(t.id, ['true']))
        if raises:
            guards.append(t)
    chk.instance(M5, f'Parameter.create: bound guards {[g.text() for g in guards]}')
    dom_guards = [g for g in guards if all(cfg.dominates(g.id, r.id) for r in rets)]
    samples = [((0, 1, 2), True), ((3, 1, 2), True), ((1.5, 1, 2), False), ((1, 1, 2), False), ((2, 1, 2), False),
               ((-1, 0, float('inf')), True), ((5, -float('inf'), 4), True)]
    for (i_, lo, up), must_raise in samples:
        env = {'init': i_, 'lower': lo, 'upper': up}
        raised = any(bool(eval(compile(ast.Expression(g.ast), '<guard>', 'eval'), {'__builtins__': {}}, env))
                     for g in dom_guards)
        if raised != must_raise:
            nd = [g.text() for g in guards if g not in dom_guards]
            chk.violation(M5, pc.module.rel, pc.qualname,
                          f'bounds validation on every path: init={i_} lower={lo} upper={up}',
                          f'Parameter.create {"accepts" if must_raise else "rejects"} init={i_} with bounds [{lo}, {up}] '
                          f'on some path (guards not dominating the return: {nd})', line=pc.node.lineno,
                          witness='create a parameter through the path that skips the guard (e.g. a fixed parameter) '
                                  'with init outside its bounds: the API returns an ill-formed Parameter')
            break
    # uniqueness guards inside create loops: every iteration passes the guard
    for cname in ('pharmpy.model.parameters.Parameters', 'pharmpy.model.random_variables.RandomVariables'):
        c = repo.cls(cname)
        cr = c.methods['create']
        cfg = CFG(cr.node)
        found = 0
        for t in [n for n in cfg.nodes.values() if n.kind == 'test' and isinstance(n.ast, ast.Compare)
                  and len(n.ast.ops) == 1 and isinstance(n.ast.ops[0], ast.In)]:
            if not any(cfg.nodes[m].kind == 'raiseS' for m in cfg.succ(t.id, ['true'])):
                continue
            # innermost enclosing loop head
            loops = [n for n in cfg.nodes.values() if n.kind == 'for'
                     and any(x is t.ast for x in ast.walk(n.ast))]
            if not loops:
                continue
            loop = min(loops, key=lambda n: len(list(ast.walk(n.ast))))
            found += 1
            chk.instance(M5, f'{c.name}.create: uniqueness guard `{t.text()}` in loop `{loop.text()}`')
            body_entries = list(cfg.succ(loop.id, ['true']))
            for be in body_entries:
                if loop.id in cfg.reachable(be, avoid={t.id}, labels_excluded=('exc', 'fexc')):
                    chk.violation(M5, c.module.rel, cr.qualname, f'iteration of `{loop.text()}` can skip `{t.text()}`',
                                  'an element can be accepted without the unique-name test', line=t.line,
                                  witness='create([...]) with a duplicate name in the skipped position returns a '
                                          'container with duplicate names')
            rets = [n for n in cfg.nodes.values() if n.kind == 'return' and isinstance(n.ast.value, ast.Call)
                    and unparse(n.ast.value.func) in ('cls', c.name)]
            # the loop must be on every path to the constructor return for sequence input
            outer = max(loops, key=lambda n: len(list(ast.walk(n.ast))))
            data_param = cr.params[1] if len(cr.params) > 1 else None
            for r in rets:
                # paths that skip the loop are allowed only through explicit None / single-element branches
                p = cfg.path(cfg.entry, r.id, avoid={outer.id}, labels_excluded=('exc', 'fexc'))
                if p:
                    tests_on_path = [cfg.nodes[x].text() for x in p if cfg.nodes[x].kind == 'test']
                    ok = any(('is None' in tx or 'isinstance' in tx) and data_param in tx for tx in tests_on_path)
                    if not ok:
                        chk.violation(M5, c.module.rel, cr.qualname,
                                      f'return {unparse(r.ast.value)[:50]} reachable without the validation loop',
                                      'a sequence of elements can reach the constructor unvalidated', line=r.line,
                                      path=cfg.describe(p),
                                      witness='create(seq) with duplicate names returns an ill-formed container')
        if not found:
            chk.violation(M5, c.module.rel, cr.qualname, 'no `if name in names: raise` guard inside create()',
                          f'{c.name}.create no longer rejects duplicate names', line=cr.node.lineno,
                          witness='create([p, p]) returns a container with duplicate names')


def _entry_path(aa, f, is_public, limit=6):
    """shortest caller chain from a public function to f (names only)"""
    from collections import deque
    seen = {f.fq: None}
    dq = deque([f.fq])
    funcs = {x.fq: x for x in aa.repo.all_funcs()}
    end = None
    while dq:
        cur = dq.popleft()
        fx = funcs.get(cur)
        if fx is not None and is_public(fx):
            end = cur
            break
        for c in sorted(aa.callers.get(cur, ())):
            if c not in seen:
                seen[c] = cur
                dq.append(c)
    if end is None:
        return [f.fq]
    out = []
    while end is not None:
        out.append(end)
        end = seen[end]
    return out


def run_m9(chk, repo):
    """no accessor hands out a mutable container that the object keeps in an attribute (a memo, a cache): the caller's
    `d = obj.inits; d.update(..)` would then change the object and every object that shares it"""
    M9 = chk.rule('M9', 'model-layer classes: no method or property returns a dict / list / set stored in an attribute of self '
                        '(a copy or a freshly built container is returned)', floor=20)
    MUT = (ast.Dict, ast.List, ast.Set, ast.DictComp, ast.ListComp, ast.SetComp)
    n = 0
    for c in repo.all_classes():
        if not c.module.name.startswith(('pharmpy.model.', 'pharmpy.workflows', 'pharmpy.tools.mfl')) \
                or c.module.name.startswith('pharmpy.model.external'):
            continue
        n += 1
        mutattrs = {}
        for f in dict.values(c.methods):
            for a in ast.walk(f.node):
                if isinstance(a, ast.Assign):
                    for t in a.targets:
                        if isinstance(t, ast.Attribute) and isinstance(t.value, ast.Name) and t.value.id == 'self' and (
                                isinstance(a.value, MUT) or (isinstance(a.value, ast.Call)
                                                             and dotted(a.value.func) in ('dict', 'list', 'set'))):
                            mutattrs.setdefault(t.attr, a)
        for f in dict.values(c.methods):
            if f.name in ('__init__', '__new__'):
                continue
            for ret in ast.walk(f.node):
                if isinstance(ret, ast.Return) and isinstance(ret.value, ast.Attribute) and isinstance(ret.value.value, ast.Name) \
                        and ret.value.value.id == 'self' and ret.value.attr in mutattrs:
                    chk.violation(M9, c.module.rel, f.qualname, f'return self.{ret.value.attr}',
                                  f'`self.{ret.value.attr}` is a mutable container built by this class '
                                  f'(`{unparse(mutattrs[ret.value.attr])[:60]}`) and is handed out as it is: a caller that '
                                  f'updates the result changes this object', line=ret.lineno,
                                  witness='d = model.parameters.inits; d.update(new) (set_initial_estimates with '
                                          'move_est_close_to_bounds=True does that): the input model reports the new values')
    chk.instance(M9, f'{n} classes of the model / workflow layer examined for accessors that return a stored mutable container',
                 n=n)


def run_m10(chk, repo):
    """Model._canonicalize_statements: a symbol used by statement i must be defined by a statement STRICTLY before i; a
    statement that is the first definition of a symbol it uses (X = X*2) is refused"""
    from sa import iterspace as IS
    M10 = chk.rule('M10', '_canonicalize_statements: "defined before use" excludes the statement itself (slice [:i], or an index '
                          'comparison that raises for definition index == i)', floor=1)
    mc = repo.cls('pharmpy.model.model.Model')
    f = mc.methods.get('_canonicalize_statements')
    if f is None:
        raise AnalysisError('Model._canonicalize_statements not found')
    n = 0
    for L in [x for x in ast.walk(f.node) if isinstance(x, ast.For) and isinstance(x.iter, ast.Call)
              and dotted(x.iter.func) == 'enumerate' and isinstance(x.target, ast.Tuple) and isinstance(x.target.elts[0], ast.Name)]:
        iv = L.target.elts[0].id
        for I in [x for x in ast.walk(L) if isinstance(x, ast.If) and any(isinstance(r, ast.Raise) for r in x.body)]:
            tn = {x.id for x in ast.walk(I.test) if isinstance(x, ast.Name)}
            if iv not in tn:
                continue
            sl = [s_ for s_ in ast.walk(I.test) if isinstance(s_, ast.Subscript) and isinstance(s_.slice, ast.Slice)]
            if sl:
                n += 1
                ok = all(s_.slice.lower is None and isinstance(s_.slice.upper, ast.Name) and s_.slice.upper.id == iv for s_ in sl)
                chk.instance(M10, f'`if {unparse(I.test)[:60]}: raise`: looks at the statements before {iv} only: {ok}')
                if not ok:
                    chk.violation(M10, mc.module.rel, f.qualname, unparse(I.test)[:90],
                                  'the statement itself (or later ones) counts as an earlier definition', line=I.lineno,
                                  witness='Model.replace(statements=[X = X*2, ...]) is accepted although X is not defined before')
                continue
            others = sorted(tn - {iv})
            if len(others) != 1 or not isinstance(I.test, ast.Compare):
                continue
            o = others[0]
            try:
                res = {d: bool(IS.ev_x(I.test, {iv: 5, o: 5 + d})) for d in (-1, 0, 1)}
            except Exception:
                continue
            n += 1
            ok = res == {-1: False, 0: True, 1: True}
            chk.instance(M10, f'`if {unparse(I.test)[:60]}: raise` for definition index i-1, i, i+1: {res}: {ok}')
            if not ok:
                chk.violation(M10, mc.module.rel, f.qualname, unparse(I.test)[:90],
                              f'raises for (definition index - statement index) in {[d for d, v in res.items() if v]}; it must raise '
                              f'for 0 and +1 and not for -1', line=I.lineno,
                              witness='CL = TVCL; CL = CL*EXP(ETA) after remove_iiv + reassign becomes CL = CL, which is accepted: '
                                      'the model uses a symbol that no earlier statement defines')
    if n == 0:
        raise AnalysisError('M10: the "defined before use" test of _canonicalize_statements was not recognised')


def run_m11(chk, repo):
    """M11: a class that takes its equality from collections.abc.Mapping / Set (order of the entries irrelevant) must not hash
    the entries in iteration order; and a class whose __hash__ includes an attribute that holds such a mapping is consistent
    only if the mapping is"""
    M11 = chk.rule('M11', 'order-insensitive containers (Mapping / Set subclasses without their own __eq__) hash their entries '
                          'order-insensitively (frozenset / sorted), not as tuple(items())', floor=1)
    n = 0
    for c in repo.all_classes():
        ext = {b.split('[')[0].split('.')[-1] for b in repo.ext_bases(c)} | {
            unparse(b.value if isinstance(b, ast.Subscript) else b).split('.')[-1] for b in c.base_exprs}
        if not (ext & {'Mapping', 'MutableMapping', 'Set', 'AbstractSet'}):
            continue
        if dict.__contains__(c.methods, '__eq__') or not dict.__contains__(c.methods, '__hash__'):
            continue
        h = c.methods['__hash__']
        n += 1
        ordered = [x for x in ast.walk(h.node) if isinstance(x, ast.Call) and isinstance(x.func, ast.Name)
                   and x.func.id in ('tuple', 'list') and x.args]
        unordered = [x for x in ast.walk(h.node) if isinstance(x, ast.Call) and isinstance(x.func, ast.Name)
                     and x.func.id in ('frozenset', 'sorted', 'set')]
        bad = [x for x in ordered if not any(isinstance(y, ast.Call) and isinstance(y.func, ast.Name)
                                             and y.func.id in ('sorted', 'frozenset') for y in ast.walk(x.args[0]))]
        ok = bool(unordered) and not bad
        chk.instance(M11, f'{c.name}.__hash__: order-insensitive {ok}')
        if not ok:
            node = (bad or [h.node])[0]
            chk.violation(M11, c.module.rel, h.qualname, unparse(node)[:80] if bad else '__hash__',
                          f'{c.name} compares like a {sorted(ext & {"Mapping", "MutableMapping", "Set", "AbstractSet"})[0]} (entry '
                          f'order irrelevant) but hashes its entries in iteration order: equal objects hash differently',
                          line=node.lineno,
                          witness='Model.replace(dependent_variables={Y: 1, CL: 2}) and ({CL: 2, Y: 1}): the models are equal, '
                                  'their hashes differ, a dict keyed by one does not find the other')
    if n == 0:
        raise AnalysisError('M11: no Mapping / Set subclass with its own __hash__ found (frozenmapping expected)')
