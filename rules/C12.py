"""C12 Serialisation round-trips and model hashes: H1 key agreement, H2 field coverage / same view as __eq__,
H3 canonical order, H4 hash-seed / identity independence, H5 blanking of name, description and path."""
from __future__ import annotations

import ast

from sa import reach
from sa.cfg import CFG
from sa.classes import (init_fields, init_param_of_field, prop_field_map, method_fields, written_keys, read_keys,
                        inner_records, self_name, fields_of)
from sa.report import AnalysisError
from sa.srcmodel import unparse, walk_no_nested, calls_in, owner_class, dotted

SCOPE_PREFIXES = ('pharmpy.model.', 'pharmpy.basic.', 'pharmpy.workflows.hashing', 'pharmpy.internals.df',
                  'pharmpy.internals.immutable', 'pharmpy.workflows.log', 'pharmpy.workflows.model_entry')
EXCLUDE_PREFIXES = ('pharmpy.model.external.',)


def in_scope(modname):
    return modname.startswith(SCOPE_PREFIXES) and not modname.startswith(EXCLUDE_PREFIXES)


def names(node):
    return {n.id for n in ast.walk(node) if isinstance(n, ast.Name)}


def ctor_params(repo, c):
    out = set()
    for meth in ('__init__', 'create'):
        m = repo.find_method(c, meth)
        if m:
            out |= set(m.all_params) - {'self', 'cls'}
    return out


def check_h2(chk, H2, repo, pairs):
    for c in pairs:
        e = repo.find_method(c, '__eq__')
        td = c.methods['to_dict']
        if e is None or owner_class(e) is None or owner_class(e).fq != c.fq:
            continue
        ctor = set(init_fields(repo, c))
        eqf = method_fields(repo, c, e) & ctor
        tdf = method_fields(repo, c, td) & ctor
        chk.instance(H2, f'{c.fq}: eq{sorted(eqf)} to_dict{sorted(tdf)}')
        for fld in sorted(eqf - tdf):
            chk.violation(H2, c.module.rel, c.name, f'__eq__ compares {fld}, to_dict does not serialise it',
                          f'`{fld}` takes part in equality but is lost in to_dict', line=td.node.lineno,
                          witness=f'from_dict(to_dict(x)) != x for an x with a non-default {fld}; two models differing '
                                  f'only in {fld} get the same database key')
        # same view: a non-trivial property named like a compared raw field must not feed to_dict
        props = prop_field_map(repo, c)
        raw_eq = {n.attr for n in ast.walk(e.node) if isinstance(n, ast.Attribute) and isinstance(n.value, ast.Name)
                  and n.value.id in ('self', 'other') and n.attr in ctor}
        for m in [td] + [x for x in [repo.find_method(c, '_to_dict')] if x]:
            me = self_name(m)
            for n in ast.walk(m.node):
                if isinstance(n, ast.Attribute) and isinstance(n.value, ast.Name) and n.value.id == me \
                        and n.attr not in ctor and n.attr not in props:
                    pm = repo.find_method(c, n.attr)
                    if pm is None or not pm.is_property():
                        continue
                    reads = fields_of(repo, c, pm.node, self_name(pm), through_methods=False)
                    clash = {f_ for f_ in reads if f_ in raw_eq and f_.lstrip('_') == n.attr}
                    for f_ in sorted(clash):
                        chk.violation(H2, c.module.rel, m.qualname, f'self.{n.attr} (computed view of {f_})',
                                      f'to_dict serialises the computed property `{n.attr}` while __eq__ compares the '
                                      f'raw field `{f_}`', line=n.lineno,
                                      witness=f'an object whose {f_} is not a fixed point of the property (e.g. '
                                              f'several elements in non-canonical order): from_dict(to_dict(x)) != x')


def run(chk, repo, tier):
    chk.explanation = (
        'H1: for every class with to_dict and from_dict the key set written equals the key set read (incl. helper '
        'extension, delegation, cls(**d) against constructor parameters, the class discriminator read by the '
        'container, two writers of one record type). H2: every field compared by __eq__ is serialised, through the '
        'same view (raw field / trivial property) that __eq__ compares. H3: to_dict of an order-insensitive value '
        'enumerates canonically. H4: nothing in the serialisation / hashing closure depends on id(), builtin hash() or '
        'set iteration order. H5: ModelHash blanks name, description and dataset path before encoding. NOT decided: '
        'equality of from_dict(to_dict(x)) for arbitrary expressions (srepr/parse_expr), generic model code parsing, '
        'DataFrame hashing.')
    H1 = chk.rule('H1', 'to_dict keys == from_dict keys', floor=20)
    H2 = chk.rule('H2', 'fields compared by __eq__ are serialised, through the same view', floor=15)
    H3 = chk.rule('H3', 'canonical enumeration in to_dict of order-insensitive values', floor=1)
    H4 = chk.rule('H4', 'no id(), builtin hash() or set-iteration order in the serialisation/hashing closure',
                  floor=150)
    H5 = chk.rule('H5', 'ModelHash encodes the model with name, description and datainfo path blanked', floor=3)

    pairs = [c for c in repo.all_classes() if 'to_dict' in c.methods and 'from_dict' in c.methods]
    if len(pairs) < 20:
        raise AnalysisError(f'only {len(pairs)} to_dict/from_dict classes found')
    # 'class' discriminators read by some from_dict in the same module
    disc_readers = {}
    for c in pairs:
        fd = c.methods['from_dict']
        for n in ast.walk(fd.node):
            if isinstance(n, ast.Compare) and isinstance(n.left, ast.Subscript) \
                    and isinstance(n.left.slice, ast.Constant) and n.left.slice.value == 'class':
                for cmp in n.comparators:
                    if isinstance(cmp, ast.Constant):
                        disc_readers.setdefault(c.module.name, set()).add(cmp.value)
    for c in pairs:
        td, fd = c.methods['to_dict'], c.methods['from_dict']
        wk, complete = written_keys(repo, c, td)
        req, opt, star = read_keys(fd)
        if not complete and not wk:
            chk.instance(H1, f'{c.fq}: to_dict not a key/value record (comprehension or generic): skipped')
            continue
        w = set(wk)
        if 'class' in w:
            # the discriminator value must be this class' name and must be dispatched on by a container
            lit = None
            for n in ast.walk(td.node):
                if isinstance(n, ast.Dict):
                    for k, v in zip(n.keys, n.values):
                        if isinstance(k, ast.Constant) and k.value == 'class' and isinstance(v, ast.Constant):
                            lit = v.value
            w.discard('class')
            if lit is not None and lit != c.name:
                chk.violation(H1, c.module.rel, c.name, f"'class': '{lit}'",
                              f'{c.name}.to_dict writes the discriminator of another class', line=td.node.lineno,
                              witness=f'from_dict of the container rebuilds a {lit} instead of a {c.name}')
        r = req | opt
        r.discard('class')
        if star:
            # cls(**d) : remaining keys must be constructor parameters
            cp = ctor_params(repo, c)
            deleted = set()
            for f2 in [fd] + [x[1] for x in [repo.resolve_call(fd, cl) for cl in calls_in(fd.node)] if x and x[0] == 'func']:
                for n in ast.walk(f2.node):
                    if isinstance(n, ast.Delete):
                        for t in n.targets:
                            if isinstance(t, ast.Subscript) and isinstance(t.slice, ast.Constant):
                                deleted.add(t.slice.value)
            eff = w - deleted
            chk.instance(H1, f'{c.fq}: keys {sorted(eff)} -> constructor parameters (cls(**d))')
            initm = repo.find_method(c, '__init__')
            ip = set(initm.all_params) - {'self'} if initm else set()
            for k in sorted(eff - ip):
                chk.violation(H1, c.module.rel, c.name, f"to_dict key '{k}' is not a constructor parameter",
                              f'{c.name}.from_dict calls cls(**d) but __init__ has no parameter `{k}`',
                              line=td.node.lineno, witness=f'{c.name}.from_dict({c.name}(...).to_dict()) raises TypeError')
            required = set()
            if initm:
                a = initm.node.args
                pos = a.posonlyargs + a.args
                nd = len(a.defaults)
                required = {p.arg for p in pos[:len(pos) - nd]} - {'self'}
            for k in sorted(required - eff):
                chk.violation(H1, c.module.rel, c.name, f"constructor parameter '{k}' not written by to_dict",
                              f'{c.name}.from_dict calls cls(**d) but to_dict does not write required `{k}`',
                              line=td.node.lineno, witness=f'{c.name}.from_dict({c.name}(...).to_dict()) raises TypeError')
            continue
        chk.instance(H1, f'{c.fq}: written {sorted(w)} read {sorted(r)}')
        for k in sorted(w - r):
            chk.violation(H1, c.module.rel, c.name, f"key '{k}' written by to_dict, not read by from_dict",
                          f'{c.name}.from_dict ignores `{k}`', line=td.node.lineno,
                          witness=f'two {c.name} objects differing in {k} deserialise to the same object: '
                                  f'from_dict(to_dict(x)) != x')
        for k in sorted(req - w):
            chk.violation(H1, c.module.rel, c.name, f"key '{k}' read by from_dict, not written by to_dict",
                          f'{c.name}.from_dict requires `{k}` which to_dict never writes', line=fd.node.lineno,
                          witness=f'{c.name}.from_dict({c.name}(...).to_dict()) raises KeyError')
    # two writers of one record type: DataInfo._to_dict inline column record vs ColumnInfo.to_dict
    di = repo.cls('pharmpy.model.datainfo.DataInfo')
    ci = repo.cls('pharmpy.model.datainfo.ColumnInfo')
    tdm = repo.find_method(di, '_to_dict') or di.methods['to_dict']
    recs = inner_records(tdm)
    ck, _ = written_keys(repo, ci, ci.methods['to_dict'])
    creq, copt, _ = read_keys(ci.methods['from_dict'])
    if not recs:
        # columns may be serialised through ColumnInfo.to_dict directly: fine
        chk.instance(H1, 'DataInfo serialises columns through ColumnInfo.to_dict')
    for var, keys in recs:
        chk.instance(H1, f'DataInfo._to_dict column record {sorted(keys)} vs ColumnInfo.to_dict {sorted(ck)}')
        if keys != ck or not (creq <= keys):
            chk.violation(H1, di.module.rel, 'DataInfo._to_dict', f'column record keys {sorted(keys ^ ck)}',
                          'the column record written by DataInfo differs from ColumnInfo.to_dict / from_dict keys',
                          line=tdm.node.lineno,
                          witness='a datainfo JSON written by DataInfo cannot be read back with all column '
                                  'attributes (KeyError or silently dropped attribute)')

    # ---------------------------------------------------------------- H2
    check_h2(chk, H2, repo, pairs)

    # ---------------------------------------------------------------- H3
    cs = repo.cls('pharmpy.model.statements.CompartmentalSystem')
    td = cs.methods.get('to_dict')
    e = cs.methods.get('__eq__')
    if td is None or e is None:
        raise AnalysisError('CompartmentalSystem.to_dict/__eq__ not found')
    order_insensitive = any(isinstance(n, ast.Call) and unparse(n.func) in ('nx.to_dict_of_dicts', 'set', 'frozenset')
                            for n in ast.walk(e.node))
    iters = []
    for n in ast.walk(td.node):
        it = None
        if isinstance(n, ast.For):
            it = n.iter
        elif isinstance(n, ast.comprehension):
            it = n.iter
        if it is not None and '_g' in unparse(it):
            iters.append(it)
    if not iters:
        # enumeration goes through a helper: accept when it is the shared ordering routine
        txt = unparse(td.node)
        chk.instance(H3, f'CompartmentalSystem.to_dict enumerates through {"ordering helper" if "_order_compartments" in txt or "sorted(" in txt else "?"}')
        if '_order_compartments' not in txt and 'sorted(' not in txt:
            raise AnalysisError('H3: cannot find how CompartmentalSystem.to_dict enumerates the graph')
    def bare(it):
        # the enumerated source without order preserving wrappers: enumerate(x), list(x), tuple(x), x.items() ... are all
        # "iteration over x" (the finding is the same construct however it is wrapped)
        while True:
            if isinstance(it, ast.Call) and dotted(it.func) in ('enumerate', 'list', 'tuple', 'iter') and it.args:
                it = it.args[0]
            else:
                return it
    seen_src = set()
    for it in iters:
        canon = isinstance(it, ast.Call) and unparse(it.func) in ('sorted',)
        it = bare(it)
        if unparse(it) in seen_src:
            continue
        seen_src.add(unparse(it))
        chk.instance(H3, f'CompartmentalSystem.to_dict iterates `{unparse(it)}` (eq order-insensitive: {order_insensitive})')
        if order_insensitive and not canon:
            chk.violation(H3, cs.module.rel, 'CompartmentalSystem.to_dict', f'iteration over {unparse(it)}',
                          'graph nodes/edges are enumerated in networkx insertion order although __eq__ ignores that '
                          'order', line=it.lineno,
                          witness='build the same system twice adding compartments in a different order (or set and '
                                  'unset a lag time, which relabels a node to the end): the objects are equal but '
                                  'to_dict() and hence ModelHash differ')

    # ---------------------------------------------------------------- H4
    n_scope = 0
    for f in repo.all_funcs():
        if not in_scope(f.module.name):
            continue
        n_scope += 1
        is_hash_ctx = f.name in ('__hash__', '__eq__') or (f.parent is not None and f.parent.name == 'cache_method') \
            or f.name == 'cache_method' or 'hash_df_runtime' in f.name
        # list(s) / tuple(s) that go straight into an order-insensitive consumer (sorted(list(s)), set(tuple(s)), len(..)) are
        # not an ordered value
        absorbed = {id(x.args[0]) for x in calls_in(f.node) if x.args and unparse(x.func) in (
            'sorted', 'set', 'frozenset', 'len', 'sum', 'min', 'max', 'any', 'all')}
        for c in calls_in(f.node):
            fn = unparse(c.func)
            if id(c) in absorbed:
                continue
            # ... also through one local: `xs = list(s); return sorted(xs, key=..)`
            asg = next((a_ for a_ in ast.walk(f.node) if isinstance(a_, ast.Assign) and a_.value is c
                        and len(a_.targets) == 1 and isinstance(a_.targets[0], ast.Name)), None)
            if asg is not None:
                nm_ = asg.targets[0].id
                loads = [x for x in ast.walk(f.node) if isinstance(x, ast.Name) and x.id == nm_ and isinstance(x.ctx, ast.Load)]
                if loads and all(id(x) in absorbed for x in loads):
                    continue
            if fn == 'id':
                chk.violation(H4, f.module.rel, f.qualname, unparse(c),
                              'object identity (id()) used in the serialisation/hashing closure', line=c.lineno,
                              witness='addresses are reused after garbage collection and differ between processes: '
                                      'a later, different object gets the stale value / keys differ across processes')
            if fn == 'hash' and not is_hash_ctx:
                chk.violation(H4, f.module.rel, f.qualname, unparse(c),
                              'builtin hash() (randomised per process for str) used outside __hash__/__eq__',
                              line=c.lineno,
                              witness='run the same code under two PYTHONHASHSEED values: the value and anything '
                                      'derived from it differ')
            if fn in ('tuple', 'list', "''.join", "', '.join", 'enumerate', 'zip', 'next') and c.args:
                a = c.args[0]
                if isinstance(a, ast.Call) and unparse(a.func) in ('iter',) and a.args:
                    a = a.args[0]
                setty = (isinstance(a, ast.Call) and unparse(a.func) in ('set', 'frozenset')) \
                    or isinstance(a, (ast.Set, ast.SetComp))
                if setty:
                    chk.violation(H4, f.module.rel, f.qualname, unparse(c),
                                  'an ordered value is built from a set without sorting', line=c.lineno,
                                  witness='with two or more string elements the order depends on PYTHONHASHSEED: '
                                          'to_dict(), generic model code and ModelHash differ between processes')
        if f.name in ('to_dict', 'serialize', '__hash__') or 'hash' in f.name.lower():
            from sa.setorder import SetOrder
            try:
                so = SetOrder(f.node, set_funcs={'_comps'})
            except Exception as e:      # CFG construction problems are analysis errors, not passes
                raise AnalysisError(f'H4: set-order analysis failed on {f.qualname}: {e}')
            for node, expr, why, txt in so.leaks:
                chk.violation(H4, f.module.rel, f.qualname, txt[:100],
                              f'{why}: the serialised form depends on the iteration order of a set', line=getattr(expr, 'lineno', None),
                              witness='a model with two or more compartments serialised in two interpreter processes '
                                      '(different PYTHONHASHSEED): the dictionaries, the generic code and the ModelHash differ')
        chk.instance(H4, None)
    chk.extra['H4_functions_in_scope'] = n_scope

    # ---------------------------------------------------------------- H6 DataFrame fields keep their index
    H6 = chk.rule('H6', 'a DataFrame field is serialised with an orientation that keeps its index, and read back with the '
                        'matching one', floor=1)
    PAIRS = {(None, None), ('dict', None), (None, 'columns'), ('dict', 'columns'), ('index', 'index'), ('tight', 'tight')}
    n6 = 0
    for c_ in repo.all_classes():
        if not in_scope(c_.module.name):
            continue
        td, fd = c_.methods.get('to_dict'), c_.methods.get('from_dict')
        if td is None or fd is None:
            continue
        # receivers are resolved through local temporaries (`ie = self._x; ie.to_dict()`)
        cfg_td = CFG(td.node)
        writes = []
        for c in calls_in(td.node):
            if isinstance(c.func, ast.Attribute) and c.func.attr == 'to_dict' and not c.args \
                    and (not c.keywords or any(k.arg == 'orient' for k in c.keywords)):
                recv = c.func.value
                if isinstance(recv, ast.Name):
                    nid = reach.node_containing(cfg_td, c)
                    recv = reach.expand_expr(cfg_td, nid, recv) if nid is not None else recv
                if isinstance(recv, ast.Attribute) and unparse(recv).startswith('self.'):
                    c2 = ast.Call(func=ast.Attribute(value=recv, attr='to_dict', ctx=ast.Load()), args=[], keywords=c.keywords)
                    c2.lineno = c.lineno
                    writes.append(c2)
        reads = [c for c in calls_in(fd.node) if (dotted(c.func) or '').endswith(('DataFrame.from_dict', 'pd.DataFrame'))]
        # only receivers that are DataFrame-typed fields: annotated so in __init__ / create
        for w in writes:
            fld = unparse(w.func.value)
            ann = ' '.join(unparse(a.annotation) for m_ in (c_.methods.get('__init__'), c_.methods.get('create')) if m_
                           for a in m_.node.args.args + m_.node.args.kwonlyargs
                           if a.annotation is not None and a.arg == fld.split('.')[-1].lstrip('_'))
            if 'DataFrame' not in ann:
                continue
            n6 += 1
            wo = next((k.value.value for k in w.keywords if k.arg == 'orient' and isinstance(k.value, ast.Constant)), None)
            ros = [next((k.value.value for k in r.keywords if k.arg == 'orient' and isinstance(k.value, ast.Constant)), None)
                   for r in reads]
            ok = bool(ros) and all((wo, ro) in PAIRS for ro in ros)
            chk.instance(H6, f'{c_.name}: {unparse(w)} read back with orient {ros}: index preserving pair {ok}')
            if not ok:
                chk.violation(H6, c_.module.rel, td.qualname, unparse(w),
                              f'orientation {wo!r} (read back with {ros}) does not carry the row index of the frame',
                              line=w.lineno,
                              witness='a model whose initial individual estimates are indexed by subject id (11..15): '
                                      'from_dict(to_dict(m)) has index 0..4, is != m, and two models giving the same numbers '
                                      'to different subjects share one hash')
    if n6 == 0:
        raise AnalysisError('H6: no DataFrame field serialisation found (Model.initial_individual_estimates moved?)')

    run_h7(chk, repo, in_scope)
    run_h8_h10(chk, repo)
    run_h11(chk, repo)
    run_h12(chk, repo)
    run_h13(chk, repo)
    from rules.C05 import run_o12_o13
    run_o12_o13(chk, repo)

    # ---------------------------------------------------------------- H5
    mh = repo.cls('pharmpy.workflows.hashing.ModelHash').methods.get('__init__')
    if mh is None:
        raise AnalysisError('ModelHash.__init__ not found')
    cfg = CFG(mh.node)
    # the encoding site: the statement where the model content becomes the hashed bytes -- a direct `<model>.to_dict()` or a
    # call of a helper of the module whose body does it (`_encode(model)`)
    hm = mh.module

    def serialises(c):
        if isinstance(c.func, ast.Attribute) and c.func.attr == 'to_dict':
            return True
        g = hm.functions.get(dotted(c.func) or '') if isinstance(c.func, ast.Name) else None
        return g is not None and any(isinstance(x, ast.Call) and isinstance(x.func, ast.Attribute) and x.func.attr == 'to_dict'
                                     for x in ast.walk(g.node))
    enc = [n for n in cfg.nodes.values() if n.ast is not None and n.kind == 'stmt'
           and any(serialises(c) for c in [x for x in ast.walk(n.ast) if isinstance(x, ast.Call)])]
    if not enc:
        raise AnalysisError('H5: serialisation of the model (to_dict, directly or through a helper) not found in '
                            'ModelHash.__init__')

    def repl_nodes(kws):
        out = []
        for n in cfg.nodes.values():
            if n.ast is None or n.kind != 'stmt':
                continue
            for c in [x for x in ast.walk(n.ast) if isinstance(x, ast.Call)]:
                if isinstance(c.func, ast.Attribute) and c.func.attr == 'replace':
                    have = {kw.arg: kw.value for kw in c.keywords}
                    if all(k in have and isinstance(have[k], ast.Constant) and have[k].value in ('', None)
                           for k in kws):
                        out.append(n)
        return out
    for kws, what in ((('name',), 'name'), (('description',), 'description')):
        rn = repl_nodes(kws)
        chk.instance(H5, f'{what} blanked by {[n.text() for n in rn]}')
        for en in enc:
            if not any(cfg.dominates(n.id, en.id) for n in rn):
                chk.violation(H5, mh.module.rel, mh.qualname, f'_encode(model) not dominated by replace({what}=<blank>)',
                              f'the model {what} is part of the hashed bytes', line=en.line,
                              witness=f'two models with identical content but different {what} get different '
                                      f'database keys')
    pn = repl_nodes(('path',))
    chk.instance(H5, f'datainfo path blanked by {[n.text() for n in pn]}')
    # the branch on which the model has a datainfo: `<local bound to X.datainfo> is not None`, in any polarity
    from sa import guards as G_

    def has_datainfo(nid):
        def atom(e):
            if isinstance(e, ast.Compare) and len(e.ops) == 1 and isinstance(e.ops[0], (ast.Is, ast.IsNot)) \
                    and isinstance(e.comparators[0], ast.Constant) and e.comparators[0].value is None:
                src = e.left
                if isinstance(src, ast.Name):
                    vs = reach.values(cfg, nid, src.id) or []
                    if not any(isinstance(a_, ast.Attribute) and a_.attr == 'datainfo' for _d, v in vs for a_ in ast.walk(v)):
                        return None
                elif not any(isinstance(a_, ast.Attribute) and a_.attr == 'datainfo' for a_ in ast.walk(src)):
                    return None
                return isinstance(e.ops[0], ast.IsNot)
            return None
        return atom
    ok = False
    for t in [n for n in cfg.nodes.values() if n.kind == 'test' and n.ast is not None]:
        lab = G_.edge_label(t.ast, has_datainfo(t.id), G_.resolver(cfg, t.id))
        if lab is None:
            continue
        for en in enc:
            for s in cfg.succ(t.id, [lab]):
                if pn and en.id not in cfg.reachable(s, avoid={n.id for n in pn}, labels_excluded=('exc', 'fexc')):
                    ok = True
    if not ok:
        chk.violation(H5, mh.module.rel, mh.qualname, '_encode(model) reachable with the dataset path in datainfo',
                      'the dataset file path is part of the hashed bytes', line=enc[0].line,
                      witness='the same model read from two directories gets two database keys')


def run_h7(chk, repo, in_scope):
    """to_dict writes every key from the field of the same name"""
    H7 = chk.rule('H7', 'serialisers write d[key] from the field of that name (key/field agreement)', floor=40)
    n = 0
    for c in repo.all_classes():
        if not in_scope(c.module.name):
            continue
        fields = set(init_fields(repo, c))
        for mname in ('to_dict', '_add_to_dict', '_to_dict'):
            m = c.methods.get(mname)
            if m is None:
                continue
            pairs = []
            for node in ast.walk(m.node):
                if isinstance(node, ast.Assign) and isinstance(node.targets[0], ast.Subscript) \
                        and isinstance(node.targets[0].slice, ast.Constant) and isinstance(node.targets[0].slice.value, str):
                    pairs.append((node.targets[0].slice.value, node.value, node))
                if isinstance(node, ast.Dict):
                    for k, v in zip(node.keys, node.values):
                        if isinstance(k, ast.Constant) and isinstance(k.value, str):
                            pairs.append((k.value, v, node))
            for key, val, node in pairs:
                if not (isinstance(val, ast.Attribute) and isinstance(val.value, ast.Name) and val.value.id == 'self'):
                    continue
                own = '_' + key
                if own not in fields and key not in fields:
                    continue
                n += 1
                ok = val.attr.lstrip('_') == key
                chk.instance(H7, None)
                if not ok and val.attr in fields | {f_.lstrip('_') for f_ in fields}:
                    chk.violation(H7, c.module.rel, m.qualname, f"d['{key}'] = self.{val.attr}",
                                  f'the key `{key}` is written from the field `{val.attr}` although the class has a field for '
                                  f'`{key}`: that field is never serialised', line=getattr(node, 'lineno', m.node.lineno),
                                  witness=f'two objects that differ only in {key}: same dictionary, same hash, from_dict(to_dict(x)) != x')
    if n < 40:
        raise AnalysisError(f'H7: only {n} key/field pairs found')


def run_h8_h10(chk, repo):
    """H8: numeric fields that reach the serialised text are normalised to float in the validating constructor; H9: the two
    directions of Model.to_dict / from_dict use inverse codecs per mapping; H10: the dataset hash goes through a content hash
    of the values, never through raw array buffers"""
    from sa import reach
    H8 = chk.rule('H8', 'Parameter.create: init, lower and upper are converted with float() (or set to +-inf) on every path to '
                        'the constructor (0 and 0.0 must serialise the same)', floor=3)
    pc = repo.cls('pharmpy.model.parameters.Parameter')
    cr = pc.methods.get('create')
    if cr is None:
        raise AnalysisError('Parameter.create not found')
    cfg = CFG(cr.node)
    ctor = [n for n in cfg.nodes.values() if n.kind == 'return' and isinstance(n.ast.value, ast.Call)
            and unparse(n.ast.value.func) in ('cls', 'Parameter')]
    if not ctor:
        raise AnalysisError('H8: constructor call of Parameter.create not found')

    def is_float(e):
        if isinstance(e, ast.Call) and dotted(e.func) == 'float':
            return True
        if isinstance(e, ast.UnaryOp) and isinstance(e.op, ast.USub):
            return is_float(e.operand)
        if isinstance(e, ast.IfExp):
            return is_float(e.body) and is_float(e.orelse)
        if isinstance(e, ast.Constant) and isinstance(e.value, float):
            return True
        return False
    for r in ctor:
        for fld in ('init', 'lower', 'upper'):
            args = reach.positional_args(cfg, r.id, r.ast.value)
            if args is None:
                raise AnalysisError('H8: starred argument of the constructor call not resolved')
            names_ = [p for p in cr.params if p != 'cls']
            arg = args[names_.index(fld)] if fld in names_ and names_.index(fld) < len(args) else next(
                (k.value for k in r.ast.value.keywords if k.arg == fld), None)
            if arg is None:
                raise AnalysisError(f'H8: argument {fld} of the constructor call not found')
            if is_float(arg):
                ok = True
            elif isinstance(arg, ast.Name):
                found, entry = reach.reaching(cfg, r.id, arg.id)
                vs = reach.values(cfg, r.id, arg.id)
                ok = bool(vs) and not entry and all(is_float(v) for _d, v in vs)
            else:
                ok = False
            chk.instance(H8, f'Parameter.create: `{fld}` reaches the constructor as a float on every path: {ok}')
            if not ok:
                chk.violation(H8, pc.module.rel, cr.qualname, f'{fld} passed as given on some path',
                              f'`{fld}` keeps the type the caller used: 0 and 0.0 compare equal but serialise as "0" and "0.0", '
                              f'so two equal models get different hash keys', line=r.line,
                              witness='Parameter.create("X", 1, lower=0) vs lower=0.0: equal parameters, different ModelHash')
    # ------------------------------------------------------------------ H9
    H9 = chk.rule('H9', 'Model.to_dict / from_dict: keys and values of each mapping are written and read with inverse codecs '
                        '(x.serialize() <-> Expr.deserialize(x), str(x) <-> Expr.symbol(x))', floor=2)
    mc = repo.cls('pharmpy.model.model.Model')
    td, fd = mc.methods.get('to_dict'), mc.methods.get('from_dict')
    if td is None or fd is None:
        raise AnalysisError('Model.to_dict / from_dict not found')

    def codec(e, var):
        t = unparse(e)
        if t == var:
            return 'identity'
        if t == f'{var}.serialize()':
            return 'serialize'
        if t == f'str({var})':
            return 'str'
        if t == f'Expr.deserialize({var})':
            return 'deserialize'
        if t == f'Expr.symbol({var})':
            return 'symbol'
        return f'other:{t[:30]}'
    INVERSE = {'serialize': 'deserialize', 'str': 'symbol', 'identity': 'identity'}
    # writer: local = {kf(k): vf(v) for k, v in self._field.items()} ; 'name': local in the returned dict
    wr = {}
    locs = {a.targets[0].id: a.value for a in walk_no_nested(td.node) if isinstance(a, ast.Assign)
            and isinstance(a.targets[0], ast.Name) and isinstance(a.value, ast.DictComp)}
    for d_ in [x for x in ast.walk(td.node) if isinstance(x, ast.Dict)]:
        for k, v in zip(d_.keys, d_.values):
            if isinstance(k, ast.Constant) and isinstance(v, ast.Name) and v.id in locs:
                dc = locs[v.id]
                tg = dc.generators[0].target
                if isinstance(tg, ast.Tuple) and len(tg.elts) == 2:
                    wr[k.value] = (codec(dc.key, unparse(tg.elts[0])), codec(dc.value, unparse(tg.elts[1])))
    rd = {}
    for dc in [x for x in ast.walk(fd.node) if isinstance(x, ast.DictComp)]:
        it = dc.generators[0].iter
        key = next((s_.slice.value for s_ in ast.walk(it) if isinstance(s_, ast.Subscript) and isinstance(s_.slice, ast.Constant)), None)
        tg = dc.generators[0].target
        if key is not None and isinstance(tg, ast.Tuple) and len(tg.elts) == 2:
            rd[key] = (codec(dc.key, unparse(tg.elts[0])), codec(dc.value, unparse(tg.elts[1])))
    common = sorted(set(wr) & set(rd))
    if len(common) < 2:
        raise AnalysisError(f'H9: mapping comprehensions of Model.to_dict / from_dict not paired ({sorted(wr)}, {sorted(rd)})')
    for name in common:
        (wk, wv), (rk, rv_) = wr[name], rd[name]
        ok = INVERSE.get(wk) == rk and INVERSE.get(wv) == rv_
        chk.instance(H9, f'{name}: written ({wk}, {wv}), read ({rk}, {rv_}): inverse {ok}')
        if not ok:
            chk.violation(H9, mc.module.rel, 'Model.to_dict / from_dict', f'{name}: written ({wk}, {wv}), read ({rk}, {rv_})',
                          'the reader does not apply the inverse of what the writer applied: a key written with str() is parsed '
                          'as an expression (E, I, pi, S, beta ... become constants or fail)', line=td.node.lineno,
                          witness='a dependent variable named E: from_dict(to_dict(m)) != m')
    # ------------------------------------------------------------------ H10
    H10 = chk.rule('H10', 'the dataset hash is fed with a content hash of the values (pandas hash_pandas_object), not with raw '
                          'array buffers', floor=1)
    hm = repo.module('pharmpy.workflows.hashing')
    scope_fns = [f_ for f_ in dict.values(hm.functions)]
    # a moved helper is followed through the import
    for nm, imp in hm.imports.items():
        r_ = repo.resolve(hm, nm) if isinstance(imp, tuple) and imp[0] == 'attr' and str(imp[1]).startswith('pharmpy.internals') else None
        if r_ and r_[0] == 'func':
            scope_fns.append(r_[1])
    # and the helpers of their own module that they call (two levels)
    for _round in range(2):
        for f_ in list(scope_fns):
            for c in calls_in(f_.node):
                g_ = dict.get(f_.module.functions, dotted(c.func) or '')
                if g_ is not None and g_ not in scope_fns:
                    scope_fns.append(g_)
    raw = [(f_, c) for f_ in scope_fns for c in calls_in(f_.node) if isinstance(c.func, ast.Attribute)
           and c.func.attr in ('tobytes', 'tostring') and any(
               isinstance(u, ast.Call) and isinstance(u.func, ast.Attribute) and u.func.attr == 'update'
               and any(x is c for x in ast.walk(u)) for u in ast.walk(f_.node))]
    content = [c for f_ in scope_fns for c in calls_in(f_.node) if (dotted(c.func) or '').endswith('hash_pandas_object')]
    chk.instance(H10, f'hashing: {len(content)} hash_pandas_object call(s), {len(raw)} raw buffer(s) fed to the hash')
    for f_, c in raw:
        chk.violation(H10, f_.module.rel, f_.qualname, unparse(c)[:80],
                      'the bytes of an array buffer are hashed: for a text column (object dtype) these are memory addresses',
                      line=c.lineno,
                      witness='a dataset with a DATE or hh:mm TIME column: the key differs between two processes')
    if not content and not raw:
        raise AnalysisError('H10: how the dataset values reach the hash was not recognised')


def run_h11(chk, repo):
    """from_dict rebuilds exactly what to_dict wrote: where the alternative constructor `create` normalises its input (folds a
    nested piecewise, simplifies, reorders), from_dict must use the plain constructor"""
    H11 = chk.rule('H11', 'statement classes: from_dict does not go through a normalising create()', floor=1)
    sm = repo.module('pharmpy.model.statements')
    NORMALISERS = ('fold', 'simplify', 'expand', 'canonical', 'sorted', 'normal')
    n = 0
    for c in dict.values(sm.classes):
        cr, fd = c.methods.get('create'), c.methods.get('from_dict')
        if cr is None or fd is None:
            continue
        norm = sorted({(dotted(x.func) or '').split('.')[-1] for x in calls_in(cr.node)
                       if any(k in (dotted(x.func) or '').split('.')[-1].lower() for k in NORMALISERS)})
        if not norm:
            continue
        n += 1
        via_create = [x for x in calls_in(fd.node) if isinstance(x.func, ast.Attribute) and x.func.attr == 'create'
                      and unparse(x.func.value) in ('cls', c.name)]
        chk.instance(H11, f'{c.name}: create() normalises with {norm}; from_dict calls it: {bool(via_create)}')
        for x in via_create:
            chk.violation(H11, sm.rel, fd.qualname, unparse(x)[:80],
                          f'{c.name}.create applies {norm}: an object built with the plain constructor (the parser, reassign) does '
                          f'not come back equal', line=x.lineno,
                          witness='a statement whose piecewise has a piecewise in one branch (full_expression + reassign): '
                                  'from_dict(to_dict(s)) != s and the model gets another hash')
    if n == 0:
        raise AnalysisError('H11: no class with a normalising create() and a from_dict found')


def run_h12(chk, repo):
    """H12: what enters a hash must be a function of the data only. repr()/str() of a pandas Index / Series is display text:
    it is abbreviated with `...` beyond display.max_seq_items / max_rows and wrapped at display.width, so it depends on the
    options of the process and leaves out the middle entries. The entries have to be materialised (list / tuple / tolist)"""
    H12 = chk.rule('H12', 'workflows/hashing.py: pandas containers (columns, index, dtypes) enter the hash entry by entry, not as '
                          'their display text', floor=2)
    hm = repo.module('pharmpy.workflows.hashing')
    n = 0
    _classes, funcs = repo.scope(hm)          # also what hashing.py imports by name from the package (a moved helper)
    for f in funcs:
        if f.parent is not None:
            continue
        cands = []
        for c in [c for c in ast.walk(f.node) if isinstance(c, ast.Call) and isinstance(c.func, ast.Name)
                  and c.func.id in ('repr', 'str', 'format') and len(c.args) == 1]:
            a = c.args[0]
            if isinstance(a, ast.Name):
                # repr(obj) for obj in (list(df.columns), df.index, ..): every listed object is a candidate
                srcs = [g.iter for comp in ast.walk(f.node) if isinstance(comp, (ast.GeneratorExp, ast.ListComp))
                        for g in comp.generators if isinstance(g.target, ast.Name) and g.target.id == a.id
                        and any(x is c for x in ast.walk(comp))]
                srcs += [L.iter for L in ast.walk(f.node) if isinstance(L, ast.For) and isinstance(L.target, ast.Name)
                         and L.target.id == a.id and any(x is c for x in ast.walk(L))]
                for it in srcs:
                    if isinstance(it, ast.Name):
                        it = next((d_.value for d_ in ast.walk(f.node) if isinstance(d_, ast.Assign)
                                   and len(d_.targets) == 1 and isinstance(d_.targets[0], ast.Name)
                                   and d_.targets[0].id == it.id), it)
                    if isinstance(it, (ast.Tuple, ast.List)):
                        cands += [(c, el) for el in it.elts]
            else:
                cands.append((c, a))
        for c, a in cands:
            inner, wrapped = a, False
            while True:
                if isinstance(inner, ast.Call) and isinstance(inner.func, ast.Name) and inner.func.id in (
                        'list', 'tuple', 'sorted') and inner.args:
                    inner, wrapped = inner.args[0], True
                elif isinstance(inner, ast.Call) and isinstance(inner.func, ast.Attribute) and inner.func.attr in (
                        'tolist', 'to_list', 'to_dict', 'items'):
                    inner, wrapped = inner.func.value, True
                else:
                    break
            if not (isinstance(inner, ast.Attribute) and inner.attr in ('columns', 'index', 'dtypes', 'values')):
                continue
            n += 1
            chk.instance(H12, f'{f.qualname}: repr of {unparse(a)}: entries materialised: {wrapped}')
            if not wrapped:
                chk.violation(H12, hm.rel, 'dataset hash', f'repr(<frame>.{inner.attr})',
                              f'{f.module.rel}::{f.qualname}: the display text of `{unparse(inner)}` is hashed: it is abbreviated and wrapped according to the '
                              f'pandas display options of the process, so the key of one model differs between processes and '
                              f'datasets that differ in the elided entries collide', line=c.lineno,
                              witness='pd.set_option("display.max_seq_items", 10) in one of two processes; a dataset with more '
                                      'than 100 columns / a filtered dataset (non-range index)')
    if n < 2:
        raise AnalysisError(f'H12: only {n} pandas containers found in the dataset hash')


def run_h13(chk, repo):
    """H13: ColumnInfo.categories is either a tuple or a mapping code -> label (ColumnInfo._canonicalize_<field> returns a
    frozenmapping for dict input). In every to_dict / _to_dict of datainfo.py the value stored for such a field must keep the
    labels: the attribute must not pass through a conversion that iterates a mapping's keys only (tuple, list, set, frozenset,
    sorted applied to the attribute itself rather than to its .items())."""
    H13 = chk.rule('H13', 'datainfo to_dict: mapping-capable fields (categories) are stored without a keys-only conversion',
                   floor=2)
    m = repo.module('pharmpy.model.datainfo')
    ci = m.classes.get('ColumnInfo')
    if ci is None:
        raise AnalysisError('H13: ColumnInfo not found')
    mfields = {mn[len('_canonicalize_'):] for mn, f in ci.methods.items() if mn.startswith('_canonicalize_')
               and any(isinstance(c, ast.Call) and (dotted(c.func) or '').endswith('frozenmapping') for c in ast.walk(f.node))}
    if not mfields:
        raise AnalysisError('H13: no ColumnInfo._canonicalize_<field> that returns a frozenmapping')
    KEYS_ONLY = {'tuple', 'list', 'set', 'frozenset', 'sorted'}
    n = 0
    for c in dict.values(m.classes):
        for mn, f in c.methods.items():
            if mn not in ('to_dict', '_to_dict'):
                continue

            def is_field(e):
                return isinstance(e, ast.Attribute) and e.attr.lstrip('_') in mfields
            if not any(is_field(e) for e in ast.walk(f.node)):
                continue
            # names that hold the attribute (or a conversion of it)
            for call in [x for x in ast.walk(f.node) if isinstance(x, ast.Call)]:
                fn = dotted(call.func) or ''
                if fn in KEYS_ONLY and call.args and (is_field(call.args[0]) or (
                        isinstance(call.args[0], ast.Name) and any(
                            isinstance(a_, ast.Assign) and any(isinstance(t, ast.Name) and t.id == call.args[0].id for t in a_.targets)
                            and is_field(a_.value) for a_ in ast.walk(f.node)))):
                    chk.violation(H13, m.rel, f.qualname, unparse(call)[:80],
                                  f'{fn}() of a code -> label mapping keeps the codes only: from_dict(to_dict(x)) != x and models '
                                  f'that differ in the labels serialise (and hash) alike', line=call.lineno,
                                  witness="a column with categories={1: 'low', 2: 'high'}: DataInfo.from_dict(di.to_dict()) != di")
            for d in [x for x in ast.walk(f.node) if isinstance(x, ast.Dict)]:
                for k, v in zip(d.keys, d.values):
                    if isinstance(k, ast.Constant) and k.value in mfields:
                        n += 1
                        chk.instance(H13, f'{f.qualname}: {k.value!r}: {unparse(v)[:50]}')
    if n == 0:
        raise AnalysisError(f'H13: no to_dict entry for the mapping-capable fields {sorted(mfields)}')
